oxidize-pdf-core/src/operations/rotate.rs	s/\.rem_euclid\(360\)/ % 360/
