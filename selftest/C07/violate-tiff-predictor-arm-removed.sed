oxidize-pdf-core/src/parser/filters.rs	/^        2 => \{$/,/^        \}$/d
