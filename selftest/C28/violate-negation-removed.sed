oxidize-pdf-core/src/structure/outline.rs	s/Object::Integer\(if item\.open \{ count \} else \{ -count \}\),/Object::Integer(if item.open { count } else { count }),/
