oxidize-pdf-core/src/graphics/mod.rs	0,/        self\.record_used_chars\(text\);/s//        let _ = text;/
