oxidize-pdf-core/src/parser/filters.rs	0,/if result\.len\(\) > max_bytes \{/s//if false \&\& result.len() > max_bytes {/
