oxidize-pdf-core/src/parser/filters.rs	s/push_bounded\(&mut result, \(high_val << 4\) \| low_val, max_bytes\)\?;/result.push((high_val << 4) | low_val);/
