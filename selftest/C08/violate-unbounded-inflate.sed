oxidize-pdf-core/src/parser/filters.rs	0,/let result = read_to_end_limited\(&mut decoder, MAX_DECOMPRESSED_SIZE\)\?;/s//let mut result = Vec::new(); decoder.read_to_end(\&mut result)?;/
