oxidize-pdf-core/src/page_labels/page_label_tree.rs	s/BTreeMap/HashMap/g
