oxidize-pdf-core/src/parser/page_tree.rs	s/if !visited\.insert\(obj_ref\) \{/if false \&\& !visited.insert(obj_ref) {/
