oxidize-pdf-core/src/parser/xref.rs	s/if options\.max_recovery_attempts > 0 \{/if options.lenient_syntax {/
