oxidize-pdf-core/src/memory/cache.rs	0,/self\.order\.retain\(\|k\| k != key\);/s//let _ = key;/
