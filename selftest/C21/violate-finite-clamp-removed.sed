oxidize-pdf-core/src/graphics/ops.rs	0,/let x = finite_or_zero\(\*x\);/s//let x = *x;/
