oxidize-pdf-core/src/text/encoding.rs	s/        0x8A => '\\u\{0160\}', \/\/ Š/        0x8A => '\\u{0161}', \/\/ S/
