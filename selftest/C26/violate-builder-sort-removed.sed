oxidize-pdf-core/src/text/cmap.rs	s/            sorted_mappings\.sort_by_key\(\|\(k, _\)\| \*k\);/            let _ = \&mut sorted_mappings;/
