oxidize-pdf-core/src/text/cmap.rs	s/    for byte in bytes\.iter_mut\(\)\.rev\(\) \{/    for byte in bytes.iter_mut() {/
