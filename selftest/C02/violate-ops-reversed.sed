oxidize-pdf-core/src/page.rs	0,/self\.page_ops\.extend\(drained\);/s//self.page_ops.extend(drained); self.page_ops.reverse();/
