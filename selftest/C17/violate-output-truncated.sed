oxidize-pdf-core/src/writer/incremental_update.rs	s/        out\.extend_from_slice\(self\.base\);/        out.extend_from_slice(self.base); out.truncate(self.base.len().saturating_sub(0));/
