#!/bin/sh
# usage: mk_seed_wt.sh C29  -> creates /tmp/wt/seed-C29 (git worktree of /repo HEAD, with a copy of the dep build cache)
set +e
id=$1
d=/tmp/wt/seed-$id
git -C /repo worktree add --detach $d HEAD >/dev/null 2>&1
cp -a ${SEED_TARGET_SRC:-/tmp/wt/verify/target} $d/target 2>/dev/null
mkdir -p /tmp/seedout/$id
echo $d
