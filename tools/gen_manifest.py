#!/usr/bin/env python3
"""Generate /verif/MANIFEST.json from the rule modules present in oxv/rules (claimed) and the
NOT_APPLICABLE table below."""
import importlib, json, os, sys
V = os.path.dirname(os.path.dirname(os.path.abspath(__file__)))
sys.path.insert(0, V)
props = [json.loads(l) for l in open(os.path.join(V, 'properties.jsonl'))]
NA = {
    "C12": "geometric equality of glyph outlines/advance widths between two binary font files is a statement about computed values; the only structural clauses (composite expansion before renumbering) are already exercised by every subsetting test, so no static rule would be a necessary condition the suite does not settle (DESIGN §6)",
    "C23": "equality of RC4/AES/MD5/SHA outputs with a reference for all keys and passwords quantifies over computed values; no sound static argument in reach bounds it (DESIGN §6)",
    "C24": "pixel equality with an independent PNG decoder over the format's parameter space is numeric; no structural necessary condition beyond what the existing tests pin (DESIGN §6)",
}
TECH = {}
checks = []
na = []
for p in props:
    pid = p['id']
    path = os.path.join(V, 'oxv', 'rules', pid + '.py')
    if pid in NA:
        na.append({"property_id": pid, "reason": NA[pid]})
        continue
    if not os.path.exists(path):
        na.append({"property_id": pid, "reason": "static check not built yet in this session (planned, see DESIGN.md section 5); not claimed until its rules run"})
        continue
    mod = importlib.import_module('oxv.rules.' + pid)
    doc = (mod.__doc__ or '').strip()
    checks.append({
        "property_id": pid,
        "quick_cmd": "./check %s --tier quick" % pid,
        "thorough_cmd": "./check %s --tier thorough" % pid,
        "evidence_file": "/verif/evidence/%s.json" % pid,
        "replay_cmd_template": "./check %s --replay {path}" % pid,
        "engine": "oxv",
        "level_claimed": {
            "category": "other",
            "text": "Static analysis of the type-checked program (MIR/HIR/AST facts extracted by a rustc_private driver from /repo's current tree). Decides, for every path/arm/site of the anchored code at once, the structural clauses listed below - each a necessary condition of the property - and not the run-time behaviour itself. " + doc,
            "design_ref": "DESIGN.md section 5, " + pid,
        },
        "level_note": "Trusted: rustc type checking, MIR construction and Instance::try_resolve; host-target default-feature build (thorough: also --all-features). Calls into dependencies are leaves. Dataflow is flow-insensitive per body; undecidable sites are counted as undecided, never alarmed. Anchors are resolved def paths and fail closed when missing.",
        "technique": getattr(mod, "TECHNIQUE", "static analysis: custom MIR/HIR rules over rustc_private facts (must-pass paths, match-table extraction, dataflow slices, who-may-call)"),
    })
m = {
    "version": 1,
    "setup_cmd": "./setup.sh",
    "hooks": {
        "guard": "oxidizepdf_verif",
        "enable": "none needed: the analysis reads the unmodified build (cargo +nightly check with RUSTC_WORKSPACE_WRAPPER=/verif/driver/target/release/oxv-driver)",
        "baseline_off_cmd": "cd /repo && cargo nextest run --workspace --no-fail-fast --tool-config-file pb:/w/lib/nextest.toml --profile pb --test-threads 8 --offline",
        "source_commits": [],
        "add_only": True,
    },
    "engines": [
        {"name": "driver", "path": "/verif/driver", "serves_properties": [c["property_id"] for c in checks],
         "kind_free_text": "rustc_private fact extractor: MIR bodies with resolved callees, HIR match tables, AST format_args sites, evaluated consts"},
        {"name": "oxv", "path": "/verif/oxv", "serves_properties": [c["property_id"] for c in checks],
         "kind_free_text": "Python rule engine: CFG must-pass/dominance, dataflow slices, pattern-table extraction, order-taint, cycle guards"},
    ],
    "checks": checks,
    "not_applicable": na,
    "notes": "Family: static analysis only. Known findings in /verif/known_findings.txt (exact keys). Seeded regressions in /verif/seeded/.",
}
json.dump(m, open(os.path.join(V, 'MANIFEST.json'), 'w'), indent=1)
print("claimed", len(checks), "not_applicable", len(na))
