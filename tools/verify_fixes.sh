#!/bin/bash
# Run the pinned suite on /repo's HEAD in a scratch worktree, then the fix demonstrations (kept in /verif/fixes/demos).
# usage: verify_fixes.sh [worktree-dir]   -> log in /tmp/verify_fixes.log
W=${1:-/tmp/wt/verify}
L=/tmp/verify_fixes.log
git -C /repo worktree remove --force $W 2>/dev/null
git -C /repo worktree add --detach $W HEAD > $L 2>&1 || exit 2
cd $W
echo "== HEAD $(git rev-parse --short HEAD)" >> $L
nice cargo nextest run --workspace --no-fail-fast --tool-config-file pb:/w/lib/nextest.toml --profile pb --test-threads 8 --offline >> $L 2>&1
python3 /verif/tools/baseline_cmp.py target/nextest/pb/junit.xml >> $L 2>&1; echo "suite_regressions_exit=$?" >> $L
cp /verif/fixes/demos/verif_demo_*.rs oxidize-pdf-core/tests/
for t in a b c d e; do
  echo "== demo $t" >> $L
  nice cargo test --offline -j 8 -p oxidize-pdf --test verif_demo_$t >> $L 2>&1; echo "demo_${t}_exit=$?" >> $L
done
