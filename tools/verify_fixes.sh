#!/bin/bash
# Run the pinned suite on /repo's HEAD in a scratch worktree, then the fix demonstrations (kept in /verif/fixes/demos).
# usage: verify_fixes.sh [worktree-dir]   -> log in /tmp/verify_fixes.log
W=${1:-/tmp/wt/verify}
L=/tmp/verify_fixes.log
cd $W || exit 2
git checkout -q -- . ; rm -f oxidize-pdf-core/tests/seed_*_demo.rs oxidize-pdf-core/tests/verif_demo_*.rs
git checkout -q --detach $(git -C /repo rev-parse HEAD) || exit 2
echo "== HEAD $(git rev-parse --short HEAD)" > $L
nice cargo nextest run --workspace --no-fail-fast --tool-config-file pb:/w/lib/nextest.toml --profile pb --test-threads 8 --offline >> $L 2>&1
python3 /verif/tools/baseline_cmp.py target/nextest/pb/junit.xml >> $L 2>&1; echo "suite_regressions_exit=$?" >> $L
cp /verif/fixes/demos/verif_demo_*.rs oxidize-pdf-core/tests/
for d in /verif/fixes/demos/verif_demo_*_unit.diff; do git apply $d 2>>$L || echo "unit demo $d does not apply" >> $L; done
for t in $(ls /verif/fixes/demos/verif_demo_?.rs | sed -E 's/.*verif_demo_(.)\.rs/\1/'); do
  echo "== demo $t" >> $L
  nice cargo test --offline -j 8 -p oxidize-pdf --test verif_demo_$t >> $L 2>&1; echo "demo_${t}_exit=$?" >> $L
done
echo "== unit demos" >> $L
nice cargo test --offline -j 8 -p oxidize-pdf --lib verif_demo >> $L 2>&1; echo "demo_unit_exit=$?" >> $L
git checkout -q -- . ; rm -f oxidize-pdf-core/tests/verif_demo_*.rs
echo DONE >> $L
