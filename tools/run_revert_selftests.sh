#!/bin/bash
# run every selftest/<ID>/revert-*.diff (expect fire) and print PASS/FAIL lines
cd /verif
export OXV_CACHE=${OXV_CACHE:-/verif/.cache-self}
for f in selftest/*/revert-*.diff; do
  id=$(basename $(dirname $f))
  python3 -m oxv.selftest $id $f --expect fire 2>&1 | tail -1
done
