#!/bin/bash
# usage: recheck_flaky.sh <ID>  -- re-run, alone and with the seeded patch applied, the tests that confirm.log reported as
# regressions (timing / memory assertions that fail when several suites share the machine); appends the outcome to confirm.log
dir=$1; id=$(echo $dir | cut -c1-3)
S=/verif/seeded/$dir
W=${SEED_WT:-/tmp/wt/verify}
L=$S/confirm.log
tests=$(grep "REGRESSION" $L | awk '{print $2}' | sort -u)
[ -z "$tests" ] && { echo "$id no regressions listed"; exit 0; }
cd $W || exit 2
git checkout -q -- . ; git apply $S/patch.diff || { echo "$id patch does not apply"; exit 2; }
echo "== re-run of reported regressions alone (patch applied)" >> $L
ok=1
for t in $tests; do
  bin=$(echo $t | cut -d: -f3); name=$(echo $t | sed -E 's/^[^:]+::[^:]+:://')
  if [ "$bin" = "parser" ] || echo "$t" | grep -q "^oxidize-pdf::[a-z_]*::.*::tests::"; then
    # unit test inside the library
    name=$(echo $t | sed -E 's/^oxidize-pdf:://'); out=$(nice cargo nextest run --offline -p oxidize-pdf --lib --tool-config-file pb:/w/lib/nextest.toml --profile pb -E "test(=$name)" 2>&1 | grep -E "Summary|PASS|FAIL" | tail -2)
  else
    out=$(nice cargo nextest run --offline -p oxidize-pdf --test $bin --tool-config-file pb:/w/lib/nextest.toml --profile pb -E "test(=$name)" 2>&1 | grep -E "Summary|PASS|FAIL" | tail -2)
  fi
  echo "$t -> $out" >> $L
  echo "$out" | grep -q "1 passed" || ok=0
done
git checkout -q -- .
echo "$id recheck_all_pass=$ok" | tee -a $L
