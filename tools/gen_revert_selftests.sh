#!/bin/bash
# For every "fix:" commit in /repo, write selftest/<ID>/revert-<sha>.diff (the reverse patch, library sources only) for the
# property the fix repaired. Reverting a fix must make that property's check fire again.
cd /verif
while read sha prop; do
  [ -z "$sha" ] && continue; case "$sha" in "#"*) continue;; esac
  mkdir -p selftest/$prop
  git -C /repo show -R --format= $sha -- oxidize-pdf-core/src > selftest/$prop/revert-$sha.diff
  if ! git -C /repo apply --check /verif/selftest/$prop/revert-$sha.diff 2>/dev/null; then
    echo "skip $sha ($prop): reverse patch no longer applies (later fix touches the same lines)"; rm selftest/$prop/revert-$sha.diff
  fi
done <<'LIST'
# 58292720 C07  (the plain revert does not compile: later fixes call predictor_geometry; see selftest/C07/violate-tiff-predictor-arm-removed.sed)
c9874a77 C01
40520f0b C01
90fbb9ab C01
94b31ebf C05
d7bf5a92 C05
a16fdb65 C02
cb7e1998 C02
eb4c4f28 C20
f26ee89b C20
e561a983 C09
a49567e3 C09
d0cb7c94 C09
ae6a1701 C28
d3fa786f C03
77f1d58d C25
79560d3a C13
f432fc80 C21
dc074bc9 C21
ffe466c5 C21
33266974 C14
57ba6c55 C01
5146569a C16
d0e01e03 C26
e79e279a C18
1b238e46 C01
b8ff779d C21
95876918 C21
9c33a6b3 C01
28127820 C01
8e419fa6 C04
e19a1c05 C18
0612c7d2 C06
5f446067 C22
LIST
