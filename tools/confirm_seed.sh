#!/bin/bash
# usage: confirm_seed.sh <ID>  -- confirm a seeded regression in the scratch worktree /tmp/wt/base:
#   (1) demo passes on the unchanged tree, (2) with the patch: compiles, demo fails, (3) the pinned suite still passes
# writes /verif/seeded/<ID>/confirm.log and prints a one-line verdict
dir=$1; id=$(echo $dir | cut -c1-3)
S=/verif/seeded/$dir
W=${SEED_WT:-/tmp/wt/verify}
L=$S/confirm.log
demo=$(ls $S/seed_*_demo.rs | head -1)
name=$(basename $demo .rs)
cd $W || exit 2
git checkout -q -- . ; rm -f oxidize-pdf-core/tests/seed_*_demo.rs
cp $demo oxidize-pdf-core/tests/
echo "== demo on unchanged tree" > $L
nice cargo test --offline -j 8 -p oxidize-pdf --test $name >> $L 2>&1; r0=$?
git apply $S/patch.diff || { echo "$id patch-does-not-apply"; exit 2; }
echo "== demo with patch" >> $L
nice cargo test --offline -j 8 -p oxidize-pdf --test $name >> $L 2>&1; r1=$?
echo "== full suite with patch" >> $L
nice cargo nextest run --workspace --no-fail-fast --tool-config-file pb:/w/lib/nextest.toml --profile pb --test-threads 8 --offline >> $L 2>&1
python3 /verif/tools/baseline_cmp.py target/nextest/pb/junit.xml >> $L 2>&1; r2=$?
git checkout -q -- . ; rm -f oxidize-pdf-core/tests/$name.rs
echo "$id demo_unchanged_exit=$r0 demo_patched_exit=$r1 suite_regressions_exit=$r2" | tee -a $L
