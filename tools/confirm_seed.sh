#!/bin/bash
# usage: confirm_seed.sh <ID>  -- confirm a seeded regression in the scratch worktree /tmp/wt/base:
#   (1) demo passes on the unchanged tree, (2) with the patch: compiles, demo fails, (3) the pinned suite still passes
# writes /verif/seeded/<ID>/confirm.log and prints a one-line verdict
dir=$1; id=$(echo $dir | cut -c1-3)
S=/verif/seeded/$dir
W=${SEED_WT:-/tmp/wt/verify}
L=$S/confirm.log
demo=$(ls $S/seed_*_demo.rs | head -1)
name=$(basename $demo .rs)
cd $W || exit 2
git checkout -q -- . ; rm -f oxidize-pdf-core/tests/seed_*_demo.rs
cp $demo oxidize-pdf-core/tests/
echo "== demo on unchanged tree" > $L
nice cargo test --offline -j 8 -p oxidize-pdf --test $name >> $L 2>&1; r0=$?
git apply $S/patch.diff || { echo "$id patch-does-not-apply"; exit 2; }
echo "== demo with patch" >> $L
nice cargo test --offline -j 8 -p oxidize-pdf --test $name >> $L 2>&1; r1=$?
if [ "$SUITE" = none ]; then
  echo "== suite with patch: NOT RUN (time budget) — demonstration only" >> $L
  git checkout -q -- . ; rm -f oxidize-pdf-core/tests/$name.rs
  echo "$dir demo_unchanged_exit=$r0 demo_patched_exit=$r1 suite_regressions_exit=not-run suite_mode=none" | tee -a $L
  exit 0
fi
left=$(vp status 2>/dev/null | awk '/minutes_left/{print int($2)}')
if [ -e /tmp/confirm_fast ] || { [ -n "$left" ] && [ "$left" -lt ${FAST_BELOW:-150} ]; }; then
  # reduced confirmation (time budget): the library's unit tests plus every integration-test binary whose source names a
  # module stem touched by the patch; recorded as such, and compared against the baseline for the tests that ran
  stems=$(grep '^+++ b/' $S/patch.diff | sed -E 's#.*/([a-z_0-9]+)\.rs#\1#' | grep -v '^mod$' | sort -u)
  sel=""
  for st in $stems; do
    for f in $(grep -lw "$st" oxidize-pdf-core/tests/*.rs 2>/dev/null | head -40); do sel="$sel --test $(basename $f .rs)"; done
  done
  sel=$(echo $sel | tr ' ' '\n' | paste -d' ' - - | sort -u | grep -v "$name" | tr '\n' ' ')
  echo "== REDUCED suite with patch: --lib $sel" >> $L
  nice cargo nextest run -p oxidize-pdf --lib $sel --no-fail-fast --tool-config-file pb:/w/lib/nextest.toml --profile pb --test-threads 8 --offline >> $L 2>&1
  python3 /verif/tools/baseline_cmp.py --ran-only target/nextest/pb/junit.xml >> $L 2>&1; r2=$?
  mode=reduced
else
echo "== full suite with patch" >> $L
nice cargo nextest run --workspace --no-fail-fast --tool-config-file pb:/w/lib/nextest.toml --profile pb --test-threads 8 --offline >> $L 2>&1
python3 /verif/tools/baseline_cmp.py target/nextest/pb/junit.xml >> $L 2>&1; r2=$?
  mode=full
fi
git checkout -q -- . ; rm -f oxidize-pdf-core/tests/$name.rs
echo "$dir demo_unchanged_exit=$r0 demo_patched_exit=$r1 suite_regressions_exit=$r2 suite_mode=$mode" | tee -a $L
