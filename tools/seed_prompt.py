#!/usr/bin/env python3
"""print the sub-agent prompt for one property id (text of the property only; nothing from /verif's machinery)"""
import json, sys
pid = sys.argv[1]
avoid = sys.argv[2] if len(sys.argv) > 2 else None
tag = sys.argv[3] if len(sys.argv) > 3 else ''
for l in open('/verif/properties.jsonl'):
    p = json.loads(l)
    if p['id'] == pid:
        break
wt = '/tmp/wt/seed-%s%s' % (pid, tag)
out = '/tmp/seedout/%s%s' % (pid, tag)
AVOID = ('\n\nAn earlier exercise already studied a change in `%s`; pick a DIFFERENT mechanism in a different function (ideally a different file) so that the two are independent.' % avoid) if avoid else ''
print(f"""You are helping test a verification effort for the Rust PDF library bzsanti/oxidizePdf (crate `oxidize-pdf`, source under `oxidize-pdf-core/src`). Your job is to play the role of a developer who introduces a subtle regression.

You have your own scratch git worktree of the repository at `{wt}` (a checkout of the current development tree; `{wt}/target` already holds compiled dependencies). Work ONLY inside `{wt}` and write your deliverables to `{out}`. Do not read or touch `/repo`, `/verif` or `/root`. There is no network; always pass `--offline` to cargo. Use `cd {wt} && cargo ... --offline -j 6` (keep -j 6: other builds share this machine).

The property (a semantic property of the library that must hold for every input/history, not just sampled ones):

  id: {p['id']}
  title: {p['title']}
  statement: {p['statement']}
  quantifier: {p['quantifier']['text']}
  anchored in: {', '.join(p['anchors']['files'])}

{AVOID}

Task: make ONE small, realistic change to the library source (under `oxidize-pdf-core/src`, not tests) that BREAKS this property while the crate still compiles and the existing tests still pass. The change should look like something a maintainer could plausibly commit (a refactor that drops a guard, a wrong operator, a reordered step, a missed case, a changed default, two sites that each look fine alone...). It must need something specific to manifest — an unusual input, a particular multi-step sequence of operations, a particular configuration, a particular interleaving or failure — NOT something ordinary use would expose at once (otherwise the existing tests would catch it). Do not edit, delete or disable any existing test. Do not add cfg flags or dead code whose only purpose is to hide the change.

Steps:
1. Read the anchored code and the existing tests around it to learn what the tests do and do not cover.
2. Make the change. Check it compiles: `cargo check --offline -j 6 -p oxidize-pdf --lib`.
3. Write a demonstration: a new integration test file `oxidize-pdf-core/tests/seed_{pid.lower()}{tag}_demo.rs` (or a unit test in a new `#[cfg(test)]` module if it needs private items) that FAILS with your change and PASSES without it. Verify both directions yourself (use `git stash` / `git diff > patch; git checkout` to flip the change; run e.g. `cargo test --offline -j 6 -p oxidize-pdf --test seed_{pid.lower()}{tag}_demo`).
4. Check that existing tests still pass with your change. The full suite is large (324 test binaries, ~15 min); at minimum run the library unit tests of the modules you touched and the integration tests that mention the functions you touched, e.g. `cargo test --offline -j 6 -p oxidize-pdf --lib <module_path_filter>` and `cargo test --offline -j 6 -p oxidize-pdf --test <name>`; if you can afford it run `cargo nextest run --offline -j 6 -p oxidize-pdf --lib`. Note: about 31 tests (e.g. in `per_font_char_tracking_test`, tests needing `test-pdfs/SourceHanSansSC-Regular.otf` or `tests/fixtures/issue_235_t.pdf`) fail on the unchanged tree in this sandbox because two fixture files are emptied — ignore those.
   If an existing test fails because of your change, pick a different change.
5. Deliver into `{out}`:
   - `patch.diff`: output of `git -C {wt} diff -- oxidize-pdf-core/src` (the library change ONLY, not the demo test);
   - the demonstration test file (copy it) and, if it is a unit-test module inside src, a separate `demo.diff` adding it;
   - `meta.json`: {{"property": "{pid}", "summary": "<what the change does>", "needs_to_manifest": "<the specific input/sequence/config that exposes it>", "files_changed": [...], "commands_run": [...], "existing_tests_run": "<which, and result>", "demo_fails_with_change": true/false, "demo_passes_without_change": true/false}}.
6. Leave the worktree with the library change applied and the demo test present.

Report back briefly: what you changed, why existing tests miss it, how the demo exposes it, and what you ran. If you cannot find a change that meets all conditions, say so plainly rather than delivering a weak one.""")
