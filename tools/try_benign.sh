#!/bin/bash
# usage: try_benign.sh <diff> [ID ...]   apply a behaviour-preserving refactoring to a scratch copy of /repo (outside /repo and
# /verif), run the given checks (default: all 27) against the copy, print every check that does not stay silent, remove the copy.
diff=$1; shift
ids=${@:-C01 C02 C03 C04 C05 C06 C07 C08 C09 C10 C11 C13 C14 C15 C16 C17 C18 C19 C20 C21 C22 C25 C26 C27 C28 C29 C30}
S=$(mktemp -d /tmp/oxv-benign-XXXXXX)
rsync -a --exclude /target --exclude /.git /repo/ $S/repo/
( cd / && git apply --unsafe-paths --directory $S/repo "$diff" ) || { echo "PATCH-DOES-NOT-APPLY $diff"; rm -rf $S; exit 2; }
alarms=0
for p in $ids; do
  OXV_REPO=$S/repo OXV_CACHE=${OXV_CACHE:-/verif/.cache-self} OXV_OUTDIR=$S/out /verif/check $p > $S/$p.log 2>&1; rc=$?
  if [ $rc -ne 0 ] || grep -q "^VIOLATION" $S/$p.log; then
    alarms=$((alarms+1)); echo "ALARM $p rc=$rc on $(basename $(dirname $diff))/$(basename $diff)"
    grep -E "^$p [A-Z]|fact extraction failed|error" $S/$p.log | cut -c1-300 | head -5
  fi
done
rm -rf $S
echo "$(basename $(dirname $diff))/$(basename $diff): alarms=$alarms"
