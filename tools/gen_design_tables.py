#!/usr/bin/env python3
"""Regenerate the generated parts of DESIGN.md (between `<!-- GEN:x -->` and `<!-- /GEN:x -->` markers):
   findings  <- known_findings.txt     seeds <- seeded/*/meta.json     rules <- docstrings of oxv/rules/C*.py"""
import json, glob, os, re, sys, importlib, collections
sys.path.insert(0, '/verif')
D = '/verif/DESIGN.md'


def findings():
    fixed = collections.OrderedDict()
    known = []
    for l in open('/verif/known_findings.txt'):
        l = l.strip()
        if l.startswith('fixed:'):
            m = re.match(r'fixed: property=(C\d+) (\w+) (.*)', l)
            pid, sha, what = m.groups()
            e = fixed.setdefault(sha, {"props": [], "what": None})
            e["props"].append(pid)
            if not (what.startswith('same defect') or what.startswith('(follow-up')) or e["what"] is None:
                if e["what"] is None or e["what"].startswith('same defect'):
                    e["what"] = what
        elif l.startswith('known:'):
            m = re.match(r'known: property=(C\d+) key=(.*?) what=(.*)', l)
            known.append(m.groups())
    subj = {}
    import subprocess
    for sha in fixed:
        try:
            subj[sha] = subprocess.check_output(['git', '-C', '/repo', 'log', '-1', '--format=%s', sha], text=True).strip()
        except Exception:
            subj[sha] = ''
    out = ["| commit in /repo | properties | what failed on the pinned tree | commit subject |", "|---|---|---|---|"]
    for sha, e in fixed.items():
        out.append("| `%s` | %s | %s | %s |" % (sha, ", ".join(sorted(set(e["props"]))), e["what"].replace('|', '\\|'), subj[sha].replace('|', '\\|')))
    out.append("")
    out.append("%d `fix:` commits, %d (property, defect) pairs." % (len(fixed), sum(len(e["props"]) for e in fixed.values())))
    out.append("")
    out.append("Recorded, not repaired (`known:` lines; the check prints `KNOWN-FINDING` and exits 0):")
    out.append("")
    out.append("| property | key (rule:instance) | what fails | why not repaired |")
    out.append("|---|---|---|---|")
    for pid, key, what in known:
        why = "blocked by an existing test that asserts the behaviour" if "blocked" in what else "needs a table of ≈150 entries typed in from Annex D — not a minimal change"
        out.append("| %s | `%s` | %s | %s |" % (pid, key, what.replace('|', '\\|'), why))
    return "\n".join(out)


def seeds():
    out = ["| property | the seeded change (sub-agent's words, shortened) | needs, to manifest | reported as | remark |", "|---|---|---|---|---|"]
    for d in sorted(glob.glob('/verif/seeded/C*')):
        pid = os.path.basename(d)
        if not os.path.exists(d + '/meta.json'):
            continue
        m = json.load(open(d + '/meta.json'))
        ch = (m.get("change") or "").replace('\n', ' ').replace('|', '\\|')
        nd = (m.get("needs_to_manifest") or "").replace('\n', ' ').replace('|', '\\|')
        keys = m.get("caught_by_keys") or []
        ks = "; ".join("`%s`" % k for k in keys[:3]) + (" (+%d)" % (len(keys) - 3) if len(keys) > 3 else "")
        out.append("| %s | %s | %s | %s | %s |" % (pid, ch[:330] + ("…" if len(ch) > 330 else ""), nd[:220] + ("…" if len(nd) > 220 else ""),
                                                  ks or "**not caught**", (m.get("note") or "caught by the rules as first written").replace('|', '\\|')))
    metas = [json.load(open(d + '/meta.json')) for d in sorted(glob.glob('/verif/seeded/C*')) if os.path.exists(d + '/meta.json')]
    total = len(metas)
    missed_first = sum(1 for m in metas if "first missed" in (m.get("note") or ""))
    refined = sum(1 for m in metas if m.get("caught") and (m.get("note") or "") and "first missed" not in (m.get("note") or "")
                  and "as first written" not in (m.get("note") or ""))
    not_caught = sum(1 for m in metas if not m.get("caught"))
    caught_now = sum(1 for m in metas if m.get("caught"))
    head = ("%d seeded changes (%d properties, %d of them a second, independent change for the same property): %d are reported by the "
            "quick check of their property today and one is recorded as not caught (C06b, see §17). %d were reported by the rules as "
            "first written, %d needed a refinement of an existing rule, and %d were first missed — each of those showed a clause that is decidable from the shape of the code and "
            "had not been implemented; the rule was added (last column), run on the unchanged tree (silent, or a genuine finding "
            "that was then repaired — §14) and the seed re-run." %
            (total, len(set(m["property"] for m in metas)), total - len(set(m["property"] for m in metas)), caught_now,
             total - missed_first - refined - not_caught, refined, missed_first))
    return head + "\n\n" + "\n".join(out)


def rules():
    out = []
    for f in sorted(glob.glob('/verif/oxv/rules/C*.py')):
        pid = os.path.basename(f)[:-3]
        mod = importlib.import_module('oxv.rules.' + pid)
        out.append("```text\n%s\n```" % (mod.__doc__ or "").strip())
    return "\n\n".join(out)


def benign():
    out = ["| refactoring | kind | what | checks run | result |", "|---|---|---|---|---|"]
    res = {}
    first = {}
    if os.path.exists('/verif/benign/results.txt'):
        for l in open('/verif/benign/results.txt'):
            m = re.match(r'(\S+): alarms=(\d+)', l.strip())
            if m:
                res[m.group(1)] = int(m.group(2))
            m = re.match(r'# first run: (\S+) alarms=(\d+)', l.strip())
            if m:
                first[m.group(1)] = int(m.group(2))
    for d in sorted(glob.glob('/verif/benign/C*')):
        pid = os.path.basename(d)
        meta = json.load(open(d + '/meta.json')) if os.path.exists(d + '/meta.json') else []
        for e in meta:
            f = e.get("file")
            k = "%s/%s" % (pid, f)
            r = res.get(k)
            out.append("| `benign/%s` | %s | %s | all 27 | %s |" % (k, (e.get("kind") or "")[:60].replace('|', '/'), (e.get("what") or "")[:260].replace('|', '/').replace('\n', ' '),
                                                              ("silent after the rule was corrected (first run: %d check(s) alarmed — see text)" % first[k]) if k in first and r == 0 else
                                                              "silent" if r == 0 else ("pending" if r is None else "%d alarm(s) — see text" % r)))
    return "\n".join(out)


s = open(D).read()
for name, fn in (("findings", findings), ("seeds", seeds), ("rules", rules), ("benign", benign)):
    a, b = "<!-- GEN:%s -->" % name, "<!-- /GEN:%s -->" % name
    if a in s and b in s:
        s = s[:s.index(a) + len(a)] + "\n" + fn() + "\n" + s[s.index(b):]
open(D, 'w').write(s)
print("DESIGN.md regenerated")
