#!/usr/bin/env python3
"""Compare a nextest junit.xml with /root/.vp/BASELINE.json stable_pass.
usage: baseline_cmp.py <junit.xml>   -> prints tests of stable_pass that did not pass; exit 0 iff none"""
import json, sys, xml.etree.ElementTree as ET
base = set(json.load(open('/root/.vp/BASELINE.json'))['stable_pass'])
ran_only = '--ran-only' in sys.argv
root = ET.parse([a for a in sys.argv[1:] if not a.startswith('--')][0]).getroot()
passed, failed = set(), set()
for tc in root.iter('testcase'):
    tid = (tc.get('classname') or '') + '::' + (tc.get('name') or '')
    if tc.find('failure') is not None or tc.find('error') is not None or tc.find('flakyFailure') is not None or tc.find('rerunFailure') is not None:
        failed.add(tid)
    elif tc.find('skipped') is not None:
        pass
    else:
        passed.add(tid)
passed -= failed
missing = sorted((base & failed) if ran_only else (base - passed))
print(('[ran-only] ' if ran_only else '') + 'baseline stable_pass=%d passed_now=%d failed_now=%d regressions=%d' % (len(base), len(passed), len(failed), len(missing)))
for m in missing[:40]:
    print('  REGRESSION', m)
sys.exit(1 if missing else 0)
