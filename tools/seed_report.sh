#!/bin/bash
# usage: seed_report.sh <ID> [patch]  -> prints the violation keys the seeded change ADDS to the property's quick check
# (violations reported with the patch applied minus those reported on the unchanged tree), and writes them to seeded/<ID>/caught.txt
dir=$1
id=$(echo $dir | cut -c1-3)
patch=${2:-/verif/seeded/$dir/patch.diff}
out=/tmp/oxv-seed-out
cd /verif
OXV_OUTDIR=$out ./check $id > /tmp/oxv-base-$id.log 2>&1
git -C /repo apply "$patch" || { echo "patch does not apply"; exit 2; }
OXV_OUTDIR=$out ./check $id > /tmp/oxv-seed-$id.log 2>&1; rc=$?
git -C /repo checkout -- .
grep -E "^$id R|^$id [A-Z][0-9]" /tmp/oxv-base-$id.log | sed -E 's/ at .*//' | sort > /tmp/oxv-base-$id.keys
grep -E "^$id R|^$id [A-Z][0-9]" /tmp/oxv-seed-$id.log | sed -E 's/ at .*//' | sort > /tmp/oxv-seed-$id.keys
{ echo "# violations added by seeded/$dir/$(basename $patch) (quick check exit=$rc)"; comm -13 /tmp/oxv-base-$id.keys /tmp/oxv-seed-$id.keys; } | tee /verif/seeded/$dir/caught.txt
