#!/usr/bin/env python3
"""print the sub-agent prompt for behaviour-preserving refactors around one property (text of the property only)"""
import json, sys
pid = sys.argv[1]
for l in open('/verif/properties.jsonl'):
    p = json.loads(l)
    if p['id'] == pid:
        break
wt = '/tmp/wt/benign-%s' % pid
out = '/tmp/seedout/benign-%s' % pid
print(f"""You are a maintainer of the Rust PDF library bzsanti/oxidizePdf (crate `oxidize-pdf`, source under `oxidize-pdf-core/src`) doing routine, behaviour-preserving refactoring.

You have your own scratch git worktree at `{wt}` (`{wt}/target` already holds compiled dependencies). Work ONLY inside `{wt}` and write your deliverables to `{out}`. Do not read or touch `/repo`, `/verif` or `/root`. No network; always pass `--offline` to cargo and `-j 6`.

Context — this semantic property of the library must keep holding:

  id: {p['id']}
  title: {p['title']}
  statement: {p['statement']}
  anchored in: {', '.join(p['anchors']['files'])}
  mechanisms: {'; '.join(m['name'] + ' @ ' + m['where'] for m in p['anchors'].get('mechanism', []))}

Task: produce FOUR independent, realistic, behaviour-PRESERVING refactorings of the code that implements the mechanisms above (the functions named there and their close helpers). Each must be the kind of change that shows up in ordinary maintenance and must NOT change what the code does for any input — the property above must hold exactly as before. Use a different kind of refactoring for each, for example:
  1. extract a block of one of those functions into a new private helper function (or inline a small helper back into its caller);
  2. restructure control flow without changing it: `if let` <-> `match`, early `return`/`continue` instead of nested `else`, a `while` loop rewritten as `loop {{ .. break }}`, an iterator chain rewritten as a `for` loop or vice versa, `a && b` split into nested `if`s;
  3. rename local variables / private functions / private fields (update all uses), reorder independent statements or match arms that do not overlap, introduce a local binding for a repeated sub-expression;
  4. move a private helper to another place in the same file or to a sibling module (with the needed `use`), or change a private function from taking `&self` fields individually to taking `&self` (or the reverse).
Keep each refactoring moderate (roughly 10–60 changed lines), touching the mechanism code itself, not only comments or formatting.

For each refactoring i = 1..4, starting from a clean tree (`git checkout -- .` between them):
  a. make the change; `cargo check --offline -j 6 -p oxidize-pdf --lib` must pass without new warnings that would fail the build;
  b. run the unit tests of the touched module(s) (`cargo test --offline -j 6 -p oxidize-pdf --lib <module_filter>`) and the integration tests that mention the touched functions — all must pass (about 31 tests needing emptied fixture files such as `SourceHanSansSC-Regular.otf` fail on the unchanged tree in this sandbox; ignore those);
  c. save `git -C {wt} diff -- oxidize-pdf-core/src > {out}/benign-<i>.diff`;
  d. `git checkout -- .` and continue.
Finally write `{out}/meta.json`: a list of four objects {{"file": "benign-<i>.diff", "kind": "<which kind of refactoring>", "what": "<one or two sentences>", "functions_touched": [...], "tests_run": "<what you ran and the result>"}}.

Report back briefly what each refactoring does. Do not try to be clever or adversarial: these are honest refactorings whose behaviour is identical by construction.""")
