#!/bin/bash
# run every checker self-test (selftest/<ID>/*.sed, seeded/<ID>/patch.diff) and print PASS/FAIL lines
cd /verif
for d in selftest/* seeded/*; do
  id=$(basename $d | cut -c1-3)
  grep -q "\"caught\": false" $d/meta.json 2>/dev/null && continue
  for f in $d/*.sed $d/patch.diff $d/revert-*.diff; do
    [ -f "$f" ] || continue
    case $(basename $f) in benign*) e=silent;; *) e=fire;; esac
    python3 -m oxv.selftest $id $f --expect $e 2>&1 | tail -1
  done
done
