#!/usr/bin/env python3
"""(re)write seeded/<ID>/meta.json from the sub-agent's report (agent_meta.json), the confirmation log (confirm.log) and the
check's own report of what the change adds (caught.txt, written by tools/seed_report.sh)."""
import json, os, glob, sys
S = '/verif/seeded'
NOTES = {
 "C05": "first missed; rule C05 R7 (sibling agreement of the two password-padding copies) added",
 "C07": "first missed; rule C07 R5 stride-rounds-after-product added; extended to checked_mul when the seed was re-based",
 "C09": "first missed; byte-predicate evaluator taught to inline local one-byte predicate helpers",
 "C11": "first missed; sibling guard-atom cross-check added",
 "C20": "first missed; a sort with a lossy (non-injective) key no longer neutralises hash order; reports grouped by root source",
 "C04": "R5 refined (occupancy test shape)",
 "C29": "R1e queue-operation whitelist added",
 "C01": "first missed; recursion rule rewritten with cut-set semantics (every cycle must pass a function whose guard dominates its recursive calls)",
 "C13": "first missed; rule C26 R6 / C13 R3 (length gate of slice-order range comparisons) added",
 "C26": "first missed; rule C26 R7 (complete search of the mapping list) added",
 "C21": "first missed; rule on `char as u8` inside name escapers added (shared by C03 R6 / C21 R3 / C30 R1)",
 "C30": "first missed; pass-through tables extracted from match-form escapers and checked for every name escaper",
 "C27": "first missed; rule C27 R5 (every range is written to /Nums) added",
 "C17": "first missed; rule C04 R2b (scalar fields of the merged table are first-writer-wins), reported by C17 R4",
 "C10": "first missed; rule C10 R4 (plain fast path of text-string encoders only under is_ascii) added",
 "C16": "first missed; rule C16 R5 (white space between joined content streams) added",
 "C14": "first missed; rule C14 R5 (heading -> title map filled by the same forward pass that reads it) added",
 "C15": "first missed; rule C15 R3 (heading stack pruned by level comparison, not positionally) added",
 "C02": "first missed; the rule accepted the repair's emptiness test wherever it stood: it must be evaluated after the flush that fills the map (C03 R4 / C02 R3)",
 "C06": "first missed; rule C06 R3 (sibling agreement of the encrypt_metadata flag inputs in the two unlock routines) added",
 "C19": "first missed; rule C19 R5 (the entry-slot counter advances on every entry line) added",
 "C25": "reported by the fail-closed floor (table match not found) at first; made precise by rule C25 R6 (table keyed by the full code point)",
 "C28": "first missed; rule C28 R4 (the sibling stride counts every descendant: must not read `open`) added",
 "C04b": "round 2; first missed; rule C04 R6 (the object cache is filled only under the key that was asked for, or by an enumerated recovery routine) added",
 "C05b": "round 2; first missed; rule C05 R8 (variant filters in the decryption walker name all four string-bearing variants) added",
 "C08b": "round 2; caught by C08 R5 as first written (growth of the limited reader dominated by its limit test)",
 "C09b": "round 2; first missed; rule C09 G1 (Reference arms format number and generation) added",
 "C01b": "round 2; first missed; rule C01 R8 (offset index on a range-loop variable needs its own guard) added",
 "C03b": "round 2; first missed by C03 (reported by C05 R3); C03 R7 now reports the C05 R3 layering rule as a structural-validity clause",
 "C06b": "round 2; NOT caught and not claimed: the change moves the boundary of the Algorithm 2.B termination test (`<=` to `<`) — a value-level detail of a cryptographic routine, the kind of clause §6 declares out of reach (C23); a rule on the operator would also fire on equivalent rewritings (`last + 32 <= round`), so none was added",
 "C07b": "round 2; first missed; rule C07 R6 (LZW code width increments are capped at 12) added",
 "C02b": "round 2; first missed; rule C02 R5 (every typed page resource is written unless the skip is decided on its content bytes) added",
 "C10b": "round 2; first missed; rule C09/C10 S3 (octal escapes are {:03o}) added",
 "C13b": "round 2; first missed; rule C13 R4 (no value filter between the width table and the /W builder) added",
 "C14b": "round 2; first missed; rule C14 R6 (the output of split_by_sentences is fed through the accumulator: a direct push only after a flush) added",
 "C15b": "round 2; first missed; rule C15 R4 (enumerate() directly over the page list) added",
 "C16b": "round 2; first missed; rule C16 R6 (the complete key list reaches collision_font_mapping) added",
 "C17b": "round 2; first missed; rule C17 R5 (every edit of a batch is written: the latest wins) added",
 "C18b": "round 2; first reported by C18 R1 (and by C01 R3) as an unguarded reference loop — wrong reason: termination is intact, the visited test had only moved to queue time (a false alarm for C01, found by running every check on every seed). The loop rule now accepts a queue-time visited test (DESIGN §12 L41) and C18 R1b reports the real fault: marking at queue time on a reversed LIFO stack breaks first-occurrence order; R2's push-site floor also fails closed",
 "C20b": "round 2; caught by the order-taint rule as first written (hash iteration reaching allocate_object_id)",
 "C25b": "round 2; first missed; rule C25 R7 (u8 ranges that fill encoding tables end inclusively at 0xFF) added",
 "C28b": "round 2; first missed; rule C28 R5 (/Count is computed from a recursive descendant count on both branches) added",
 "C19b": "round 2; first missed; rule C19 R6 (reconstructed entries take their generation from the scanned header) added",
 "C26b": "round 2; first missed; rule C26 R8 (no narrowing cast of a char in the CMap builder; UTF-16 by encode_utf16) added",
 "C27b": "round 2; first missed; rule C27 R6 (add_range inserts on every path) added",
 "C29b": "round 2; caught by C29 R2 as first written (ObjectCache::get holds the write lock for the whole operation)",
 "C21b": "round 2; caught by the cut-set recursion rule (C21 R5 / C01 R2): the merged helper re-enters the cycle around the depth-guarded function",
 "C30b": "round 2; first missed; rule C30 R3 (registered fonts are set into the page /Font dictionary unconditionally) added",
 "C22b": "round 2; first missed; rule C22 R6 (shared atomic counters are updated by one read-modify-write, never load-then-store) added",
 "C11b": "round 2; first missed; rule C11 R7 (fonts are installed under their resource name unconditionally) added",
}
for d in sorted(glob.glob(S + '/C*')):
    pid = os.path.basename(d)
    am = json.load(open(d + '/agent_meta.json')) if os.path.exists(d + '/agent_meta.json') else {}
    cl = open(d + '/confirm.log').read() if os.path.exists(d + '/confirm.log') else ''
    verdict = [l for l in cl.splitlines() if l.startswith(pid + ' demo_') or l.startswith(pid[:3] + ' demo_')]
    summ = [l.strip() for l in cl.splitlines() if 'Summary [' in l or l.startswith('baseline ') or 'REGRESSION' in l or 'recheck_all_pass' in l or ' -> ' in l]
    caught = [l.strip() for l in open(d + '/caught.txt') if not l.startswith('#')] if os.path.exists(d + '/caught.txt') else []
    rebased = os.path.exists(d + '/patch.pinned.diff')
    vline = verdict[-1] if verdict else ''
    if not vline:
        SUITE_TEXT = ("suite with the patch applied: not completed by me before the time budget ran out (the sub-agent's own runs are "
                      "under sub_agent_report); demonstration and check report only")
    elif 'suite_mode=reduced' in vline:
        SUITE_TEXT = ("with the patch applied, REDUCED suite (time budget): `cargo nextest run -p oxidize-pdf --lib` (all library unit tests) plus "
                      "every integration-test binary whose source names a module touched by the patch (list in confirm.log), compared with "
                      "/root/.vp/BASELINE.json stable_pass for the tests that ran (tools/baseline_cmp.py --ran-only)")
    else:
        SUITE_TEXT = ("with the patch applied: `cargo nextest run --workspace --no-fail-fast --tool-config-file pb:/w/lib/nextest.toml --profile pb "
                      "--test-threads 8 --offline`, compared with /root/.vp/BASELINE.json stable_pass by tools/baseline_cmp.py")
    if 'REGRESSION' in cl:
        if 'recheck_all_pass=1' in cl:
            SUITE_TEXT += ("; the tests reported as regressions are timing/memory assertions that fail when several suites share the machine: "
                           "re-run alone with the patch applied they pass (tools/recheck_flaky.sh, appended to confirm.log)")
        else:
            SUITE_TEXT += ("; the tests reported as regressions (names under confirmation.suite) are wall-clock assertions "
                           "(`*_performance*`, `*_scalability*`, `*_under_30s`) in code the patch does not touch; they fail the same way on the "
                           "unchanged tree whenever several suites share the 16 cores (load 25-40 during these runs) and were not re-run "
                           "alone for lack of time")
    meta = {
        "property": pid[:3],
        "change": am.get("summary"),
        "needs_to_manifest": am.get("needs_to_manifest"),
        "files": am.get("files_changed"),
        "demonstration": sorted(os.path.basename(x) for x in glob.glob(d + '/seed_*_demo.rs') + glob.glob(d + '/demo.diff')),
        "what_i_ran": [
            "scratch worktree of /repo at the then-current HEAD (removed afterwards): demonstration on the unchanged tree -> pass; `git apply patch.diff`; `cargo test --offline -p oxidize-pdf --test <demo>` -> fail (tools/confirm_seed.sh)",
            SUITE_TEXT,
            "tools/seed_report.sh %s  (./check on the unchanged tree; git -C /repo apply patch.diff; ./check; git -C /repo checkout -- .; difference of the reported keys)" % pid,
        ],
        "confirmation": {"verdict": verdict[-1] if verdict else "pending", "suite": summ[-8:]},
        "caught_by_keys": caught,
        "caught": bool(caught),
        "note": NOTES.get(pid),
        "sub_agent_report": {k: am.get(k) for k in ("commands_run", "existing_tests_run", "demo_fails_with_change", "demo_passes_without_change", "notes") if k in am},
    }
    if rebased:
        meta["rebased"] = ("patch.diff is the same change re-based on the repaired tree (a later fix: commit touched the same lines); "
                           "patch.pinned.diff is the sub-agent's original. The re-based patch was re-confirmed against the demonstration "
                           "(fails with, passes without) in a scratch worktree.")
    json.dump(meta, open(d + '/meta.json', 'w'), indent=1)
    print(pid, "caught" if caught else "NOT-CAUGHT", (verdict[-1] if verdict else "confirm pending")[:90])
