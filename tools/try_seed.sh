#!/bin/sh
# usage: try_seed.sh <ID> [patch]  : apply a seeded patch to /repo, run the property's quick check, undo the patch
id=$1
patch=${2:-/verif/seeded/$id/patch.diff}
cd /repo || exit 2
git -C /repo apply "$patch" || { echo "patch does not apply"; exit 2; }
OXV_OUTDIR=/tmp/oxv-seed-out /verif/check $id > /tmp/oxv-seed-$id.log 2>&1
rc=$?
git -C /repo checkout -- .
grep -E "^$id |^VIOLATION|^KNOWN" /tmp/oxv-seed-$id.log | cut -c1-400
echo "exit=$rc"
