// minimal JSON string writer
pub fn str(out: &mut String, s: &str) {
    out.push('"');
    for c in s.chars() {
        match c {
            '"' => out.push_str("\\\""),
            '\\' => out.push_str("\\\\"),
            '\n' => out.push_str("\\n"),
            '\r' => out.push_str("\\r"),
            '\t' => out.push_str("\\t"),
            c if (c as u32) < 0x20 => {
                out.push_str(&format!("\\u{:04x}", c as u32));
            }
            c => out.push(c),
        }
    }
    out.push('"');
}

pub fn s(s: &str) -> String {
    let mut o = String::with_capacity(s.len() + 2);
    str(&mut o, s);
    o
}

// bytes as a JSON array of numbers
pub fn bytes(out: &mut String, b: &[u8]) {
    out.push('[');
    for (i, x) in b.iter().enumerate() {
        if i > 0 {
            out.push(',');
        }
        out.push_str(&x.to_string());
    }
    out.push(']');
}
