// MIR bodies -> JSON lines
use crate::json;
use crate::Out;
use rustc_hir::def::DefKind;
use rustc_middle::mir::*;
use rustc_middle::ty::{self, Instance, Ty, TyCtxt, TypingEnv};
use rustc_span::def_id::DefId;
use rustc_span::Span;

pub struct Cx<'tcx> {
    pub tcx: TyCtxt<'tcx>,
    pub env: TypingEnv<'tcx>,
    pub owner: DefId,
}

pub fn col(tcx: TyCtxt<'_>, span: Span) -> usize {
    let sp = span.source_callsite();
    tcx.sess.source_map().lookup_char_pos(sp.lo()).col.0
}

pub fn loc(tcx: TyCtxt<'_>, span: Span) -> (String, usize, usize, bool) {
    let exp = span.from_expansion();
    let sp = span.source_callsite();
    let sm = tcx.sess.source_map();
    let lo = sm.lookup_char_pos(sp.lo());
    let hi = sm.lookup_char_pos(sp.hi());
    let f = match &lo.file.name {
        rustc_span::FileName::Real(r) => match r.local_path() {
            Some(p) => p.to_string_lossy().to_string(),
            None => format!("{:?}", lo.file.name),
        },
        other => format!("{:?}", other),
    };
    (f, lo.line, hi.line, exp)
}

pub fn ty_s<'tcx>(t: Ty<'tcx>) -> String {
    let s = format!("{}", t);
    if s.len() > 400 {
        let mut e = 400;
        while !s.is_char_boundary(e) {
            e -= 1;
        }
        format!("{}…", &s[..e])
    } else {
        s
    }
}

fn place<'tcx>(cx: &Cx<'tcx>, body: &Body<'tcx>, p: Place<'tcx>, o: &mut String) {
    o.push('[');
    o.push_str(&p.local.as_usize().to_string());
    o.push_str(",[");
    let mut first = true;
    for (base, elem) in p.iter_projections() {
        if !first {
            o.push(',');
        }
        first = false;
        match elem {
            ProjectionElem::Deref => o.push_str("\"*\""),
            ProjectionElem::Field(f, _) => {
                let bt = base.ty(body, cx.tcx);
                let mut name = String::new();
                if let ty::Adt(def, _) = bt.ty.kind() {
                    let v = match bt.variant_index {
                        Some(v) => Some(def.variant(v)),
                        None => {
                            if def.is_struct() || def.is_union() {
                                Some(def.non_enum_variant())
                            } else {
                                None
                            }
                        }
                    };
                    if let Some(v) = v {
                        if let Some(fd) = v.fields.get(f) {
                            name = fd.name.to_string();
                        }
                    }
                }
                o.push_str("[\"f\",");
                o.push_str(&f.as_usize().to_string());
                o.push(',');
                json::str(o, &name);
                o.push(']');
            }
            ProjectionElem::Index(l) => {
                o.push_str("[\"i\",");
                o.push_str(&l.as_usize().to_string());
                o.push(']');
            }
            ProjectionElem::ConstantIndex { offset, from_end, .. } => {
                o.push_str(&format!("[\"ci\",{},{}]", offset, from_end));
            }
            ProjectionElem::Subslice { from, to, from_end } => {
                o.push_str(&format!("[\"sub\",{},{},{}]", from, to, from_end));
            }
            ProjectionElem::Downcast(name, idx) => {
                let n = match name {
                    Some(s) => s.to_string(),
                    None => format!("#{}", idx.as_usize()),
                };
                o.push_str("[\"d\",");
                json::str(o, &n);
                o.push(']');
            }
            _ => o.push_str("[\"o\"]"),
        }
    }
    o.push_str("]]");
}

pub fn const_val<'tcx>(cx: &Cx<'tcx>, c: Const<'tcx>, o: &mut String) {
    let tcx = cx.tcx;
    let t = c.ty();
    // function items
    if let ty::FnDef(did, args) = *t.kind() {
        o.push_str("{\"fn\":");
        json::str(o, &tcx.def_path_str(did));
        o.push_str(",\"a\":");
        json::str(o, &tcx.def_path_str_with_args(did, args));
        o.push('}');
        return;
    }
    match t.kind() {
        ty::Bool | ty::Char | ty::Int(_) | ty::Uint(_) | ty::Float(_) => {
            if let Some(si) = c.try_eval_scalar_int(tcx, cx.env) {
                let sz = si.size();
                match t.kind() {
                    ty::Bool => {
                        let v = si.to_bits(sz);
                        o.push_str(if v != 0 { "true" } else { "false" });
                    }
                    ty::Char | ty::Uint(_) => o.push_str(&si.to_bits(sz).to_string()),
                    ty::Int(_) => o.push_str(&si.to_int(sz).to_string()),
                    ty::Float(ft) => {
                        let bits = si.to_bits(sz);
                        let v: f64 = match ft.bit_width() {
                            32 => f32::from_bits(bits as u32) as f64,
                            64 => f64::from_bits(bits as u64),
                            _ => f64::NAN,
                        };
                        if v.is_finite() {
                            o.push_str(&format!("{{\"f\":{:?}}}", v));
                        } else {
                            o.push_str(&format!("{{\"f\":\"{:?}\"}}", v));
                        }
                    }
                    _ => unreachable!(),
                }
                return;
            }
        }
        _ => {}
    }
    // strings and byte strings
    let inner = match t.kind() {
        ty::Ref(_, inner, _) => Some(*inner),
        _ => None,
    };
    if let Some(inner) = inner {
        let is_str = inner.is_str();
        let is_u8_slice = matches!(inner.kind(), ty::Slice(e) if *e == tcx.types.u8);
        let arr_len = match inner.kind() {
            ty::Array(e, n) if *e == tcx.types.u8 => n.try_to_target_usize(tcx),
            _ => None,
        };
        if is_str || is_u8_slice || arr_len.is_some() {
            if let Ok(v) = c.eval(tcx, cx.env, rustc_span::DUMMY_SP) {
                let bytes: Option<Vec<u8>> = match v {
                    ConstValue::Slice { .. } | ConstValue::Indirect { .. } if arr_len.is_none() => {
                        v.try_get_slice_bytes_for_diagnostics(tcx).map(|b| b.to_vec())
                    }
                    ConstValue::Scalar(rustc_middle::mir::interpret::Scalar::Ptr(ptr, _)) if arr_len.is_some() => {
                        let (prov, off) = ptr.into_raw_parts();
                        let aid = prov.alloc_id();
                        match tcx.try_get_global_alloc(aid) {
                            Some(rustc_middle::mir::interpret::GlobalAlloc::Memory(a)) => {
                                let a = a.inner();
                                let start = off.bytes() as usize;
                                let n = arr_len.unwrap() as usize;
                                if start + n <= a.len() {
                                    Some(a.inspect_with_uninit_and_ptr_outside_interpreter(start..start + n).to_vec())
                                } else {
                                    None
                                }
                            }
                            _ => None,
                        }
                    }
                    _ => None,
                };
                if let Some(b) = bytes {
                    if is_str {
                        o.push_str("{\"s\":");
                        json::str(o, &String::from_utf8_lossy(&b));
                        o.push('}');
                    } else {
                        o.push_str("{\"b\":");
                        json::bytes(o, &b);
                        o.push('}');
                    }
                    return;
                }
            }
        }
    }
    // anything else: unit-like / ZST / opaque
    let mut d = format!("{}", c);
    if d.len() > 160 {
        let mut e = 160;
        while !d.is_char_boundary(e) {
            e -= 1;
        }
        d.truncate(e);
    }
    o.push_str("{\"o\":");
    json::str(o, &d);
    o.push('}');
}

fn operand<'tcx>(cx: &Cx<'tcx>, body: &Body<'tcx>, op: &Operand<'tcx>, o: &mut String) {
    match op {
        Operand::Copy(p) => {
            o.push_str("[\"c\",");
            place(cx, body, *p, o);
            o.push(']');
        }
        Operand::Move(p) => {
            o.push_str("[\"m\",");
            place(cx, body, *p, o);
            o.push(']');
        }
        Operand::Constant(c) => {
            o.push_str("[\"k\",");
            json::str(o, &ty_s(c.const_.ty()));
            o.push(',');
            const_val(cx, c.const_, o);
            o.push(']');
        }
        _ => o.push_str("[\"k\",\"bool\",{\"o\":\"runtime-checks\"}]"),
    }
}

fn rvalue<'tcx>(cx: &Cx<'tcx>, body: &Body<'tcx>, rv: &Rvalue<'tcx>, o: &mut String) {
    let tcx = cx.tcx;
    match rv {
        Rvalue::Use(op, ..) => {
            o.push_str("[\"use\",");
            operand(cx, body, op, o);
            o.push(']');
        }
        Rvalue::Repeat(op, n) => {
            o.push_str("[\"rep\",");
            operand(cx, body, op, o);
            o.push(',');
            match n.try_to_target_usize(tcx) {
                Some(v) => o.push_str(&v.to_string()),
                None => o.push_str("null"),
            }
            o.push(']');
        }
        Rvalue::Ref(_, bk, p) => {
            let k = match bk {
                BorrowKind::Shared => "shr",
                BorrowKind::Mut { .. } => "mut",
                BorrowKind::Fake(_) => "fake",
            };
            o.push_str("[\"ref\",\"");
            o.push_str(k);
            o.push_str("\",");
            place(cx, body, *p, o);
            o.push(']');
        }
        Rvalue::RawPtr(_, p) => {
            o.push_str("[\"raw\",");
            place(cx, body, *p, o);
            o.push(']');
        }
        Rvalue::Cast(kind, op, t) => {
            let ks = format!("{:?}", kind);
            let ks = ks.split(|c| c == ',' || c == ' ').next().unwrap_or("").to_string();
            o.push_str("[\"cast\",");
            json::str(o, &ks);
            o.push(',');
            operand(cx, body, op, o);
            o.push(',');
            json::str(o, &ty_s(*t));
            o.push(',');
            json::str(o, &ty_s(op.ty(body, tcx)));
            o.push(']');
        }
        Rvalue::BinaryOp(bop, ab) => {
            o.push_str("[\"bin\",");
            json::str(o, &format!("{:?}", bop));
            o.push(',');
            operand(cx, body, &ab.0, o);
            o.push(',');
            operand(cx, body, &ab.1, o);
            o.push(']');
        }
        Rvalue::UnaryOp(uop, a) => {
            o.push_str("[\"un\",");
            json::str(o, &format!("{:?}", uop));
            o.push(',');
            operand(cx, body, a, o);
            o.push(']');
        }
        Rvalue::Discriminant(p) => {
            o.push_str("[\"discr\",");
            place(cx, body, *p, o);
            o.push(']');
        }
        Rvalue::Aggregate(kind, ops) => {
            o.push_str("[\"agg\",");
            match &**kind {
                AggregateKind::Array(_) => o.push_str("[\"arr\"]"),
                AggregateKind::Tuple => o.push_str("[\"tup\"]"),
                AggregateKind::Adt(did, vidx, _, _, _) => {
                    let def = tcx.adt_def(*did);
                    let vname = def.variant(*vidx).name.to_string();
                    o.push_str("[\"adt\",");
                    json::str(o, &tcx.def_path_str(*did));
                    o.push(',');
                    json::str(o, &vname);
                    o.push(']');
                }
                AggregateKind::Closure(did, _)
                | AggregateKind::Coroutine(did, _)
                | AggregateKind::CoroutineClosure(did, _) => {
                    o.push_str("[\"clo\",");
                    json::str(o, &tcx.def_path_str(*did));
                    o.push(']');
                }
                AggregateKind::RawPtr(..) => o.push_str("[\"rawptr\"]"),
            }
            o.push_str(",[");
            for (i, op) in ops.iter().enumerate() {
                if i > 0 {
                    o.push(',');
                }
                operand(cx, body, op, o);
            }
            o.push_str("]]");
        }
        Rvalue::CopyForDeref(p) => {
            o.push_str("[\"use\",[\"c\",");
            place(cx, body, *p, o);
            o.push_str("]]");
        }
        Rvalue::ThreadLocalRef(did) => {
            o.push_str("[\"tls\",");
            json::str(o, &tcx.def_path_str(*did));
            o.push(']');
        }
        _ => o.push_str("[\"other\"]"),
    }
}

fn bb_opt(b: Option<BasicBlock>) -> String {
    match b {
        Some(b) => b.as_usize().to_string(),
        None => "null".to_string(),
    }
}
fn unwind(u: &UnwindAction) -> String {
    match u {
        UnwindAction::Cleanup(b) => b.as_usize().to_string(),
        _ => "null".to_string(),
    }
}

fn callee<'tcx>(cx: &Cx<'tcx>, body: &Body<'tcx>, func: &Operand<'tcx>, o: &mut String) {
    let tcx = cx.tcx;
    if let Some((did, args)) = func.const_fn_def() {
        o.push_str("{\"p\":");
        json::str(o, &tcx.def_path_str(did));
        o.push_str(",\"a\":");
        json::str(o, &tcx.def_path_str_with_args(did, args));
        let mut resolved: Option<String> = None;
        let mut virt = false;
        let mut rlocal = false;
        if matches!(tcx.def_kind(did), DefKind::Fn | DefKind::AssocFn) {
            if let Ok(Some(inst)) = Instance::try_resolve(tcx, cx.env, did, args) {
                match inst.def {
                    ty::InstanceKind::Virtual(..) => {
                        virt = true;
                    }
                    _ => {
                        let rd = inst.def_id();
                        rlocal = rd.is_local();
                        // closures called through Fn* traits resolve to the closure body
                        resolved = Some(tcx.def_path_str(rd));
                    }
                }
            }
        }
        // self type of trait method calls (first generic arg) for who-may-call rules
        if let Some(tr) = tcx.trait_of_assoc(did) {
            o.push_str(",\"tr\":");
            json::str(o, &tcx.def_path_str(tr));
            if args.len() > 0 {
                if let Some(t0) = args[0].as_type() {
                    o.push_str(",\"self\":");
                    json::str(o, &ty_s(t0));
                }
            }
        }
        match resolved {
            Some(r) => {
                o.push_str(",\"r\":");
                json::str(o, &r);
            }
            None => o.push_str(",\"r\":null"),
        }
        if virt {
            o.push_str(",\"v\":1");
        }
        if did.is_local() || rlocal {
            o.push_str(",\"l\":1");
        }
        o.push('}');
    } else {
        o.push_str("{\"ind\":");
        operand(cx, body, func, o);
        o.push_str(",\"t\":");
        json::str(o, &ty_s(func.ty(body, tcx)));
        o.push('}');
    }
}

fn terminator<'tcx>(cx: &Cx<'tcx>, body: &Body<'tcx>, t: &Terminator<'tcx>, o: &mut String) {
    match &t.kind {
        TerminatorKind::Goto { target } => o.push_str(&format!("[\"goto\",{}]", target.as_usize())),
        TerminatorKind::SwitchInt { discr, targets } => {
            o.push_str("[\"sw\",");
            operand(cx, body, discr, o);
            o.push_str(",[");
            let dty = discr.ty(body, cx.tcx);
            let signed = matches!(dty.kind(), ty::Int(_));
            let bits = match dty.kind() {
                ty::Int(i) => i.bit_width().unwrap_or(64),
                _ => 0,
            };
            for (i, (v, b)) in targets.iter().enumerate() {
                if i > 0 {
                    o.push(',');
                }
                let vs = if signed && bits > 0 && bits < 128 {
                    let shift = 128 - bits as u32;
                    (((v << shift) as i128) >> shift).to_string()
                } else {
                    v.to_string()
                };
                o.push_str(&format!("[{},{}]", vs, b.as_usize()));
            }
            o.push_str(&format!("],{},", targets.otherwise().as_usize()));
            json::str(o, &ty_s(dty));
            o.push(']');
        }
        TerminatorKind::Return => o.push_str("[\"ret\"]"),
        TerminatorKind::Unreachable => o.push_str("[\"unr\"]"),
        TerminatorKind::UnwindResume => o.push_str("[\"res\"]"),
        TerminatorKind::UnwindTerminate(_) => o.push_str("[\"abort\"]"),
        TerminatorKind::Drop { place: p, target, unwind: u, .. } => {
            o.push_str("[\"drop\",");
            place(cx, body, *p, o);
            o.push_str(&format!(",{},{}]", target.as_usize(), unwind(u)));
        }
        TerminatorKind::Call { func, args, destination, target, unwind: u, .. } => {
            o.push_str("[\"call\",");
            callee(cx, body, func, o);
            o.push_str(",[");
            for (i, a) in args.iter().enumerate() {
                if i > 0 {
                    o.push(',');
                }
                operand(cx, body, &a.node, o);
            }
            o.push_str("],");
            place(cx, body, *destination, o);
            o.push_str(&format!(",{},{}]", bb_opt(*target), unwind(u)));
        }
        TerminatorKind::TailCall { func, args, .. } => {
            o.push_str("[\"call\",");
            callee(cx, body, func, o);
            o.push_str(",[");
            for (i, a) in args.iter().enumerate() {
                if i > 0 {
                    o.push(',');
                }
                operand(cx, body, &a.node, o);
            }
            o.push_str("],[0,[]],null,null]");
        }
        TerminatorKind::Assert { cond, expected, msg, target, unwind: u } => {
            o.push_str("[\"assert\",");
            operand(cx, body, cond, o);
            o.push_str(if *expected { ",true," } else { ",false," });
            let (kind, ops): (String, Vec<&Operand<'tcx>>) = match &**msg {
                AssertKind::BoundsCheck { len, index } => ("BoundsCheck".into(), vec![len, index]),
                AssertKind::Overflow(op, a, b) => (format!("Overflow:{:?}", op), vec![a, b]),
                AssertKind::OverflowNeg(a) => ("OverflowNeg".into(), vec![a]),
                AssertKind::DivisionByZero(a) => ("DivisionByZero".into(), vec![a]),
                AssertKind::RemainderByZero(a) => ("RemainderByZero".into(), vec![a]),
                AssertKind::MisalignedPointerDereference { .. } => ("Misaligned".into(), vec![]),
                AssertKind::NullPointerDereference => ("NullPtr".into(), vec![]),
                AssertKind::InvalidEnumConstruction(_) => ("InvalidEnum".into(), vec![]),
                _ => ("Other".into(), vec![]),
            };
            json::str(o, &kind);
            o.push_str(",[");
            for (i, a) in ops.iter().enumerate() {
                if i > 0 {
                    o.push(',');
                }
                operand(cx, body, a, o);
            }
            o.push_str(&format!("],{},{}]", target.as_usize(), unwind(u)));
        }
        TerminatorKind::FalseEdge { real_target, .. } => {
            o.push_str(&format!("[\"goto\",{}]", real_target.as_usize()))
        }
        TerminatorKind::FalseUnwind { real_target, .. } => {
            o.push_str(&format!("[\"goto\",{}]", real_target.as_usize()))
        }
        other => {
            o.push_str("[\"other\",[");
            for (i, s) in other.successors().enumerate() {
                if i > 0 {
                    o.push(',');
                }
                o.push_str(&s.as_usize().to_string());
            }
            o.push_str("]]");
        }
    }
}

fn vis_s(tcx: TyCtxt<'_>, did: DefId) -> String {
    match tcx.visibility(did) {
        ty::Visibility::Public => "pub".to_string(),
        ty::Visibility::Restricted(m) => {
            if m.is_crate_root() {
                "crate".to_string()
            } else {
                format!("in:{}", tcx.def_path_str(m))
            }
        }
    }
}

struct PromConsts<'a, 'tcx> {
    cx: &'a Cx<'tcx>,
    out: Vec<String>,
}

impl<'a, 'tcx> rustc_middle::mir::visit::Visitor<'tcx> for PromConsts<'a, 'tcx> {
    fn visit_const_operand(&mut self, c: &ConstOperand<'tcx>, _l: Location) {
        let mut s = String::new();
        s.push('[');
        json::str(&mut s, &ty_s(c.const_.ty()));
        s.push(',');
        const_val(self.cx, c.const_, &mut s);
        s.push(']');
        self.out.push(s);
    }
}

pub fn dump<'tcx>(tcx: TyCtxt<'tcx>, out: &mut Out) {
    rustc_middle::ty::print::with_no_trimmed_paths!({
        let mut keys: Vec<_> = tcx.mir_keys(()).iter().copied().collect();
        keys.sort_by_key(|k| tcx.def_path_str(k.to_def_id()));
        for ldid in keys {
            let did = ldid.to_def_id();
            let kind = tcx.def_kind(did);
            if !matches!(kind, DefKind::Fn | DefKind::AssocFn | DefKind::Closure) {
                continue;
            }
            // constructors of tuple structs are "Ctor", skipped above
            let body = tcx.optimized_mir(did);
            let cx = Cx { tcx, env: TypingEnv::post_analysis(tcx, did), owner: did };
            let mut o = String::with_capacity(4096);
            o.push_str("{\"k\":\"fn\",\"id\":");
            json::str(&mut o, &tcx.def_path_str(did));
            let (file, lo, hi, _) = loc(tcx, body.span);
            o.push_str(",\"file\":");
            json::str(&mut o, &file);
            o.push_str(&format!(",\"lo\":{},\"hi\":{}", lo, hi));
            o.push_str(",\"kind\":");
            json::str(&mut o, &format!("{:?}", kind));
            if matches!(kind, DefKind::Fn | DefKind::AssocFn) {
                o.push_str(",\"vis\":");
                json::str(&mut o, &vis_s(tcx, did));
                o.push_str(",\"name\":");
                json::str(&mut o, tcx.item_name(did).as_str());
                let sig = tcx.fn_sig(did).instantiate_identity().skip_norm_wip().skip_binder();
                o.push_str(",\"ret\":");
                json::str(&mut o, &ty_s(sig.output()));
                o.push_str(",\"params\":[");
                for (i, t) in sig.inputs().iter().enumerate() {
                    if i > 0 {
                        o.push(',');
                    }
                    json::str(&mut o, &ty_s(*t));
                }
                o.push(']');
            }
            // enclosing item (closures: the defining fn; assoc fns: impl self type / trait)
            let parent = tcx.parent(did);
            if kind == DefKind::Closure {
                let root = tcx.typeck_root_def_id(did);
                o.push_str(",\"parent\":");
                json::str(&mut o, &tcx.def_path_str(root));
            } else if kind == DefKind::AssocFn {
                match tcx.def_kind(parent) {
                    DefKind::Impl { of_trait } => {
                        let st = tcx.type_of(parent).instantiate_identity().skip_norm_wip();
                        o.push_str(",\"self_ty\":");
                        json::str(&mut o, &ty_s(st));
                        if of_trait {
                            let tr = tcx.impl_trait_ref(parent).instantiate_identity().skip_norm_wip();
                            o.push_str(",\"trait\":");
                            json::str(&mut o, &tcx.def_path_str(tr.def_id));
                        }
                    }
                    DefKind::Trait => {
                        o.push_str(",\"trait_default\":");
                        json::str(&mut o, &tcx.def_path_str(parent));
                    }
                    _ => {}
                }
            }
            o.push_str(&format!(",\"nargs\":{}", body.arg_count));
            // constants of the promoted bodies (`&"lit"`, `&[..]` temporaries): prom[i] = constants of promoted[i]
            o.push_str(",\"prom\":[");
            for (pi, pb) in tcx.promoted_mir(did).iter().enumerate() {
                if pi > 0 {
                    o.push(',');
                }
                let mut kv = PromConsts { cx: &cx, out: Vec::new() };
                rustc_middle::mir::visit::Visitor::visit_body(&mut kv, pb);
                o.push('[');
                o.push_str(&kv.out.join(","));
                o.push(']');
            }
            o.push(']');
            // locals
            o.push_str(",\"locals\":[");
            for (i, d) in body.local_decls.iter().enumerate() {
                if i > 0 {
                    o.push(',');
                }
                json::str(&mut o, &ty_s(d.ty));
            }
            o.push_str("],\"dbg\":[");
            let mut first = true;
            for v in body.var_debug_info.iter() {
                if let VarDebugInfoContents::Place(p) = v.value {
                    if !first {
                        o.push(',');
                    }
                    first = false;
                    o.push('[');
                    json::str(&mut o, v.name.as_str());
                    o.push(',');
                    place(&cx, body, p, &mut o);
                    o.push(']');
                }
            }
            o.push_str("],\"blocks\":[");
            for (bi, bb) in body.basic_blocks.iter().enumerate() {
                if bi > 0 {
                    o.push(',');
                }
                o.push_str("[[");
                let mut firsts = true;
                for st in bb.statements.iter() {
                    let mut so = String::new();
                    match &st.kind {
                        StatementKind::Assign(b) => {
                            let (p, rv) = &**b;
                            let (_, line, _, exp) = loc(tcx, st.source_info.span);
                            so.push_str(&format!("[{},", line));
                            place(&cx, body, *p, &mut so);
                            so.push(',');
                            rvalue(&cx, body, rv, &mut so);
                            if exp {
                                so.push_str(",1");
                            }
                            so.push(']');
                        }
                        StatementKind::SetDiscriminant { place: p, variant_index } => {
                            let (_, line, _, _) = loc(tcx, st.source_info.span);
                            so.push_str(&format!("[{},", line));
                            place(&cx, body, **p, &mut so);
                            so.push_str(&format!(",[\"setdiscr\",{}]]", variant_index.as_usize()));
                        }
                        _ => {}
                    }
                    if !so.is_empty() {
                        if !firsts {
                            o.push(',');
                        }
                        firsts = false;
                        o.push_str(&so);
                    }
                }
                o.push_str("],");
                let term = bb.terminator();
                terminator(&cx, body, term, &mut o);
                let (_, tline, _, texp) = loc(tcx, term.source_info.span);
                o.push_str(&format!(
                    ",{},{},{},{}]",
                    tline,
                    if bb.is_cleanup { 1 } else { 0 },
                    if texp { 1 } else { 0 },
                    col(tcx, term.source_info.span)
                ));
            }
            o.push_str("]}");
            out.line(&o);
        }
    });
}
