// oxv-driver: rustc_private fact extractor for the oxidizePdf static checks.
//
// Injected with RUSTC_WORKSPACE_WRAPPER under `cargo +nightly check`.  For the crate named
// in OXV_CRATE (default `oxidize_pdf`) it dumps, as JSON lines into the file named by
// OXV_OUT, the type-checked program:
//   {"k":"meta"...}            crate name, feature cfgs
//   {"k":"fmt"...}             format_args! sites from the expanded AST (literal pieces + arg spans)
//   {"k":"fn"...}              one line per MIR body (Fn / AssocFn / Closure): locals, blocks,
//                              statements, terminators with resolved callees
//   {"k":"match"...}           HIR match expressions with structured patterns and arm summaries
//   {"k":"const"...}           evaluated integer / string const items
//   {"k":"adt"...}             struct / enum definitions with field names and types
//   {"k":"impl"...}            trait impls (trait, self type, methods)
// Every other crate is compiled by the stock compiler callbacks.
#![feature(rustc_private)]
#![allow(clippy::all)]

extern crate rustc_abi;
extern crate rustc_ast;
extern crate rustc_driver;
extern crate rustc_hir;
extern crate rustc_interface;
extern crate rustc_middle;
extern crate rustc_session;
extern crate rustc_span;

mod json;
mod mirdump;
mod hirdump;
mod astdump;

use rustc_driver::{Callbacks, Compilation};
use rustc_interface::interface::Compiler;
use rustc_middle::ty::TyCtxt;
use std::io::Write;

pub struct Out {
    pub buf: Vec<u8>,
}
impl Out {
    pub fn line(&mut self, s: &str) {
        self.buf.extend_from_slice(s.as_bytes());
        self.buf.push(b'\n');
    }
}

struct Cb {
    out: Out,
    active: bool,
}

impl Callbacks for Cb {
    fn after_expansion<'tcx>(&mut self, _c: &Compiler, tcx: TyCtxt<'tcx>) -> Compilation {
        let want = std::env::var("OXV_CRATE").unwrap_or_else(|_| "oxidize_pdf".to_string());
        let name = tcx.crate_name(rustc_span::def_id::LOCAL_CRATE).to_string();
        // only the library target of the crate, never build scripts / tests
        let is_lib = tcx
            .crate_types()
            .iter()
            .any(|t| matches!(t, rustc_session::config::CrateType::Rlib | rustc_session::config::CrateType::Dylib | rustc_session::config::CrateType::Cdylib));
        self.active = name == want && is_lib;
        if self.active {
            astdump::dump(tcx, &mut self.out);
        }
        Compilation::Continue
    }

    fn after_analysis<'tcx>(&mut self, _c: &Compiler, tcx: TyCtxt<'tcx>) -> Compilation {
        if !self.active {
            return Compilation::Continue;
        }
        let name = tcx.crate_name(rustc_span::def_id::LOCAL_CRATE).to_string();
        let mut feats: Vec<String> = Vec::new();
        for (k, v) in tcx.sess.config.iter() {
            if k.as_str() == "feature" {
                if let Some(v) = v {
                    feats.push(v.to_string());
                }
            }
        }
        feats.sort();
        let mut m = String::from("{\"k\":\"meta\",\"crate\":");
        json::str(&mut m, &name);
        m.push_str(",\"features\":[");
        for (i, f) in feats.iter().enumerate() {
            if i > 0 {
                m.push(',');
            }
            json::str(&mut m, f);
        }
        m.push_str("]}");
        self.out.line(&m);
        hirdump::dump(tcx, &mut self.out);
        mirdump::dump(tcx, &mut self.out);
        let path = std::env::var("OXV_OUT").expect("OXV_OUT not set");
        let tmp = format!("{}.tmp.{}", path, std::process::id());
        {
            let mut f = std::fs::File::create(&tmp).expect("create fact file");
            f.write_all(&self.out.buf).expect("write fact file");
        }
        std::fs::rename(&tmp, &path).expect("rename fact file");
        Compilation::Continue
    }
}

fn main() {
    let mut args: Vec<String> = std::env::args().collect();
    // RUSTC_WORKSPACE_WRAPPER: argv[1] is the path of the real rustc
    if args.len() > 1 && (args[1].ends_with("rustc") || args[1].contains("/rustc")) {
        args.remove(1);
    }
    let mut cb = Cb { out: Out { buf: Vec::with_capacity(64 << 20) }, active: false };
    rustc_driver::run_compiler(&args, &mut cb);
}
