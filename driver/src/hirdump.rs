// HIR-level facts: ADTs, trait impls, const items, match tables, (scoped) expression trees
use crate::json;
use crate::mirdump::{loc, ty_s};
use crate::Out;
use rustc_hir as hir;
use rustc_hir::def::{DefKind, Res};
use rustc_hir::intravisit::{self, Visitor};
use rustc_middle::ty::{self, TyCtxt, TypeckResults};
use rustc_span::def_id::{DefId, LocalDefId};

struct Ex<'a, 'tcx> {
    tcx: TyCtxt<'tcx>,
    tr: &'a TypeckResults<'tcx>,
}

fn snippet(tcx: TyCtxt<'_>, sp: rustc_span::Span, max: usize) -> String {
    let mut s = tcx.sess.source_map().span_to_snippet(sp).unwrap_or_default();
    if s.len() > max {
        let mut e = max;
        while !s.is_char_boundary(e) {
            e -= 1;
        }
        s.truncate(e);
        s.push('…');
    }
    s
}

fn lit_json(l: &hir::Lit, negated: bool, o: &mut String) {
    use rustc_ast::LitKind::*;
    match &l.node {
        Str(s, _) => {
            o.push_str("{\"s\":");
            json::str(o, s.as_str());
            o.push('}');
        }
        ByteStr(b, _) | CStr(b, _) => {
            o.push_str("{\"b\":");
            json::bytes(o, b.as_byte_str());
            o.push('}');
        }
        Byte(b) => o.push_str(&b.to_string()),
        Char(c) => o.push_str(&(*c as u32).to_string()),
        Int(v, _) => {
            if negated {
                o.push('-');
            }
            o.push_str(&v.get().to_string())
        }
        Float(s, _) => {
            o.push_str("{\"f\":");
            let t = format!("{}{}", if negated { "-" } else { "" }, s.as_str());
            json::str(o, &t);
            o.push('}');
        }
        Bool(b) => o.push_str(if *b { "true" } else { "false" }),
        Err(_) => o.push_str("null"),
    }
}

impl<'a, 'tcx> Ex<'a, 'tcx> {
    fn res_json(&self, res: Res, o: &mut String) {
        match res {
            Res::Def(kind, did) => {
                o.push_str("{\"def\":");
                json::str(o, &self.tcx.def_path_str(did));
                o.push_str(",\"dk\":");
                json::str(o, &format!("{:?}", kind).split(|c| c == '(' || c == ' ' || c == '{').next().unwrap_or("").to_string());
                if matches!(kind, DefKind::Const { .. } | DefKind::AssocConst { .. }) {
                    if let Some(v) = const_item_value(self.tcx, did) {
                        o.push_str(",\"val\":");
                        o.push_str(&v);
                    }
                }
                o.push('}');
            }
            Res::Local(hid) => {
                o.push_str("{\"local\":");
                json::str(o, self.tcx.hir_name(hid).as_str());
                o.push('}');
            }
            Res::SelfCtor(_) | Res::SelfTyAlias { .. } | Res::SelfTyParam { .. } => o.push_str("{\"self\":1}"),
            Res::PrimTy(p) => {
                o.push_str("{\"prim\":");
                json::str(o, p.name_str());
                o.push('}');
            }
            _ => o.push_str("{\"res\":\"other\"}"),
        }
    }

    fn patexpr(&self, pe: &hir::PatExpr<'_>, o: &mut String) {
        match &pe.kind {
            hir::PatExprKind::Lit { lit, negated } => {
                o.push_str("[\"lit\",");
                lit_json(lit, *negated, o);
                o.push(']');
            }
            hir::PatExprKind::Path(qp) => {
                let res = self.tr.qpath_res(qp, pe.hir_id);
                o.push_str("[\"path\",");
                self.res_json(res, o);
                o.push(']');
            }
        }
    }

    fn pat(&self, p: &hir::Pat<'_>, o: &mut String) {
        use hir::PatKind::*;
        match &p.kind {
            Wild | Missing => o.push_str("[\"_\"]"),
            Binding(_, _, id, sub) => {
                o.push_str("[\"bind\",");
                json::str(o, id.name.as_str());
                o.push(',');
                match sub {
                    Some(s) => self.pat(s, o),
                    None => o.push_str("null"),
                }
                o.push(']');
            }
            Struct(qp, fields, rest) => {
                let res = self.tr.qpath_res(qp, p.hir_id);
                o.push_str("[\"st\",");
                self.res_json(res, o);
                o.push_str(",[");
                for (i, f) in fields.iter().enumerate() {
                    if i > 0 {
                        o.push(',');
                    }
                    o.push('[');
                    json::str(o, f.ident.name.as_str());
                    o.push(',');
                    self.pat(f.pat, o);
                    o.push(']');
                }
                o.push_str(if rest.is_some() { "],true]" } else { "],false]" });
            }
            TupleStruct(qp, pats, _) => {
                let res = self.tr.qpath_res(qp, p.hir_id);
                o.push_str("[\"ts\",");
                self.res_json(res, o);
                o.push_str(",[");
                for (i, s) in pats.iter().enumerate() {
                    if i > 0 {
                        o.push(',');
                    }
                    self.pat(s, o);
                }
                o.push_str("]]");
            }
            Or(pats) => {
                o.push_str("[\"or\",[");
                for (i, s) in pats.iter().enumerate() {
                    if i > 0 {
                        o.push(',');
                    }
                    self.pat(s, o);
                }
                o.push_str("]]");
            }
            Tuple(pats, _) => {
                o.push_str("[\"tup\",[");
                for (i, s) in pats.iter().enumerate() {
                    if i > 0 {
                        o.push(',');
                    }
                    self.pat(s, o);
                }
                o.push_str("]]");
            }
            Box(s) | Deref(s) | Ref(s, ..) => {
                o.push_str("[\"ref\",");
                self.pat(s, o);
                o.push(']');
            }
            Expr(pe) => self.patexpr(pe, o),
            Guard(s, _) => {
                o.push_str("[\"guard\",");
                self.pat(s, o);
                o.push(']');
            }
            Range(lo, hi, end) => {
                o.push_str("[\"range\",");
                match lo {
                    Some(e) => self.patexpr(e, o),
                    None => o.push_str("null"),
                }
                o.push(',');
                match hi {
                    Some(e) => self.patexpr(e, o),
                    None => o.push_str("null"),
                }
                o.push_str(if matches!(end, hir::RangeEnd::Included) { ",true]" } else { ",false]" });
            }
            Slice(a, m, b) => {
                o.push_str("[\"slice\",[");
                for (i, s) in a.iter().enumerate() {
                    if i > 0 {
                        o.push(',');
                    }
                    self.pat(s, o);
                }
                o.push_str("],");
                match m {
                    Some(s) => self.pat(s, o),
                    None => o.push_str("null"),
                }
                o.push_str(",[");
                for (i, s) in b.iter().enumerate() {
                    if i > 0 {
                        o.push(',');
                    }
                    self.pat(s, o);
                }
                o.push_str("]]");
            }
            _ => o.push_str("[\"other\"]"),
        }
    }

    fn exprs(&self, es: &[hir::Expr<'_>], d: usize, o: &mut String) {
        o.push('[');
        for (i, e) in es.iter().enumerate() {
            if i > 0 {
                o.push(',');
            }
            self.expr(e, d, o);
        }
        o.push(']');
    }

    fn block(&self, b: &hir::Block<'_>, d: usize, o: &mut String) {
        if b.stmts.is_empty() {
            if let Some(e) = b.expr {
                self.expr(e, d, o);
                return;
            }
        }
        if d == 0 {
            o.push_str("[\"deep\"]");
            return;
        }
        o.push_str("[\"block\",[");
        let mut first = true;
        for s in b.stmts.iter() {
            if !first {
                o.push(',');
            }
            first = false;
            match &s.kind {
                hir::StmtKind::Let(l) => {
                    o.push_str("[\"let\",");
                    self.pat(l.pat, o);
                    o.push(',');
                    match l.init {
                        Some(e) => self.expr(e, d - 1, o),
                        None => o.push_str("null"),
                    }
                    o.push(',');
                    match l.els {
                        Some(b) => self.block(b, d - 1, o),
                        None => o.push_str("null"),
                    }
                    o.push(']');
                }
                hir::StmtKind::Expr(e) | hir::StmtKind::Semi(e) => self.expr(e, d - 1, o),
                hir::StmtKind::Item(_) => o.push_str("[\"item\"]"),
            }
        }
        o.push_str("],");
        match b.expr {
            Some(e) => self.expr(e, d - 1, o),
            None => o.push_str("null"),
        }
        o.push(']');
    }

    pub fn expr(&self, e: &hir::Expr<'_>, d: usize, o: &mut String) {
        use hir::ExprKind::*;
        if d == 0 {
            o.push_str("[\"deep\"]");
            return;
        }
        let d1 = d - 1;
        match &e.kind {
            Lit(l) => {
                o.push_str("[\"lit\",");
                lit_json(l, false, o);
                o.push(']');
            }
            Path(qp) => {
                let res = self.tr.qpath_res(qp, e.hir_id);
                o.push_str("[\"path\",");
                self.res_json(res, o);
                o.push(',');
                json::str(o, &ty_s(self.tr.expr_ty(e)));
                o.push(']');
            }
            Call(f, args) => {
                o.push_str("[\"call\",");
                self.expr(f, d1, o);
                o.push(',');
                self.exprs(args, d1, o);
                o.push(']');
            }
            MethodCall(seg, recv, args, _) => {
                o.push_str("[\"mcall\",");
                json::str(o, seg.ident.name.as_str());
                o.push(',');
                match self.tr.type_dependent_def_id(e.hir_id) {
                    Some(did) => json::str(o, &self.tcx.def_path_str(did)),
                    None => o.push_str("null"),
                }
                o.push(',');
                self.expr(recv, d1, o);
                o.push(',');
                self.exprs(args, d1, o);
                o.push(',');
                json::str(o, &ty_s(self.tr.expr_ty_adjusted(recv)));
                o.push(']');
            }
            Tup(es) => {
                o.push_str("[\"tup\",");
                self.exprs(es, d1, o);
                o.push(']');
            }
            Array(es) => {
                o.push_str("[\"arr\",");
                self.exprs(es, d1, o);
                o.push(']');
            }
            Binary(op, a, b) => {
                o.push_str("[\"bin\",");
                json::str(o, op.node.as_str());
                o.push(',');
                self.expr(a, d1, o);
                o.push(',');
                self.expr(b, d1, o);
                o.push(']');
            }
            Unary(op, a) => {
                let ops = match op {
                    hir::UnOp::Deref => "*",
                    hir::UnOp::Not => "!",
                    hir::UnOp::Neg => "-",
                };
                o.push_str("[\"un\",");
                json::str(o, ops);
                o.push(',');
                self.expr(a, d1, o);
                o.push(']');
            }
            Cast(a, _) => {
                o.push_str("[\"cast\",");
                self.expr(a, d1, o);
                o.push(',');
                json::str(o, &ty_s(self.tr.expr_ty(e)));
                o.push(',');
                json::str(o, &ty_s(self.tr.expr_ty(a)));
                o.push(']');
            }
            Type(a, _) | DropTemps(a) | Use(a, _) => self.expr(a, d, o),
            AddrOf(_, _, a) => {
                o.push_str("[\"addr\",");
                self.expr(a, d1, o);
                o.push(']');
            }
            Let(l) => {
                o.push_str("[\"iflet\",");
                self.pat(l.pat, o);
                o.push(',');
                self.expr(l.init, d1, o);
                o.push(']');
            }
            If(c, t, f) => {
                o.push_str("[\"if\",");
                self.expr(c, d1, o);
                o.push(',');
                self.expr(t, d1, o);
                o.push(',');
                match f {
                    Some(f) => self.expr(f, d1, o),
                    None => o.push_str("null"),
                }
                o.push(']');
            }
            Loop(b, _, src, _) => {
                o.push_str("[\"loop\",");
                json::str(o, &format!("{:?}", src));
                o.push(',');
                self.block(b, d1, o);
                o.push(']');
            }
            Match(s, arms, src) => {
                o.push_str("[\"match\",");
                json::str(o, &format!("{:?}", src).split('(').next().unwrap_or("").to_string());
                o.push(',');
                self.expr(s, d1, o);
                o.push_str(",[");
                for (i, a) in arms.iter().enumerate() {
                    if i > 0 {
                        o.push(',');
                    }
                    o.push('[');
                    self.pat(a.pat, o);
                    o.push(',');
                    match a.guard {
                        Some(g) => self.expr(g, d1, o),
                        None => o.push_str("null"),
                    }
                    o.push(',');
                    self.expr(a.body, d1, o);
                    o.push(']');
                }
                o.push_str("]]");
            }
            Closure(c) => {
                o.push_str("[\"closure\",");
                json::str(o, &self.tcx.def_path_str(c.def_id.to_def_id()));
                o.push(',');
                let body = self.tcx.hir_body(c.body);
                o.push('[');
                for (i, p) in body.params.iter().enumerate() {
                    if i > 0 {
                        o.push(',');
                    }
                    self.pat(p.pat, o);
                }
                o.push_str("],");
                self.expr(body.value, d1, o);
                o.push(']');
            }
            Block(b, _) => self.block(b, d, o),
            Assign(a, b, _) => {
                o.push_str("[\"assign\",");
                self.expr(a, d1, o);
                o.push(',');
                self.expr(b, d1, o);
                o.push(']');
            }
            AssignOp(op, a, b) => {
                o.push_str("[\"assignop\",");
                json::str(o, op.node.as_str());
                o.push(',');
                self.expr(a, d1, o);
                o.push(',');
                self.expr(b, d1, o);
                o.push(']');
            }
            Field(a, id) => {
                o.push_str("[\"field\",");
                self.expr(a, d1, o);
                o.push(',');
                json::str(o, id.name.as_str());
                o.push(']');
            }
            Index(a, b, _) => {
                o.push_str("[\"index\",");
                self.expr(a, d1, o);
                o.push(',');
                self.expr(b, d1, o);
                o.push(']');
            }
            Break(_, v) => {
                o.push_str("[\"break\",");
                match v {
                    Some(v) => self.expr(v, d1, o),
                    None => o.push_str("null"),
                }
                o.push(']');
            }
            Continue(_) => o.push_str("[\"continue\"]"),
            Ret(v) => {
                o.push_str("[\"ret\",");
                match v {
                    Some(v) => self.expr(v, d1, o),
                    None => o.push_str("null"),
                }
                o.push(']');
            }
            Struct(qp, fields, tail) => {
                let res = self.tr.qpath_res(qp, e.hir_id);
                o.push_str("[\"struct\",");
                self.res_json(res, o);
                o.push_str(",[");
                for (i, f) in fields.iter().enumerate() {
                    if i > 0 {
                        o.push(',');
                    }
                    o.push('[');
                    json::str(o, f.ident.name.as_str());
                    o.push(',');
                    self.expr(f.expr, d1, o);
                    o.push(']');
                }
                o.push_str("],");
                match tail {
                    hir::StructTailExpr::Base(b) => self.expr(b, d1, o),
                    _ => o.push_str("null"),
                }
                o.push(']');
            }
            Repeat(a, _) => {
                o.push_str("[\"repeat\",");
                self.expr(a, d1, o);
                o.push(']');
            }
            _ => o.push_str("[\"other\"]"),
        }
    }
}

pub fn const_item_value(tcx: TyCtxt<'_>, did: DefId) -> Option<String> {
    // only non-generic const items
    if tcx.generics_of(did).own_requires_monomorphization() || tcx.generics_of(did).parent_count > 0 {
        return None;
    }
    let c = rustc_middle::mir::Const::from_unevaluated(tcx, did).instantiate_identity().skip_norm_wip();
    let cx = crate::mirdump::Cx { tcx, env: ty::TypingEnv::fully_monomorphized(), owner: did };
    let mut o = String::new();
    crate::mirdump::const_val(&cx, c, &mut o);
    Some(o)
}

struct MatchCollector<'a, 'tcx> {
    ex: Ex<'a, 'tcx>,
    owner: String,
    out: Vec<String>,
    ordinal: usize,
}

impl<'a, 'tcx, 'v> Visitor<'v> for MatchCollector<'a, 'tcx> {
    fn visit_expr(&mut self, e: &'v hir::Expr<'v>) {
        if let hir::ExprKind::Match(scrut, arms, src) = &e.kind {
            if matches!(src, hir::MatchSource::Normal | hir::MatchSource::Postfix) {
                let tcx = self.ex.tcx;
                let mut o = String::new();
                o.push_str("{\"k\":\"match\",\"fn\":");
                json::str(&mut o, &self.owner);
                o.push_str(&format!(",\"ord\":{}", self.ordinal));
                self.ordinal += 1;
                let (file, line, _, exp) = loc(tcx, e.span);
                o.push_str(",\"file\":");
                json::str(&mut o, &file);
                o.push_str(&format!(",\"line\":{},\"exp\":{}", line, exp));
                o.push_str(",\"sty\":");
                json::str(&mut o, &ty_s(self.ex.tr.expr_ty(scrut)));
                o.push_str(",\"scrut\":");
                self.ex.expr(scrut, 6, &mut o);
                o.push_str(",\"arms\":[");
                for (i, a) in arms.iter().enumerate() {
                    if i > 0 {
                        o.push(',');
                    }
                    o.push_str("{\"pat\":");
                    self.ex.pat(a.pat, &mut o);
                    o.push_str(",\"guard\":");
                    match a.guard {
                        Some(g) => self.ex.expr(g, 6, &mut o),
                        None => o.push_str("null"),
                    }
                    o.push_str(",\"body\":");
                    self.ex.expr(a.body, 7, &mut o);
                    o.push_str(",\"src\":");
                    json::str(&mut o, &snippet(tcx, a.body.span, 160));
                    let (_, al, _, _) = loc(tcx, a.span);
                    o.push_str(&format!(",\"line\":{}}}", al));
                }
                o.push_str("]}");
                self.out.push(o);
            }
        }
        intravisit::walk_expr(self, e);
    }
}

fn dump_owner<'tcx>(tcx: TyCtxt<'tcx>, ldid: LocalDefId, out: &mut Out, scopes: &[String]) {
    let did = ldid.to_def_id();
    let kind = tcx.def_kind(did);
    if !matches!(kind, DefKind::Fn | DefKind::AssocFn | DefKind::Closure) {
        return;
    }
    let Some(body) = tcx.hir_maybe_body_owned_by(ldid) else { return };
    let tr = tcx.typeck(ldid);
    let id = tcx.def_path_str(did);
    if kind != DefKind::Closure {
        // closures are visited as part of their parent by walk_expr (nested bodies are not:
        // intravisit's default NestedFilter is None, but closure bodies are separate bodies),
        // so each owner (closure included) is visited on its own.
    }
    let mut mc = MatchCollector { ex: Ex { tcx, tr }, owner: id.clone(), out: Vec::new(), ordinal: 0 };
    mc.visit_expr(body.value);
    for l in mc.out.drain(..) {
        out.line(&l);
    }
    if scopes.iter().any(|s| id.starts_with(s.as_str()) || id.contains(s.as_str())) {
        let ex = Ex { tcx, tr };
        let mut o = String::new();
        o.push_str("{\"k\":\"hirfn\",\"id\":");
        json::str(&mut o, &id);
        o.push_str(",\"params\":[");
        for (i, p) in body.params.iter().enumerate() {
            if i > 0 {
                o.push(',');
            }
            ex.pat(p.pat, &mut o);
        }
        o.push_str("],\"body\":");
        ex.expr(body.value, 48, &mut o);
        o.push('}');
        out.line(&o);
    }
}

pub fn dump<'tcx>(tcx: TyCtxt<'tcx>, out: &mut Out) {
    let scopes: Vec<String> = std::env::var("OXV_HIR_SCOPES")
        .unwrap_or_default()
        .split(',')
        .filter(|s| !s.is_empty())
        .map(|s| s.to_string())
        .collect();
    rustc_middle::ty::print::with_no_trimmed_paths!({
        // ADTs, consts, statics, impls
        for id in tcx.hir_free_items() {
            let item = tcx.hir_item(id);
            let did = item.owner_id.to_def_id();
            match &item.kind {
                hir::ItemKind::Struct(..) | hir::ItemKind::Enum(..) => {
                    let def = tcx.adt_def(did);
                    let mut o = String::from("{\"k\":\"adt\",\"id\":");
                    json::str(&mut o, &tcx.def_path_str(did));
                    o.push_str(",\"enum\":");
                    o.push_str(if def.is_enum() { "true" } else { "false" });
                    let (file, line, _, _) = loc(tcx, item.span);
                    o.push_str(",\"file\":");
                    json::str(&mut o, &file);
                    o.push_str(&format!(",\"line\":{}", line));
                    o.push_str(",\"variants\":[");
                    for (vi, v) in def.variants().iter().enumerate() {
                        if vi > 0 {
                            o.push(',');
                        }
                        o.push_str("{\"name\":");
                        json::str(&mut o, v.name.as_str());
                        o.push_str(",\"fields\":[");
                        for (fi, f) in v.fields.iter().enumerate() {
                            if fi > 0 {
                                o.push(',');
                            }
                            o.push('[');
                            json::str(&mut o, f.name.as_str());
                            o.push(',');
                            json::str(&mut o, &ty_s(tcx.type_of(f.did).instantiate_identity().skip_norm_wip()));
                            o.push(',');
                            json::str(&mut o, if f.vis.is_public() { "pub" } else { "restricted" });
                            o.push(']');
                        }
                        o.push_str("]}");
                    }
                    o.push_str("]}");
                    out.line(&o);
                }
                hir::ItemKind::Const(..) => {
                    if let Some(v) = const_item_value(tcx, did) {
                        let mut o = String::from("{\"k\":\"const\",\"id\":");
                        json::str(&mut o, &tcx.def_path_str(did));
                        o.push_str(",\"ty\":");
                        json::str(&mut o, &ty_s(tcx.type_of(did).instantiate_identity().skip_norm_wip()));
                        o.push_str(",\"val\":");
                        o.push_str(&v);
                        o.push('}');
                        out.line(&o);
                    }
                }
                hir::ItemKind::Impl(imp) => {
                    let mut o = String::from("{\"k\":\"impl\",\"self_ty\":");
                    json::str(&mut o, &ty_s(tcx.type_of(did).instantiate_identity().skip_norm_wip()));
                    o.push_str(",\"trait\":");
                    if imp.of_trait.is_some() {
                        let tr = tcx.impl_trait_ref(did).instantiate_identity().skip_norm_wip();
                        json::str(&mut o, &tcx.def_path_str(tr.def_id));
                    } else {
                        o.push_str("null");
                    }
                    o.push_str(",\"items\":[");
                    let mut first = true;
                    for ai in tcx.associated_items(did).in_definition_order() {
                        if !matches!(ai.kind, ty::AssocKind::Fn { .. }) {
                            continue;
                        }
                        if !first {
                            o.push(',');
                        }
                        first = false;
                        o.push('[');
                        json::str(&mut o, ai.name().as_str());
                        o.push(',');
                        json::str(&mut o, &tcx.def_path_str(ai.def_id));
                        o.push(',');
                        match ai.trait_item_def_id() {
                            Some(t) => json::str(&mut o, &tcx.def_path_str(t)),
                            None => o.push_str("null"),
                        }
                        o.push(']');
                    }
                    o.push_str("]}");
                    out.line(&o);
                }
                _ => {}
            }
        }
        // statics / const arrays with literal initialisers (tables) and matches: per body owner
        let owners: Vec<LocalDefId> = tcx.hir_body_owners().collect();
        for ldid in owners {
            let kind = tcx.def_kind(ldid.to_def_id());
            if matches!(kind, DefKind::Static { .. } | DefKind::Const { .. }) {
                if let Some(body) = tcx.hir_maybe_body_owned_by(ldid) {
                    let tr = tcx.typeck(ldid);
                    let ex = Ex { tcx, tr };
                    let mut o = String::from("{\"k\":\"static\",\"id\":");
                    json::str(&mut o, &tcx.def_path_str(ldid.to_def_id()));
                    o.push_str(",\"ty\":");
                    json::str(&mut o, &ty_s(tr.expr_ty(body.value)));
                    o.push_str(",\"init\":");
                    ex.expr(body.value, 6, &mut o);
                    o.push('}');
                    if o.len() < 400_000 {
                        out.line(&o);
                    }
                }
                continue;
            }
            dump_owner(tcx, ldid, out, &scopes);
        }
    });
}
