// format_args! sites from the expanded AST: literal pieces, placeholders, argument snippets
use crate::json;
use crate::Out;
use rustc_ast as ast;
use rustc_ast::visit::{self, Visitor};
use rustc_middle::ty::TyCtxt;
use rustc_span::Span;

struct V<'a, 'tcx> {
    tcx: TyCtxt<'tcx>,
    out: &'a mut Out,
}

fn pos(tcx: TyCtxt<'_>, sp: Span) -> (String, usize, usize) {
    let sm = tcx.sess.source_map();
    let lo = sm.lookup_char_pos(sp.lo());
    let f = match &lo.file.name {
        rustc_span::FileName::Real(r) => match r.local_path() {
            Some(p) => p.to_string_lossy().to_string(),
            None => format!("{:?}", lo.file.name),
        },
        other => format!("{:?}", other),
    };
    (f, lo.line, lo.col.0)
}

fn macro_chain(sp: Span) -> Vec<String> {
    let mut v = Vec::new();
    let mut s = sp;
    let mut n = 0;
    while s.from_expansion() && n < 12 {
        let d = s.ctxt().outer_expn_data();
        if let rustc_span::ExpnKind::Macro(_, name) = d.kind {
            v.push(name.to_string());
        } else {
            v.push(format!("{:?}", d.kind).split('(').next().unwrap_or("").to_string());
        }
        s = d.call_site;
        n += 1;
    }
    v
}

impl<'a, 'tcx, 'ast> Visitor<'ast> for V<'a, 'tcx> {
    fn visit_expr(&mut self, e: &'ast ast::Expr) {
        if let ast::ExprKind::FormatArgs(fa) = &e.kind {
            let tcx = self.tcx;
            let outer = e.span.source_callsite();
            let (file, line, col) = pos(tcx, outer);
            let (_, sline, _) = pos(tcx, fa.span.source_callsite());
            let mut o = String::from("{\"k\":\"fmt\",\"file\":");
            json::str(&mut o, &file);
            o.push_str(&format!(",\"line\":{},\"col\":{},\"sline\":{}", line, col, sline));
            o.push_str(",\"macros\":[");
            for (i, m) in macro_chain(e.span).iter().enumerate() {
                if i > 0 {
                    o.push(',');
                }
                json::str(&mut o, m);
            }
            o.push_str("],\"tpl\":[");
            for (i, p) in fa.template.iter().enumerate() {
                if i > 0 {
                    o.push(',');
                }
                match p {
                    ast::FormatArgsPiece::Literal(s) => json::str(&mut o, s.as_str()),
                    ast::FormatArgsPiece::Placeholder(ph) => {
                        let idx = match ph.argument.index {
                            Ok(i) => i as i64,
                            Err(_) => -1,
                        };
                        let w = match &ph.format_options.width {
                            Some(ast::FormatCount::Literal(n)) => n.to_string(),
                            Some(_) => "\"arg\"".to_string(),
                            None => "null".to_string(),
                        };
                        let pr = match &ph.format_options.precision {
                            Some(ast::FormatCount::Literal(n)) => n.to_string(),
                            Some(_) => "\"arg\"".to_string(),
                            None => "null".to_string(),
                        };
                        o.push_str(&format!(
                            "{{\"arg\":{},\"tr\":\"{:?}\",\"w\":{},\"p\":{},\"zero\":{},\"alt\":{}}}",
                            idx, ph.format_trait, w, pr, ph.format_options.zero_pad, ph.format_options.alternate
                        ));
                    }
                }
            }
            o.push_str("],\"args\":[");
            let sm = tcx.sess.source_map();
            for (i, a) in fa.arguments.all_args().iter().enumerate() {
                if i > 0 {
                    o.push(',');
                }
                let mut sn = sm.span_to_snippet(a.expr.span).unwrap_or_default();
                if sn.len() > 200 {
                    let mut e = 200;
                    while !sn.is_char_boundary(e) {
                        e -= 1;
                    }
                    sn.truncate(e);
                }
                let (_, al, ac) = pos(tcx, a.expr.span);
                o.push_str("{\"src\":");
                json::str(&mut o, &sn);
                o.push_str(&format!(",\"line\":{},\"col\":{},\"lit\":", al, ac));
                // literal arguments (e.g. format!("{}", "x")) are recorded
                match &a.expr.kind {
                    ast::ExprKind::Lit(l) => json::str(&mut o, l.symbol.as_str()),
                    _ => o.push_str("null"),
                }
                o.push('}');
            }
            o.push_str("]}");
            self.out.line(&o);
        }
        visit::walk_expr(self, e);
    }
}

pub fn dump<'tcx>(tcx: TyCtxt<'tcx>, out: &mut Out) {
    let steal = tcx.resolver_for_lowering();
    let guard = steal.borrow();
    let krate: &ast::Crate = &guard.1;
    let mut v = V { tcx, out };
    visit::walk_crate(&mut v, krate);
}
