//! Demonstrations for group D (graphics / text emission) defects.
//!
//! Each test fails on the unfixed tree and passes once the matching fix is
//! applied. D5 (`Op::Comment` with embedded EOL) needs the crate-private
//! `Op` type, so its demonstration lives in `src/graphics/ops.rs`
//! (`mod verif_demo`).

#![allow(deprecated)]

use oxidize_pdf::graphics::GraphicsContext;
use oxidize_pdf::parser::{ContentOperation, ContentParser};
use oxidize_pdf::text::TextEncoding;
use oxidize_pdf::{Document, Font, Page};

const ROBOTO_PATH: &str = "../test-pdfs/Roboto-Regular.ttf";

/// D1: every MacRoman byte that `decode` maps to a character must be
/// encodable back to the same byte, by both the lossy and the strict path.
#[test]
fn d1_macroman_encode_is_inverse_of_decode() {
    let enc = TextEncoding::MacRomanEncoding;
    let mut failures = Vec::new();
    for b in 0x80u8..=0xFF {
        let s = enc.decode(&[b]);
        let lossy = enc.encode(&s);
        let strict = enc.encode_strict(&s);
        if lossy != vec![b] || strict != Ok(vec![b]) {
            failures.push(format!(
                "0x{b:02X} -> {s:?} -> lossy {lossy:02X?} / strict {strict:02X?}"
            ));
        }
    }
    assert!(
        failures.is_empty(),
        "{} MacRoman bytes do not round-trip:\n{}",
        failures.len(),
        failures.join("\n")
    );

    // The concrete characters named in the defect report.
    assert_eq!(enc.encode("À"), vec![0xCB]);
    assert_eq!(enc.encode("¥"), vec![0xB4]);
    assert_eq!(enc.encode("«"), vec![0xC7]);
    assert_eq!(enc.encode_strict("∞ˇ"), Ok(vec![0xB0, 0xFF]));
}

/// D2: the legacy `draw_text_hex` / `draw_text_cid` / `draw_text_unicode`
/// entry points must record the drawn characters so the custom font is
/// embedded (fonts with no recorded usage are skipped by the writer).
#[test]
fn d2_legacy_draw_text_records_used_chars() {
    let font_data = std::fs::read(ROBOTO_PATH).expect("Roboto fixture must be present");

    let mut failures = Vec::new();
    for variant in ["hex", "cid", "unicode"] {
        let mut doc = Document::new();
        doc.add_font_from_bytes("Roboto", font_data.clone())
            .expect("add_font_from_bytes should succeed");

        let mut page = Page::a4();
        {
            let g = page.graphics();
            g.set_custom_font("Roboto", 24.0);
            match variant {
                "hex" => g.draw_text_hex("Hello", 50.0, 700.0).unwrap(),
                "cid" => g.draw_text_cid("эчгфг", 50.0, 700.0).unwrap(),
                _ => g.draw_text_unicode("эчгфг", 50.0, 700.0).unwrap(),
            };
        }
        doc.add_page(page);

        let bytes = doc.to_bytes().expect("PDF generation should succeed");
        let haystack = String::from_utf8_lossy(&bytes);
        for marker in ["/Type0", "/CIDFontType2", "/FontFile2"] {
            if !haystack.contains(marker) {
                failures.push(format!("draw_text_{variant}: missing {marker}"));
            }
        }
    }
    assert!(
        failures.is_empty(),
        "custom font used on the page must be embedded; the drawn characters \
         were not recorded: {failures:?}"
    );
}

/// D3: resource names with delimiters / whitespace / `#` must be escaped in
/// the content stream so the operator parses back with the same name.
#[test]
fn d3_resource_names_escaped_in_content_stream() {
    // XObject name (`Do`)
    let mut g = GraphicsContext::new();
    g.draw_image("My Image", 0.0, 0.0, 10.0, 10.0);
    let content = g.operations();
    let ops = ContentParser::parse_content(content.as_bytes())
        .unwrap_or_else(|e| panic!("content must parse: {e:?}\n{content}"));
    assert!(
        ops.contains(&ContentOperation::PaintXObject("My Image".to_string())),
        "expected `Do` with name \"My Image\", got {ops:?}\n{content}"
    );

    // Font name (`Tf`) containing `#`, a delimiter and a non-ASCII char.
    let mut g = GraphicsContext::new();
    g.set_custom_font("Fé#1(b)", 12.0);
    let content = g.operations();
    let ops = ContentParser::parse_content(content.as_bytes())
        .unwrap_or_else(|e| panic!("content must parse: {e:?}\n{content}"));
    assert_eq!(
        ops,
        vec![ContentOperation::SetFont("Fé#1(b)".to_string(), 12.0)],
        "{content}"
    );
    assert!(content.is_ascii(), "escaped name must be ASCII: {content}");

    // Shading name (`sh`).
    let mut g = GraphicsContext::new();
    g.paint_shading("Sh 1");
    let content = g.operations();
    assert_eq!(content, "/Sh#201 sh\n");

    // Plain names stay untouched.
    let mut g = GraphicsContext::new();
    g.draw_image("Im1", 0.0, 0.0, 1.0, 1.0);
    assert!(g.operations().contains("/Im1 Do\n"));
}

/// D4: `show_text` with a standard font must WinAnsi-encode the text, not
/// dump UTF-8 bytes into the literal string.
#[test]
fn d4_show_text_standard_font_winansi() {
    let mut g = GraphicsContext::new();
    g.set_font(Font::Helvetica, 12.0);
    g.begin_text();
    g.show_text("é (x)").unwrap();
    g.end_text();
    let content = g.operations();
    assert!(
        content.contains("(\\351 \\(x\\)) Tj"),
        "expected WinAnsi octal escape for é, got: {content:?}"
    );
    assert!(
        !content.as_bytes().windows(2).any(|w| w == [0xC3, 0xA9]),
        "raw UTF-8 bytes of é leaked into the literal string: {content:?}"
    );

    // Windows-1252 specials go to their 0x80..0x9F slot; unmappable -> '?'.
    let mut g = GraphicsContext::new();
    g.set_font(Font::Helvetica, 12.0);
    g.show_text("€❤").unwrap();
    assert!(g.operations().contains("(\\200?) Tj"), "{}", g.operations());
}
