//! Demonstrations for reader / parser robustness defects (group B).

use oxidize_pdf::parser::{ParseOptions, PdfDocument, PdfReader};
use std::io::Cursor;
use std::sync::mpsc;
use std::time::Duration;

/// Build a classic (xref table) PDF from numbered object bodies.
/// `objects[i]` is the body of object `i + 1`.
fn build_pdf(objects: &[&str]) -> Vec<u8> {
    build_pdf_with_xref_header(objects, None)
}

fn build_pdf_with_xref_header(objects: &[&str], header: Option<&str>) -> Vec<u8> {
    let mut out: Vec<u8> = b"%PDF-1.4\n".to_vec();
    let mut offsets = Vec::new();
    for (i, body) in objects.iter().enumerate() {
        offsets.push(out.len());
        out.extend_from_slice(format!("{} 0 obj\n{}\nendobj\n", i + 1, body).as_bytes());
    }
    let xref_pos = out.len();
    out.extend_from_slice(b"xref\n");
    match header {
        Some(h) => out.extend_from_slice(format!("{h}\n").as_bytes()),
        None => out.extend_from_slice(format!("0 {}\n", objects.len() + 1).as_bytes()),
    }
    out.extend_from_slice(b"0000000000 65535 f \n");
    for off in &offsets {
        out.extend_from_slice(format!("{:010} 00000 n \n", off).as_bytes());
    }
    out.extend_from_slice(
        format!(
            "trailer\n<< /Size {} /Root 1 0 R >>\nstartxref\n{}\n%%EOF\n",
            objects.len() + 1,
            xref_pos
        )
        .as_bytes(),
    );
    out
}

/// Run `f` in a thread with the given stack size; returns None on timeout.
fn run_bounded<T: Send + 'static>(
    stack: usize,
    timeout: Duration,
    f: impl FnOnce() -> T + Send + 'static,
) -> Option<T> {
    let (tx, rx) = mpsc::channel();
    std::thread::Builder::new()
        .stack_size(stack)
        .spawn(move || {
            let _ = tx.send(f());
        })
        .expect("spawn");
    rx.recv_timeout(timeout).ok()
}

#[test]
fn b01_xref_subsection_overflow() {
    let objects = [
        "<< /Type /Catalog /Pages 2 0 R >>",
        "<< /Type /Pages /Kids [3 0 R] /Count 1 >>",
        "<< /Type /Page /Parent 2 0 R /MediaBox [0 0 100 100] >>",
    ];
    // Subsection header whose first object number is u32::MAX: the second
    // entry would be object number u32::MAX + 1.
    let bytes = build_pdf_with_xref_header(&objects, Some("4294967295 4"));
    let result = std::panic::catch_unwind(|| {
        // Either an error or a successful recovery is acceptable; a panic is not.
        let _ = PdfReader::new(Cursor::new(bytes.clone()));
        let _ = PdfReader::new_with_options(Cursor::new(bytes.clone()), ParseOptions::strict());
    });
    assert!(result.is_ok(), "opening the file panicked");
}

#[test]
fn b01_xref_stream_index_overflow() {
    // Same defect through a cross-reference stream: /Index [4294967295 2].
    let mut out: Vec<u8> = b"%PDF-1.5\n".to_vec();
    let o1 = out.len();
    out.extend_from_slice(b"1 0 obj\n<< /Type /Catalog /Pages 2 0 R >>\nendobj\n");
    let o2 = out.len();
    out.extend_from_slice(b"2 0 obj\n<< /Type /Pages /Kids [] /Count 0 >>\nendobj\n");
    let o3 = out.len();
    let mut data = Vec::new();
    for off in [o1, o2] {
        data.push(1u8);
        data.extend_from_slice(&(off as u16).to_be_bytes());
        data.push(0);
    }
    out.extend_from_slice(
        format!(
            "3 0 obj\n<< /Type /XRef /Size 4 /Index [4294967295 2] /W [1 2 1] /Root 1 0 R /Length {} >>\nstream\n",
            data.len()
        )
        .as_bytes(),
    );
    out.extend_from_slice(&data);
    out.extend_from_slice(format!("\nendstream\nendobj\nstartxref\n{o3}\n%%EOF\n").as_bytes());

    let result = std::panic::catch_unwind(|| {
        let _ = PdfReader::new(Cursor::new(out.clone()));
        let _ = PdfReader::new_with_options(Cursor::new(out.clone()), ParseOptions::strict());
    });
    assert!(result.is_ok(), "opening the file panicked");
}

#[test]
fn b02_rotation_overflow() {
    use oxidize_pdf::operations::{PageRotator, RotateOptions};

    let objects = [
        "<< /Type /Catalog /Pages 2 0 R >>",
        "<< /Type /Pages /Kids [3 0 R] /Count 1 >>",
        "<< /Type /Page /Parent 2 0 R /MediaBox [0 0 100 100] /Rotate 2147483647 >>",
    ];
    let dir = tempfile::tempdir().unwrap();
    let path = dir.path().join("rotate_max.pdf");
    std::fs::write(&path, build_pdf(&objects)).unwrap();

    let document = PdfReader::open_document(&path).expect("open");
    assert_eq!(document.get_page(0).unwrap().rotation, i32::MAX);

    let result = std::panic::catch_unwind(move || {
        let mut rotator = PageRotator::new(document);
        rotator
            .rotate(&RotateOptions::default())
            .map(|doc| doc.pages()[0].get_rotation())
    });
    let rotation = result.expect("rotate panicked").expect("rotate failed");
    // 2147483647 mod 360 = 127; + 90 = 217, which the writer snaps to 180.
    assert_eq!(rotation, 180);
}

#[test]
fn b03_cmap_long_code_offset() {
    use oxidize_pdf::text::cmap::CMap;

    let cmap_text = b"/CIDInit /ProcSet findresource begin\n12 dict begin\nbegincmap\n\
/CMapName /Test def\n/CMapType 2 def\n\
1 begincodespacerange\n<010000000000000000> <0100000000000000FF>\nendcodespacerange\n\
1 beginbfrange\n<010000000000000000> <0100000000000000FF> <0041>\nendbfrange\n\
endcmap\nend\nend\n";
    let cmap = CMap::parse(cmap_text).expect("parse cmap");
    let code = [1u8, 0, 0, 0, 0, 0, 0, 0, 5];
    let result = std::panic::catch_unwind(|| cmap.map(&code));
    let mapped = result.expect("CMap::map panicked");
    // Offset 5 from <0041> is <0046>.
    assert_eq!(mapped, Some(vec![0x00, 0x46]));

    // A range wider than usize must not panic either.
    let wide = b"begincmap\n1 beginbfrange\n\
<000000000000000000> <FFFFFFFFFFFFFFFFFF> <0041>\nendbfrange\nendcmap\n";
    let cmap = CMap::parse(wide).expect("parse cmap");
    let result = std::panic::catch_unwind(|| cmap.map(&[0xFF; 9]));
    assert!(result.is_ok(), "CMap::map panicked on wide range");
}

#[test]
fn b04_page_tree_cycle() {
    // Root /Pages node lists itself as its only kid: the flat index is empty
    // (no leaf), so get_page falls back to the legacy tree search.
    let objects = [
        "<< /Type /Catalog /Pages 2 0 R >>",
        "<< /Type /Pages /Kids [2 0 R] /Count 1 >>",
    ];
    let bytes = build_pdf(&objects);
    let outcome = run_bounded(4 << 20, Duration::from_secs(20), move || {
        let reader = PdfReader::new(Cursor::new(bytes)).expect("open");
        let doc = PdfDocument::new(reader);
        doc.get_page(0).is_err()
    });
    assert_eq!(
        outcome,
        Some(true),
        "get_page(0) did not terminate with an error"
    );
}

#[test]
fn b04_page_tree_count_overflow() {
    let objects = [
        "<< /Type /Catalog /Pages 2 0 R >>",
        "<< /Type /Pages /Kids [3 0 R 4 0 R] /Count 2 >>",
        "<< /Type /Pages /Parent 2 0 R /Kids [] /Count 4294967295 >>",
        "<< /Type /Pages /Parent 2 0 R /Kids [] /Count 1 >>",
    ];
    let bytes = build_pdf(&objects);
    let result = std::panic::catch_unwind(move || {
        let reader = PdfReader::new(Cursor::new(bytes)).expect("open");
        let doc = PdfDocument::new(reader);
        doc.get_page(u32::MAX).is_err()
    });
    assert_eq!(
        result.ok(),
        Some(true),
        "get_page panicked instead of failing"
    );
}

#[test]
fn b05_object_nesting_depth() {
    use oxidize_pdf::parser::lexer::Lexer;
    use oxidize_pdf::parser::PdfObject;

    let depth = 100_000;
    let mut input = vec![b'['; depth];
    input.extend(std::iter::repeat(b']').take(depth));
    let outcome = run_bounded(1 << 20, Duration::from_secs(60), move || {
        let mut lexer = Lexer::new(Cursor::new(input));
        PdfObject::parse(&mut lexer).is_err()
    });
    assert_eq!(outcome, Some(true));

    // Same for dictionaries.
    let mut input = Vec::new();
    for _ in 0..depth {
        input.extend_from_slice(b"<</A ");
    }
    let outcome = run_bounded(1 << 20, Duration::from_secs(60), move || {
        let mut lexer = Lexer::new(Cursor::new(input));
        PdfObject::parse(&mut lexer).is_err()
    });
    assert_eq!(outcome, Some(true));

    // A long run of comment lines before an object must not recurse either.
    let mut input = Vec::new();
    for _ in 0..depth {
        input.extend_from_slice(b"%c\n");
    }
    input.extend_from_slice(b"42 ");
    let outcome = run_bounded(1 << 20, Duration::from_secs(60), move || {
        let mut lexer = Lexer::new(Cursor::new(input));
        PdfObject::parse(&mut lexer).ok()
    });
    assert_eq!(outcome, Some(Some(PdfObject::Integer(42))));

    // Reasonable nesting must still parse.
    let mut input = vec![b'['; 50];
    input.extend_from_slice(b"1");
    input.extend(std::iter::repeat(b']').take(50));
    let mut lexer = Lexer::new(Cursor::new(input));
    assert!(PdfObject::parse(&mut lexer).is_ok());
}

#[test]
fn b06_content_stray_delimiters() {
    use oxidize_pdf::parser::ContentParser;

    let mut content = vec![b'}'; 400_000];
    content.extend_from_slice(b" q Q");
    let outcome = run_bounded(1 << 20, Duration::from_secs(60), move || {
        ContentParser::parse_content(&content).map(|ops| ops.len())
    });
    assert_eq!(outcome.expect("timed out").expect("parse failed"), 2);
}

#[test]
fn b07_marked_content_nesting() {
    use oxidize_pdf::parser::ContentParser;

    let depth = 100_000;
    let mut content = b"/P << /K ".to_vec();
    content.extend(std::iter::repeat(b'[').take(depth));
    content.extend(std::iter::repeat(b']').take(depth));
    content.extend_from_slice(b" >> BDC EMC");
    let outcome = run_bounded(1 << 20, Duration::from_secs(60), move || {
        ContentParser::parse_content(&content).map(|ops| ops.len())
    });
    // The over-nested BDC is rejected and skipped by the best-effort operator
    // loop; only EMC remains.
    assert_eq!(outcome.expect("timed out").expect("parse failed"), 1);

    // Ordinary nested property lists still work.
    let ops = ContentParser::parse_content(b"/P << /K [1 [2 3] << /A [4] >>] >> BDC EMC").unwrap();
    assert_eq!(ops.len(), 2);
}

#[test]
fn b08_lexer_problematic_byte_run() {
    use oxidize_pdf::parser::lexer::{Lexer, Token};

    let mut input = vec![0x80u8; 400_000];
    input.extend_from_slice(b" 42");
    let outcome = run_bounded(1 << 20, Duration::from_secs(60), move || {
        let mut lexer = Lexer::new_with_options(Cursor::new(input), ParseOptions::lenient());
        lexer.next_token()
    });
    let token = outcome.expect("timed out").expect("lexer failed");
    assert_eq!(token, Token::Integer(42));
}

#[test]
fn b09_cyclic_descendant_fonts() {
    let content = "BT /F1 12 Tf (A) Tj ET";
    let stream = format!(
        "<< /Length {} >>\nstream\n{}\nendstream",
        content.len(),
        content
    );
    let objects = [
        "<< /Type /Catalog /Pages 2 0 R >>",
        "<< /Type /Pages /Kids [3 0 R] /Count 1 >>",
        "<< /Type /Page /Parent 2 0 R /MediaBox [0 0 100 100] /Contents 4 0 R \
         /Resources << /Font << /F1 5 0 R >> >> >>",
        stream.as_str(),
        // The Type0 font lists itself as its descendant.
        "<< /Type /Font /Subtype /Type0 /BaseFont /Cyclic /Encoding /Identity-H \
         /DescendantFonts [5 0 R] >>",
    ];
    let bytes = build_pdf(&objects);
    let outcome = run_bounded(1 << 20, Duration::from_secs(60), move || {
        let reader = PdfReader::new(Cursor::new(bytes)).expect("open");
        let doc = PdfDocument::new(reader);
        // Any outcome but a crash / endless recursion is fine.
        let _ = doc.extract_text();
        true
    });
    assert_eq!(outcome, Some(true));
}

/// Two-revision file: revision 1 keeps object 5 inside object stream 4
/// (cross-reference stream), revision 2 is appended with a classic xref
/// section described by `rev2_body` / `rev2_entry`.
fn build_incremental_pdf(redefine: bool) -> Vec<u8> {
    let mut out: Vec<u8> = b"%PDF-1.5\n".to_vec();
    let mut offsets = Vec::new();
    for (i, body) in [
        "<< /Type /Catalog /Pages 2 0 R >>",
        "<< /Type /Pages /Kids [3 0 R] /Count 1 >>",
        "<< /Type /Page /Parent 2 0 R /MediaBox [0 0 100 100] >>",
    ]
    .iter()
    .enumerate()
    {
        offsets.push(out.len());
        out.extend_from_slice(format!("{} 0 obj\n{}\nendobj\n", i + 1, body).as_bytes());
    }
    // Object stream 4 holding object 5 = 111
    let objstm = "5 0 111";
    offsets.push(out.len());
    out.extend_from_slice(
        format!(
            "4 0 obj\n<< /Type /ObjStm /N 1 /First 4 /Length {} >>\nstream\n{}\nendstream\nendobj\n",
            objstm.len(),
            objstm
        )
        .as_bytes(),
    );
    let xref1 = out.len();
    let mut data: Vec<u8> = vec![0, 0, 0, 0];
    for off in &offsets {
        data.push(1);
        data.extend_from_slice(&(*off as u16).to_be_bytes());
        data.push(0);
    }
    data.extend_from_slice(&[2, 0, 4, 0]); // object 5: compressed, stream 4, index 0
    data.push(1);
    data.extend_from_slice(&(xref1 as u16).to_be_bytes());
    data.push(0);
    out.extend_from_slice(
        format!(
            "6 0 obj\n<< /Type /XRef /Size 7 /W [1 2 1] /Root 1 0 R /Length {} >>\nstream\n",
            data.len()
        )
        .as_bytes(),
    );
    out.extend_from_slice(&data);
    out.extend_from_slice(format!("\nendstream\nendobj\nstartxref\n{xref1}\n%%EOF\n").as_bytes());

    // Revision 2
    let entry = if redefine {
        let off5 = out.len();
        out.extend_from_slice(b"5 0 obj\n222\nendobj\n");
        format!("{:010} 00000 n \n", off5)
    } else {
        "0000000000 00001 f \n".to_string()
    };
    let xref2 = out.len();
    out.extend_from_slice(
        format!(
            "xref\n0 1\n0000000000 65535 f \n5 1\n{entry}trailer\n<< /Size 7 /Root 1 0 R /Prev {xref1} >>\nstartxref\n{xref2}\n%%EOF\n"
        )
        .as_bytes(),
    );
    out
}

#[test]
fn b10_stale_compressed_entry() {
    use oxidize_pdf::parser::PdfObject;

    for options in [ParseOptions::strict(), ParseOptions::default()] {
        // Revision 2 redefines object 5 as a plain object.
        let mut reader =
            PdfReader::new_with_options(Cursor::new(build_incremental_pdf(true)), options.clone())
                .expect("open redefine");
        assert_eq!(reader.get_object(5, 0).unwrap(), &PdfObject::Integer(222));

        // Revision 2 frees object 5.
        let mut reader =
            PdfReader::new_with_options(Cursor::new(build_incremental_pdf(false)), options)
                .expect("open freed");
        assert_eq!(reader.get_object(5, 0).unwrap(), &PdfObject::Null);
    }
}

#[test]
fn b10_single_revision_compressed_still_resolves() {
    use oxidize_pdf::parser::PdfObject;

    // Sanity: truncate before revision 2 -> object 5 comes from the object stream.
    let full = build_incremental_pdf(true);
    let eof = full.windows(5).position(|w| w == b"%%EOF").unwrap() + 6;
    let mut reader =
        PdfReader::new_with_options(Cursor::new(full[..eof].to_vec()), ParseOptions::strict())
            .expect("open rev1");
    assert_eq!(reader.get_object(5, 0).unwrap(), &PdfObject::Integer(111));
}

#[test]
fn b11_indirect_page_attributes() {
    let objects = [
        "<< /Type /Catalog /Pages 2 0 R >>",
        // Inherited /Rotate and /CropBox given as indirect references.
        "<< /Type /Pages /Kids [3 0 R] /Count 1 /Rotate 5 0 R /CropBox 6 0 R >>",
        "<< /Type /Page /Parent 2 0 R /MediaBox 4 0 R >>",
        "[0 0 200 300]",
        "90",
        "[10 10 190 290]",
    ];
    let reader = PdfReader::new(Cursor::new(build_pdf(&objects))).expect("open");
    let doc = PdfDocument::new(reader);
    let page = doc.get_page(0).expect("page");
    assert_eq!(page.media_box, [0.0, 0.0, 200.0, 300.0]);
    assert_eq!(page.crop_box, Some([10.0, 10.0, 190.0, 290.0]));
    assert_eq!(page.rotation, 90);
}

#[test]
fn b12_object_stream_members_not_decrypted_twice() {
    use oxidize_pdf::parser::PdfObject;

    // qpdf-produced (spec-conforming) encrypted files whose Info dictionary
    // (object 3) and CIDFont dictionaries (8, 11, 16, 22) live in an object
    // stream. Per ISO 32000-1 §7.6.1 only the object stream as a whole is
    // encrypted; the strings inside it are not encrypted separately.
    let fixtures = concat!(env!("CARGO_MANIFEST_DIR"), "/tests/fixtures");
    for (file, password) in [
        ("encrypted_aes256_r6_empty_user.pdf", ""),
        ("encrypted_aes256_r5_user.pdf", "user5"),
        ("encrypted_rc4_40bit.pdf", "user"),
    ] {
        let bytes = std::fs::read(format!("{fixtures}/{file}")).unwrap();
        let mut reader = PdfReader::new(Cursor::new(bytes)).expect("open");
        assert!(
            reader.unlock_with_password(password).unwrap(),
            "{file}: unlock"
        );

        let info = reader
            .get_object(3, 0)
            .unwrap_or_else(|e| panic!("{file}: object 3: {e}"))
            .clone();
        let producer = info.as_dict().and_then(|d| d.get("Producer")).cloned();
        assert_eq!(
            producer,
            Some(PdfObject::String(oxidize_pdf::parser::PdfString::new(
                b"Skia/PDF m64".to_vec()
            ))),
            "{file}: /Producer"
        );

        for n in [8, 11, 16, 22] {
            let font = reader
                .get_object(n, 0)
                .unwrap_or_else(|e| panic!("{file}: object {n}: {e}"))
                .clone();
            let registry = font
                .as_dict()
                .and_then(|d| d.get("CIDSystemInfo"))
                .and_then(|o| o.as_dict())
                .and_then(|d| d.get("Registry"))
                .cloned();
            assert_eq!(
                registry,
                Some(PdfObject::String(oxidize_pdf::parser::PdfString::new(
                    b"Adobe".to_vec()
                ))),
                "{file}: object {n} /Registry"
            );
        }
    }
}

#[test]
fn b11_indirect_media_box_in_orphan_page_fallback() {
    // The page is not reachable from /Kids, so get_page ends in the "scan for
    // any /Type /Page object" fallback; its indirect /MediaBox must resolve
    // there too (and must not trip over the reader's RefCell borrow).
    let objects = [
        "<< /Type /Catalog /Pages 2 0 R >>",
        "<< /Type /Pages /Kids [] /Count 0 >>",
        "<< /Type /Page /Parent 2 0 R /MediaBox 4 0 R >>",
        "[0 0 200 300]",
    ];
    let bytes = build_pdf(&objects);
    let result = std::panic::catch_unwind(move || {
        let reader = PdfReader::new(Cursor::new(bytes)).expect("open");
        let doc = PdfDocument::new(reader);
        doc.get_page(0).map(|p| p.media_box)
    });
    let media_box = result.expect("get_page panicked").expect("get_page failed");
    assert_eq!(media_box, [0.0, 0.0, 200.0, 300.0]);
}
