//! Demonstrations for group J: buffer sizes taken from the file.
//!
//! A declared stream `/Length` must not be used as an allocation size. The
//! unfixed code aborts the process ("memory allocation of N bytes failed") or
//! panics with "capacity overflow". An abort cannot be caught in-process, so
//! each scenario is re-executed in a child copy of this test binary and the
//! parent asserts that the child exited normally.

use oxidize_pdf::parser::lexer::Lexer;
use oxidize_pdf::parser::objects::PdfObject;
use oxidize_pdf::parser::{ParseOptions, PdfReader};
use std::io::Cursor;
use std::process::Command;

const CHILD_ENV: &str = "VERIF_DEMO_J_CHILD";

/// Returns true when this process is the child that must run `name`'s scenario.
fn is_child(name: &str) -> bool {
    std::env::var(CHILD_ENV).map(|v| v == name).unwrap_or(false)
}

/// Re-run test `name` of this binary in a child process and require a clean exit.
fn assert_child_survives(name: &str) {
    let exe = std::env::current_exe().expect("current_exe");
    let out = Command::new(exe)
        .args([name, "--exact", "--nocapture", "--test-threads=1"])
        .env(CHILD_ENV, name)
        .output()
        .expect("spawn child test process");
    assert!(
        out.status.success(),
        "child process did not finish gracefully: {:?}\n--- stderr ---\n{}",
        out.status,
        String::from_utf8_lossy(&out.stderr)
    );
}

/// Minimal PDF: catalog, empty page tree and object 4, a stream whose dictionary
/// body is `obj4_dict_body`. Object 4 is listed in the xref table only when
/// `obj4_in_xref` is set; otherwise it is reachable only via manual reconstruction.
fn build_pdf(obj4_dict_body: &str, payload: &[u8], obj4_in_xref: bool) -> Vec<u8> {
    let mut data = Vec::new();
    data.extend_from_slice(b"%PDF-1.4\n");
    let obj1_start = data.len();
    data.extend_from_slice(b"1 0 obj\n<< /Type /Catalog /Pages 2 0 R >>\nendobj\n");
    let obj2_start = data.len();
    data.extend_from_slice(b"2 0 obj\n<< /Type /Pages /Kids [] /Count 0 >>\nendobj\n");
    let obj4_start = data.len();
    data.extend_from_slice(format!("4 0 obj\n<<{obj4_dict_body}>>\nstream\n").as_bytes());
    data.extend_from_slice(payload);
    data.extend_from_slice(b"\nendstream\nendobj\n");

    let xref_start = data.len();
    let xref = if obj4_in_xref {
        format!(
            "xref\n0 5\n0000000000 65535 f \n{obj1_start:010} 00000 n \n{obj2_start:010} 00000 n \n0000000000 65535 f \n{obj4_start:010} 00000 n \ntrailer\n<< /Size 5 /Root 1 0 R >>\nstartxref\n{xref_start}\n%%EOF"
        )
    } else {
        format!(
            "xref\n0 3\n0000000000 65535 f \n{obj1_start:010} 00000 n \n{obj2_start:010} 00000 n \ntrailer\n<< /Size 3 /Root 1 0 R >>\nstartxref\n{xref_start}\n%%EOF"
        )
    };
    data.extend_from_slice(xref.as_bytes());
    data
}

fn j1_scenario() {
    // (a) The lexer directly: more bytes requested than any Vec can hold.
    let mut lexer = Lexer::new(Cursor::new(b"0123456789".to_vec()));
    assert!(
        lexer.read_bytes(usize::MAX - 2).is_err(),
        "10 bytes available, usize::MAX - 2 requested: must be an error"
    );

    // Valid input keeps working, including the peeked byte and the position.
    let mut lexer = Lexer::new(Cursor::new(b"12 abcdefgh".to_vec()));
    lexer.next_token().expect("integer token");
    assert_eq!(lexer.read_bytes(4).expect("4 bytes"), b" abc");
    assert_eq!(lexer.position(), 6);
    assert_eq!(lexer.read_bytes(5).expect("5 bytes"), b"defgh");
    assert_eq!(lexer.position(), 11);
    assert!(lexer.read_bytes(1).is_err(), "nothing left");

    // (b) The object parser, strict and lenient, with huge direct lengths.
    for len in ["9999999999999", "1099511627776", "9223372036854775807"] {
        let src = format!("<< /Length {len} >>\nstream\nabc\nendstream\nendobj\n");
        for opts in [ParseOptions::strict(), ParseOptions::tolerant()] {
            let mut lexer =
                Lexer::new_with_options(Cursor::new(src.clone().into_bytes()), opts.clone());
            let res = PdfObject::parse_with_options(&mut lexer, &opts);
            assert!(
                res.is_err(),
                "/Length {len} with 3 bytes of data must be a parse error, got {res:?}"
            );
        }
    }

    // (c) A whole document through PdfReader.
    let data = build_pdf(" /Length 9999999999999 ", b"abc", true);
    assert!(data.len() < 400);
    let mut pdf = PdfReader::new_with_options(Cursor::new(data), ParseOptions::strict())
        .expect("minimal PDF must open");
    let res = pdf.get_object(4, 0).map(|o| o.clone());
    assert!(
        res.is_err(),
        "object 4 declares far more data than the file holds, got {res:?}"
    );
}

/// J1: `Lexer::read_bytes(n)` allocated `n` bytes up front, `n` being the
/// stream's `/Length` as written in the file.
#[test]
fn j1_read_bytes_huge_stream_length() {
    if is_child("j1_read_bytes_huge_stream_length") {
        j1_scenario();
        return;
    }
    assert_child_survives("j1_read_bytes_huge_stream_length");
}

fn j2_scenario() {
    // Object 4 is absent from the xref table (and the default options do not
    // scan the file for unlisted objects), so `get_object(4, 0)` goes through
    // manual reconstruction, which reads the body with `read_window_at(.., len)`.
    for len in ["9999999999999", "9223372036854775807"] {
        let payload = b"hello stream";
        let data = build_pdf(&format!(" /Type /Metadata /Length {len} "), payload, false);
        let file_len = data.len();
        let mut pdf = PdfReader::new_with_options(Cursor::new(data), ParseOptions::default())
            .expect("minimal PDF must open");
        // Either an error or a stream no longer than the file is acceptable.
        match pdf.get_object(4, 0) {
            Ok(PdfObject::Stream(s)) => {
                assert!(s.data.len() <= file_len, "body longer than the file");
                assert!(
                    s.data.starts_with(payload),
                    "body must start at the stream data"
                );
            }
            Ok(other) => panic!("expected a stream or an error, got {other:?}"),
            Err(_) => {}
        }
    }
}

/// J2: `read_window_at(reader, offset, max)` allocated `max` bytes up front; on
/// the manual reconstruction path `max` is the `/Length` read from the file.
#[test]
fn j2_read_window_at_huge_length() {
    if is_child("j2_read_window_at_huge_length") {
        j2_scenario();
        return;
    }
    assert_child_survives("j2_read_window_at_huge_length");
}
