//! Demonstrations for group G (text strings).
//!
//! G1: `Object::String` values holding non-ASCII text must be written as PDF
//!     text strings (PDFDocEncoding or UTF-16BE with a `FE FF` byte order
//!     mark, ISO 32000-1 §7.9.2.2), not as raw UTF-8.
//! G2: `IncrementalFormFiller` must write the new `/V` as a PDF text string.

use oxidize_pdf::annotations::{Annotation, AnnotationType};
use oxidize_pdf::forms::{FormManager, TextField, Widget, WidgetAppearance};
use oxidize_pdf::geometry::{Point, Rectangle};
use oxidize_pdf::parser::objects::{PdfDictionary, PdfObject};
use oxidize_pdf::parser::PdfReader;
use oxidize_pdf::structure::{OutlineBuilder, OutlineItem};
use oxidize_pdf::writer::{IncrementalFormFiller, WriterConfig};
use oxidize_pdf::{Document, Page};
use std::io::Cursor;

const TITLE: &str = "Año 日本語 (título)";
const AUTHOR: &str = "José Ñandú";
const OUTLINE: &str = "Capítulo 1 — 序章";
const FIELD_VALUE: &str = "Año 日本";
const CONTENTS: &str = "Revisión: 日本語 \\ (nota)";

/// Collect `(key, decoded text)` for every string-valued dictionary entry in
/// the object (recursing into nested dictionaries and arrays).
fn collect_text_entries(obj: &PdfObject, out: &mut Vec<(String, String)>) {
    fn walk_dict(dict: &PdfDictionary, out: &mut Vec<(String, String)>) {
        for (key, value) in dict.0.iter() {
            if let PdfObject::String(s) = value {
                out.push((key.0.clone(), s.to_text()));
            }
            collect_text_entries(value, out);
        }
    }
    match obj {
        PdfObject::Dictionary(dict) => walk_dict(dict, out),
        PdfObject::Stream(stream) => walk_dict(&stream.dict, out),
        PdfObject::Array(arr) => {
            for item in arr.0.iter() {
                collect_text_entries(item, out);
            }
        }
        _ => {}
    }
}

/// Every `(key, decoded text)` pair found in any indirect object of the file.
fn all_text_entries(bytes: &[u8]) -> Vec<(String, String)> {
    let mut reader = PdfReader::new(Cursor::new(bytes)).expect("re-open written PDF");
    let size = reader.trailer().size().expect("/Size");
    let mut out = Vec::new();
    for num in 1..size {
        if let Ok(obj) = reader.get_object(num, 0) {
            let obj = obj.clone();
            collect_text_entries(&obj, &mut out);
        }
    }
    out
}

fn has_entry(entries: &[(String, String)], key: &str, text: &str) -> bool {
    entries.iter().any(|(k, v)| k == key && v == text)
}

fn utf16be_bom(text: &str) -> Vec<u8> {
    let mut bytes = vec![0xFE, 0xFF];
    for unit in text.encode_utf16() {
        bytes.extend_from_slice(&unit.to_be_bytes());
    }
    bytes
}

fn contains(haystack: &[u8], needle: &[u8]) -> bool {
    haystack.windows(needle.len()).any(|w| w == needle)
}

fn build_document() -> Document {
    let mut doc = Document::new();
    doc.set_title(TITLE);
    doc.set_author(AUTHOR);

    let mut page = Page::a4();

    // Text form field carrying a non-ASCII value.
    let mut fm = FormManager::new();
    let rect = Rectangle::new(Point::new(100.0, 700.0), Point::new(300.0, 720.0));
    let widget = Widget::new(rect).with_appearance(WidgetAppearance::default());
    let field = TextField::new("nombre").with_value(FIELD_VALUE);
    let field_ref = fm
        .add_text_field(field, widget.clone(), None)
        .expect("add_text_field");
    page.add_form_widget_with_ref(widget, field_ref)
        .expect("add_form_widget_with_ref");

    // Annotation with non-ASCII contents.
    let note_rect = Rectangle::new(Point::new(50.0, 600.0), Point::new(70.0, 620.0));
    page.add_annotation(Annotation::new(AnnotationType::Text, note_rect).with_contents(CONTENTS));

    doc.add_page(page);
    doc.set_form_manager(fm);

    let mut outline = OutlineBuilder::new();
    outline.add_item(OutlineItem::new(OUTLINE));
    doc.set_outline(outline.build());

    doc
}

fn assert_round_trip(bytes: &[u8], label: &str) {
    let mut reader = PdfReader::new(Cursor::new(bytes)).expect("re-open written PDF");
    let metadata = reader.metadata().expect("metadata");
    assert_eq!(metadata.title.as_deref(), Some(TITLE), "{label}: /Title");
    assert_eq!(metadata.author.as_deref(), Some(AUTHOR), "{label}: /Author");

    let entries = all_text_entries(bytes);
    assert!(
        has_entry(&entries, "Title", OUTLINE),
        "{label}: outline /Title must decode to {OUTLINE:?}; got {:?}",
        entries
            .iter()
            .filter(|(k, _)| k == "Title")
            .collect::<Vec<_>>()
    );
    assert!(
        has_entry(&entries, "V", FIELD_VALUE),
        "{label}: field /V must decode to {FIELD_VALUE:?}; got {:?}",
        entries.iter().filter(|(k, _)| k == "V").collect::<Vec<_>>()
    );
    assert!(
        has_entry(&entries, "Contents", CONTENTS),
        "{label}: annotation /Contents must decode to {CONTENTS:?}; got {:?}",
        entries
            .iter()
            .filter(|(k, _)| k == "Contents")
            .collect::<Vec<_>>()
    );
}

#[test]
fn g1_text_strings_written_as_raw_utf8() {
    // Classic layout (plain objects, classic xref): `write_object_value`.
    let bytes = build_document().to_bytes().expect("serialize");
    assert_round_trip(&bytes, "legacy");

    // The raw file must not carry the text as a UTF-8 literal string ...
    for text in [AUTHOR, FIELD_VALUE] {
        let mut raw = vec![b'('];
        raw.extend_from_slice(text.as_bytes());
        raw.push(b')');
        assert!(
            !contains(&bytes, &raw),
            "raw UTF-8 literal string for {text:?} must not be written"
        );
    }
    // ... but in its UTF-16BE + BOM form (hex string or literal string).
    for text in [AUTHOR, FIELD_VALUE] {
        let encoded = utf16be_bom(text);
        let hex: String = encoded.iter().map(|b| format!("{b:02X}")).collect();
        assert!(
            contains(&bytes, hex.as_bytes()) || contains(&bytes, &encoded),
            "UTF-16BE+BOM form of {text:?} must be present in the output"
        );
    }

    // Object streams + xref stream: `write_object_value_to_buffer`.
    let bytes = build_document()
        .to_bytes_with_config(WriterConfig::modern())
        .expect("serialize modern");
    assert_round_trip(&bytes, "modern");
}

#[test]
fn g1_text_strings_encrypted_document() {
    // With encryption the strings go through `ObjectEncryptor::encrypt_object`
    // before serialisation; the plaintext must be a PDF text string as well.
    let mut doc = Document::new();
    doc.set_title(TITLE);
    doc.set_author(AUTHOR);
    doc.add_page(Page::a4());
    doc.encrypt_with_passwords("user", "owner");
    let bytes = doc.to_bytes().expect("serialize encrypted");

    let mut reader = PdfReader::new(Cursor::new(bytes.as_slice())).expect("re-open");
    assert!(reader.is_encrypted());
    reader.unlock("user").expect("unlock");
    let metadata = reader.metadata().expect("metadata");
    assert_eq!(metadata.title.as_deref(), Some(TITLE), "encrypted /Title");
    assert_eq!(
        metadata.author.as_deref(),
        Some(AUTHOR),
        "encrypted /Author"
    );
}

#[test]
fn g1_ascii_strings_stay_literal() {
    let mut doc = Document::new();
    doc.set_title("Plain (ASCII) title");
    doc.add_page(Page::a4());
    let bytes = doc.to_bytes().expect("serialize");
    assert!(
        contains(&bytes, b"(Plain \\(ASCII\\) title)"),
        "ASCII text strings must stay byte-identical literal strings"
    );
}

/// Single-page PDF with one empty text field `name`.
fn build_base_pdf_with_field(name: &str) -> Vec<u8> {
    let mut doc = Document::new();
    let mut page = Page::a4();
    let mut fm = FormManager::new();
    let rect = Rectangle::new(Point::new(100.0, 700.0), Point::new(300.0, 720.0));
    let widget = Widget::new(rect).with_appearance(WidgetAppearance::default());
    let field_ref = fm
        .add_text_field(TextField::new(name), widget.clone(), None)
        .expect("add_text_field");
    page.add_form_widget_with_ref(widget, field_ref)
        .expect("add_form_widget_with_ref");
    doc.add_page(page);
    doc.set_form_manager(fm);
    doc.to_bytes().expect("serialize base document")
}

#[test]
fn g2_incremental_form_fill_value_encoding() {
    let base = build_base_pdf_with_field("campo");

    // Representable in WinAnsi, so the synthesized appearance is fine too.
    let value = "Año Ñandú";
    let filled = IncrementalFormFiller::new(&base)
        .fill("campo", value)
        .expect("fill");
    let entries = all_text_entries(&filled);
    assert!(
        has_entry(&entries, "V", value),
        "/V must decode to {value:?}; got {:?}",
        entries.iter().filter(|(k, _)| k == "V").collect::<Vec<_>>()
    );
    let appended = &filled[base.len()..];
    let mut raw = vec![b'('];
    raw.extend_from_slice(value.as_bytes());
    raw.push(b')');
    assert!(
        !contains(appended, &raw),
        "/V must not be written as a raw UTF-8 literal string"
    );

    // The appearance stream must still show the text (WinAnsi bytes).
    assert!(
        contains(appended, b"(A\\361o \\321and\\372) Tj"),
        "appearance text must be the WinAnsi encoding of the value: {}",
        String::from_utf8_lossy(appended)
    );

    // CJK value on a field without any widget (no appearance to synthesize).
    let objects: Vec<&[u8]> = vec![
        b"<< /Type /Catalog /Pages 2 0 R /AcroForm 5 0 R >>",
        b"<< /Type /Pages /Kids [3 0 R] /Count 1 >>",
        b"<< /Type /Page /Parent 2 0 R /MediaBox [0 0 612 792] >>",
        b"<< /FT /Tx /T (campo) >>",
        b"<< /Fields [4 0 R] >>",
    ];
    let mut pdf = Vec::from(&b"%PDF-1.7\n"[..]);
    let mut offsets = Vec::new();
    for (i, body) in objects.iter().enumerate() {
        offsets.push(pdf.len());
        pdf.extend_from_slice(format!("{} 0 obj\n", i + 1).as_bytes());
        pdf.extend_from_slice(body);
        pdf.extend_from_slice(b"\nendobj\n");
    }
    let xref_offset = pdf.len();
    pdf.extend_from_slice(
        format!("xref\n0 {}\n0000000000 65535 f \n", objects.len() + 1).as_bytes(),
    );
    for offset in &offsets {
        pdf.extend_from_slice(format!("{offset:010} 00000 n \n").as_bytes());
    }
    pdf.extend_from_slice(
        format!(
            "trailer\n<< /Size {} /Root 1 0 R >>\nstartxref\n{}\n%%EOF\n",
            objects.len() + 1,
            xref_offset
        )
        .as_bytes(),
    );

    let filled = IncrementalFormFiller::new(&pdf)
        .fill("campo", FIELD_VALUE)
        .expect("fill CJK value");
    let entries = all_text_entries(&filled);
    assert!(
        has_entry(&entries, "V", FIELD_VALUE),
        "/V must decode to {FIELD_VALUE:?}; got {:?}",
        entries.iter().filter(|(k, _)| k == "V").collect::<Vec<_>>()
    );
}
