//! Demonstrations for stream filter defects (group A).

use flate2::write::ZlibEncoder;
use flate2::Compression;
use oxidize_pdf::parser::filter_impls::halftone_region::{decode_pattern_dict, PatternDictFlags};
use oxidize_pdf::parser::filters::{decode_stream, decode_stream_with_limit};
use oxidize_pdf::parser::objects::{PdfDictionary, PdfName, PdfObject};
use oxidize_pdf::parser::ParseOptions;
use std::io::Write;

fn zlib(data: &[u8]) -> Vec<u8> {
    let mut encoder = ZlibEncoder::new(Vec::new(), Compression::default());
    encoder.write_all(data).unwrap();
    encoder.finish().unwrap()
}

fn flate_dict(predictor: i64, colors: i64, bpc: i64, columns: i64) -> PdfDictionary {
    let mut parms = PdfDictionary::new();
    parms.insert("Predictor".to_string(), PdfObject::Integer(predictor));
    parms.insert("Colors".to_string(), PdfObject::Integer(colors));
    parms.insert("BitsPerComponent".to_string(), PdfObject::Integer(bpc));
    parms.insert("Columns".to_string(), PdfObject::Integer(columns));

    let mut dict = PdfDictionary::new();
    dict.insert(
        "Filter".to_string(),
        PdfObject::Name(PdfName::new("FlateDecode".to_string())),
    );
    dict.insert("DecodeParms".to_string(), PdfObject::Dictionary(parms));
    dict
}

/// TIFF horizontal differencing for 8-bit samples.
fn tiff_encode_8(samples: &[u8], colors: usize, columns: usize) -> Vec<u8> {
    let row_bytes = colors * columns;
    let mut out = samples.to_vec();
    for row in out.chunks_mut(row_bytes) {
        for i in (colors..row.len()).rev() {
            row[i] = row[i].wrapping_sub(row[i - colors]);
        }
    }
    out
}

#[test]
fn a1_tiff_predictor() {
    // 2 rows, 4 columns, 3 colour components, 8 bits per component
    let original: Vec<u8> = vec![
        10, 20, 30, 11, 22, 33, 15, 18, 40, 200, 250, 5, // row 0
        1, 2, 3, 255, 0, 128, 7, 7, 7, 9, 100, 90, // row 1
    ];
    let predicted = tiff_encode_8(&original, 3, 4);
    assert_ne!(predicted, original);
    let compressed = zlib(&predicted);
    let dict = flate_dict(2, 3, 8, 4);

    let decoded = decode_stream(&compressed, &dict, &ParseOptions::default()).unwrap();
    assert_eq!(decoded, original, "unbounded path must undo TIFF predictor");

    let decoded =
        decode_stream_with_limit(&compressed, &dict, &ParseOptions::default(), 1 << 20).unwrap();
    assert_eq!(decoded, original, "bounded path must undo TIFF predictor");

    // 16-bit samples: 1 row, 2 columns, 2 components, big-endian
    let samples: [u16; 4] = [0x0102, 0xFFF0, 0x0201, 0x0010];
    let mut diffed = samples;
    diffed[2] = samples[2].wrapping_sub(samples[0]);
    diffed[3] = samples[3].wrapping_sub(samples[1]);
    let original16: Vec<u8> = samples.iter().flat_map(|s| s.to_be_bytes()).collect();
    let predicted16: Vec<u8> = diffed.iter().flat_map(|s| s.to_be_bytes()).collect();
    let dict16 = flate_dict(2, 2, 16, 2);
    let decoded = decode_stream_with_limit(
        &zlib(&predicted16),
        &dict16,
        &ParseOptions::default(),
        1 << 20,
    )
    .unwrap();
    assert_eq!(decoded, original16, "16-bit TIFF predictor");
}

#[test]
fn a2_ascii85_overflow() {
    let mut dict = PdfDictionary::new();
    dict.insert(
        "Filter".to_string(),
        PdfObject::Name(PdfName::new("ASCII85Decode".to_string())),
    );
    let opts = ParseOptions::default();

    // Largest legal group still decodes
    assert_eq!(
        decode_stream(b"<~s8W-!~>", &dict, &opts).unwrap(),
        vec![0xFF, 0xFF, 0xFF, 0xFF]
    );

    for input in [&b"<~uuuuu~>"[..], b"<~s8W-\"~>", b"<~uuuu~>", b"<~s8W.~>"] {
        let input = input.to_vec();
        let dict = dict.clone();
        let shown = String::from_utf8_lossy(&input).to_string();
        let outcome = std::panic::catch_unwind(move || {
            decode_stream(&input, &dict, &ParseOptions::default())
        });
        match outcome {
            Ok(result) => assert!(result.is_err(), "{shown} must be rejected"),
            Err(_) => panic!("decoding {shown} panicked"),
        }
    }
}

#[test]
fn a3_png_predictor_geometry_overflow() {
    let compressed = zlib(&[0u8, 1, 2, 3, 4, 5, 6, 7]);

    for (colors, bpc, columns) in [(-1i64, 16i64, 1i64), (1, -8, 1), (1, 8, -1), (0, 8, 1)] {
        let dict = flate_dict(12, colors, bpc, columns);
        let data = compressed.clone();
        let outcome = std::panic::catch_unwind(move || {
            let opts = ParseOptions::default();
            let bounded = decode_stream_with_limit(&data, &dict, &opts, 1 << 20);
            let unbounded = decode_stream(&data, &dict, &opts);
            (bounded, unbounded)
        });
        let (bounded, _unbounded) = outcome.unwrap_or_else(|_| {
            panic!("PNG predictor panicked for Colors={colors} BPC={bpc} Columns={columns}")
        });
        assert!(
            bounded.is_err(),
            "invalid predictor geometry must be an error in the bounded path"
        );
    }
}

#[test]
fn a4_jbig2_pattern_dict_gray_max_overflow() {
    // flags=0 (arith, template 0), 1x1 patterns, gray_max = 0xFFFF_FFFF
    let mut header = vec![0u8, 1, 1];
    header.extend_from_slice(&u32::MAX.to_be_bytes());
    let flags = PatternDictFlags::from_bytes(&header).unwrap();
    assert_eq!(flags.gray_max, u32::MAX);

    let outcome = std::panic::catch_unwind(move || decode_pattern_dict(&[0u8; 16], &flags));
    match outcome {
        Ok(result) => assert!(result.is_err(), "gray_max = u32::MAX must be rejected"),
        Err(_) => panic!("decode_pattern_dict panicked on gray_max = u32::MAX"),
    }
}
