//! Demonstrations for defect group H.

use oxidize_pdf::parser::PdfDocument;
use oxidize_pdf::text::Font;
use oxidize_pdf::writer::{PdfWriter, WriterConfig};
use oxidize_pdf::{Document, Page};
use std::io::BufWriter;
use std::path::Path;

fn page_with_text(text: &str) -> Page {
    let mut page = Page::a4();
    page.text()
        .set_font(Font::Helvetica, 12.0)
        .at(72.0, 700.0)
        .write(text)
        .unwrap();
    page
}

fn save_base(path: &Path, texts: &[&str]) {
    let mut doc = Document::new();
    doc.set_title("Base");
    for t in texts {
        doc.add_page(page_with_text(t));
    }
    doc.save(path).unwrap();
}

/// `/Size` of the last trailer found in `bytes`.
fn last_trailer_size(bytes: &[u8]) -> u32 {
    let s = String::from_utf8_lossy(bytes);
    let trailer = &s[s.rfind("trailer").expect("trailer")..];
    let after = &trailer[trailer.find("/Size").expect("/Size") + 5..];
    after
        .trim_start()
        .chars()
        .take_while(|c| c.is_ascii_digit())
        .collect::<String>()
        .parse()
        .unwrap()
}

/// Object numbers marked in-use by the last classic xref table of `bytes`.
fn last_xref_in_use(bytes: &[u8]) -> Vec<u32> {
    let s = String::from_utf8_lossy(bytes);
    let start = s.rfind("\nxref\n").expect("xref table") + 6;
    let mut lines = s[start..].lines();
    let mut out = Vec::new();
    while let Some(line) = lines.next() {
        let parts: Vec<&str> = line.split_whitespace().collect();
        if parts.len() != 2 {
            break; // "trailer"
        }
        let first: u32 = parts[0].parse().unwrap();
        let count: u32 = parts[1].parse().unwrap();
        for i in 0..count {
            let entry = lines.next().expect("xref entry");
            if entry.trim_end().ends_with('n') {
                out.push(first + i);
            }
        }
    }
    out
}

fn page_texts(path: &Path) -> Vec<String> {
    let doc = PdfDocument::open(path).unwrap();
    doc.extract_text()
        .unwrap()
        .into_iter()
        .map(|t| t.text.trim().to_string())
        .collect()
}

fn assert_update_uses_fresh_numbers(base: &Path, updated: &Path) {
    let base_bytes = std::fs::read(base).unwrap();
    let updated_bytes = std::fs::read(updated).unwrap();
    assert_eq!(&updated_bytes[..base_bytes.len()], &base_bytes[..]);
    let base_size = last_trailer_size(&base_bytes);
    let redefined: Vec<u32> = last_xref_in_use(&updated_bytes)
        .into_iter()
        .filter(|n| *n < base_size)
        .collect();
    assert!(
        redefined.is_empty(),
        "update section redefines base objects {redefined:?} (base /Size {base_size})"
    );
    assert!(last_trailer_size(&updated_bytes) > base_size);
}

#[test]
fn h1_incremental_update_reuses_object_numbers() {
    let dir = tempfile::TempDir::new().unwrap();
    let base = dir.path().join("base.pdf");
    let updated = dir.path().join("updated.pdf");
    save_base(&base, &["BASE PAGE ONE", "BASE PAGE TWO"]);

    let mut update_doc = Document::new();
    update_doc.add_page(page_with_text("ADDED PAGE"));
    let mut writer = PdfWriter::with_config(
        BufWriter::new(std::fs::File::create(&updated).unwrap()),
        WriterConfig::incremental(),
    );
    writer
        .write_incremental_update(&base, &mut update_doc)
        .unwrap();
    drop(writer);

    assert_update_uses_fresh_numbers(&base, &updated);
    assert_eq!(
        page_texts(&updated),
        vec!["BASE PAGE ONE", "BASE PAGE TWO", "ADDED PAGE"]
    );
}

#[test]
fn h1_incremental_page_replacement_reuses_object_numbers() {
    let dir = tempfile::TempDir::new().unwrap();
    let base = dir.path().join("base.pdf");
    let updated = dir.path().join("updated.pdf");
    save_base(
        &base,
        &["BASE PAGE ONE", "BASE PAGE TWO", "BASE PAGE THREE"],
    );

    let mut update_doc = Document::new();
    update_doc.add_page(page_with_text("REPLACEMENT"));
    let mut writer = PdfWriter::with_config(
        BufWriter::new(std::fs::File::create(&updated).unwrap()),
        WriterConfig::incremental(),
    );
    writer
        .write_incremental_with_page_replacement(&base, &mut update_doc)
        .unwrap();
    drop(writer);

    assert_update_uses_fresh_numbers(&base, &updated);
    assert_eq!(
        page_texts(&updated),
        vec!["REPLACEMENT", "BASE PAGE TWO", "BASE PAGE THREE"]
    );
}

#[test]
fn h1_incremental_overlay_reuses_object_numbers() {
    let dir = tempfile::TempDir::new().unwrap();
    let base = dir.path().join("base.pdf");
    let updated = dir.path().join("updated.pdf");
    save_base(&base, &["BASE PAGE ONE", "BASE PAGE TWO"]);

    let mut writer = PdfWriter::with_config(
        BufWriter::new(std::fs::File::create(&updated).unwrap()),
        WriterConfig::incremental(),
    );
    writer
        .write_incremental_with_overlay(&base, |page| {
            page.text()
                .set_font(Font::Helvetica, 12.0)
                .at(72.0, 600.0)
                .write("OVERLAY")?;
            Ok(())
        })
        .unwrap();
    drop(writer);

    assert_update_uses_fresh_numbers(&base, &updated);
    let texts = page_texts(&updated);
    assert_eq!(texts.len(), 2);
    assert!(texts[0].contains("BASE PAGE ONE") && texts[0].contains("OVERLAY"));
    assert!(texts[1].contains("BASE PAGE TWO") && texts[1].contains("OVERLAY"));
}

#[test]
fn h3_page_label_number_overflow() {
    use oxidize_pdf::{PageLabel, PageLabelTree};

    // Non-overflowing labels are unchanged.
    let label = PageLabel::decimal()
        .with_prefix("P-")
        .starting_at(u32::MAX - 1);
    assert_eq!(label.format_label(0), "P-4294967294");
    assert_eq!(label.format_label(1), "P-4294967295");

    // Second page of a range whose first number is u32::MAX.
    let label = PageLabel::decimal().starting_at(u32::MAX);
    assert_eq!(label.format_label(0), "4294967295");
    let second = std::panic::catch_unwind(|| label.format_label(1))
        .expect("format_label must not panic on numeric overflow");
    assert_eq!(second, "4294967295");

    // Same through the label tree.
    let mut tree = PageLabelTree::new();
    tree.add_range(0, PageLabel::decimal().starting_at(u32::MAX));
    let got = std::panic::catch_unwind(|| tree.get_label(3))
        .expect("get_label must not panic on numeric overflow");
    assert_eq!(got.as_deref(), Some("4294967295"));
}

/// ISO 32000-1 Annex D.2: MacRomanEncoding code 333 (0xDB) is `currency`
/// (U+00A4); MacRomanEncoding has no Euro.
///
/// Not fixed: the existing unit test
/// `text::encoding::tests::test_mac_roman_decode_high_range` asserts
/// `0xDB -> U+20AC`, so the fix is blocked by that test.
#[test]
#[ignore = "blocked by existing test text::encoding::tests::test_mac_roman_decode_high_range"]
fn h4_macroman_byte_0xdb_is_currency() {
    use oxidize_pdf::text::TextEncoding;

    let enc = TextEncoding::MacRomanEncoding;
    assert_eq!(enc.decode(&[0xDB]), "\u{00A4}");
    assert_eq!(enc.encode("\u{00A4}"), vec![0xDB]);
    assert_eq!(enc.encode_strict("\u{00A4}"), Ok(vec![0xDB]));
    assert!(enc.encode_strict("\u{20AC}").is_err());
}

fn find_bytes(haystack: &[u8], needle: &[u8]) -> Option<usize> {
    haystack.windows(needle.len()).position(|w| w == needle)
}

fn rfind_bytes(haystack: &[u8], needle: &[u8]) -> Option<usize> {
    haystack.windows(needle.len()).rposition(|w| w == needle)
}

/// Object number of `/<key> N 0 R` in `dict_text`.
fn ref_number(dict_text: &str, key: &str) -> u32 {
    let after = &dict_text[dict_text.find(key).unwrap_or_else(|| panic!("{key}")) + key.len()..];
    after
        .trim_start()
        .chars()
        .take_while(|c| c.is_ascii_digit())
        .collect::<String>()
        .parse()
        .unwrap()
}

/// An AES-128 (V4) file whose strings are left in clear (`/StrF /Identity`)
/// while streams stay encrypted (`/StmF /StdCF`): take a file written by this
/// crate and append an incremental update that redefines the /Encrypt
/// dictionary with `/StrF /Identity` and the /Info dictionary with a
/// plaintext title.
#[test]
fn h5_reader_honours_strf_identity() {
    use oxidize_pdf::document::{DocumentEncryption, EncryptionStrength};
    use oxidize_pdf::encryption::Permissions;
    use oxidize_pdf::parser::PdfReader;
    use std::io::Cursor;

    let mut doc = Document::new();
    doc.set_title("Encrypted Title");
    doc.add_page(page_with_text("STREAM TEXT"));
    doc.set_encryption(DocumentEncryption::new(
        "user",
        "owner",
        Permissions::all(),
        EncryptionStrength::Aes128,
    ));
    let mut buf = Vec::new();
    PdfWriter::new_with_writer(&mut buf)
        .write_document(&mut doc)
        .unwrap();

    // Sanity: the unmodified file round-trips.
    {
        let mut reader = PdfReader::new(Cursor::new(buf.clone())).unwrap();
        reader.unlock("user").unwrap();
        assert_eq!(
            reader.metadata().unwrap().title.as_deref(),
            Some("Encrypted Title")
        );
    }

    // Base trailer facts.
    let trailer_pos = rfind_bytes(&buf, b"trailer").expect("trailer");
    let tail = String::from_utf8_lossy(&buf[trailer_pos..]).to_string();
    let dict_start = tail.find("<<").unwrap() + 2;
    let dict_end = tail.rfind(">>").unwrap();
    let trailer_inner = tail[dict_start..dict_end].to_string();
    let base_startxref: u64 = tail[tail.find("startxref").unwrap() + 9..]
        .trim_start()
        .chars()
        .take_while(|c| c.is_ascii_digit())
        .collect::<String>()
        .parse()
        .unwrap();
    let encrypt_num = ref_number(&trailer_inner, "/Encrypt");
    let info_num = ref_number(&trailer_inner, "/Info");

    // Copy the /Encrypt object, switching the string filter to Identity.
    let header = format!("\n{encrypt_num} 0 obj");
    let obj_start = find_bytes(&buf, header.as_bytes()).expect("encrypt object") + 1;
    let obj_end = obj_start + find_bytes(&buf[obj_start..], b"endobj").unwrap() + 6;
    let mut encrypt_obj = buf[obj_start..obj_end].to_vec();
    let strf = find_bytes(&encrypt_obj, b"/StrF /StdCF").expect("writer emits /StrF /StdCF");
    encrypt_obj.splice(strf..strf + 12, b"/StrF /Identity".iter().copied());
    assert!(find_bytes(&encrypt_obj, b"/StmF /StdCF").is_some());

    // Append the update section.
    let mut out = buf.clone();
    if !out.ends_with(b"\n") {
        out.push(b'\n');
    }
    let encrypt_off = out.len();
    out.extend_from_slice(&encrypt_obj);
    out.push(b'\n');
    let info_off = out.len();
    out.extend_from_slice(
        format!("{info_num} 0 obj\n<< /Title (Plain Title) >>\nendobj\n").as_bytes(),
    );
    let xref_off = out.len();
    let mut entries = vec![(encrypt_num, encrypt_off), (info_num, info_off)];
    entries.sort();
    out.extend_from_slice(b"xref\n");
    for (num, off) in entries {
        out.extend_from_slice(format!("{num} 1\n{off:010} 00000 n \n").as_bytes());
    }
    out.extend_from_slice(
        format!(
            "trailer\n<<{trailer_inner} /Prev {base_startxref} >>\nstartxref\n{xref_off}\n%%EOF\n"
        )
        .as_bytes(),
    );

    let mut reader = PdfReader::new(Cursor::new(out)).expect("patched file parses");
    assert!(reader.is_encrypted());
    reader
        .unlock("user")
        .expect("unlocks with the user password");
    let title = reader
        .metadata()
        .expect("metadata of a file with /StrF /Identity")
        .title;
    assert_eq!(title.as_deref(), Some("Plain Title"));

    // Streams are still encrypted (/StmF /StdCF) and must still be decrypted.
    let texts: Vec<String> = reader
        .into_document()
        .extract_text()
        .unwrap()
        .into_iter()
        .map(|t| t.text.trim().to_string())
        .collect();
    assert_eq!(texts, vec!["STREAM TEXT"]);
}

/// One-page PDF whose MediaBox has a non-zero origin and that has a CropBox.
fn pdf_with_offset_boxes() -> Vec<u8> {
    let content = "BT /F1 12 Tf 100 700 Td (BOXED) Tj ET";
    let objects = [
        "<< /Type /Catalog /Pages 2 0 R >>".to_string(),
        "<< /Type /Pages /Kids [3 0 R] /Count 1 >>".to_string(),
        "<< /Type /Page /Parent 2 0 R /MediaBox [10 20 610 820] /CropBox [50 60 500 700] \
         /Contents 4 0 R /Resources << /Font << /F1 5 0 R >> >> >>"
            .to_string(),
        format!(
            "<< /Length {} >>\nstream\n{content}\nendstream",
            content.len()
        ),
        "<< /Type /Font /Subtype /Type1 /BaseFont /Helvetica >>".to_string(),
    ];
    let mut out = b"%PDF-1.4\n".to_vec();
    let mut offsets = Vec::new();
    for (i, body) in objects.iter().enumerate() {
        offsets.push(out.len());
        out.extend_from_slice(format!("{} 0 obj\n{body}\nendobj\n", i + 1).as_bytes());
    }
    let xref = out.len();
    out.extend_from_slice(
        format!("xref\n0 {}\n0000000000 65535 f \n", objects.len() + 1).as_bytes(),
    );
    for off in offsets {
        out.extend_from_slice(format!("{off:010} 00000 n \n").as_bytes());
    }
    out.extend_from_slice(
        format!(
            "trailer\n<< /Size {} /Root 1 0 R >>\nstartxref\n{xref}\n%%EOF\n",
            objects.len() + 1
        )
        .as_bytes(),
    );
    out
}

#[test]
fn h6_page_boxes_survive_rebuild() {
    use oxidize_pdf::operations::extract_page;
    use oxidize_pdf::parser::PdfReader;
    use std::io::Cursor;

    let dir = tempfile::TempDir::new().unwrap();
    let src = dir.path().join("boxes.pdf");
    std::fs::write(&src, pdf_with_offset_boxes()).unwrap();

    // Sanity: the parser sees the boxes of the source file.
    {
        let doc = PdfDocument::open(&src).unwrap();
        let page = doc.get_page(0).unwrap();
        assert_eq!(page.media_box, [10.0, 20.0, 610.0, 820.0]);
        assert_eq!(page.crop_box, Some([50.0, 60.0, 500.0, 700.0]));
    }

    // Extract the page into a new document (same path as split/merge/rotate).
    let mut extracted = extract_page(&src, 0).unwrap();
    let bytes = extracted.to_bytes().unwrap();

    let doc = PdfReader::new(Cursor::new(bytes)).unwrap().into_document();
    let page = doc.get_page(0).unwrap();
    assert_eq!(
        page.media_box,
        [10.0, 20.0, 610.0, 820.0],
        "MediaBox origin must be kept, otherwise the content is shifted"
    );
    assert_eq!(
        page.crop_box,
        Some([50.0, 60.0, 500.0, 700.0]),
        "CropBox must be kept"
    );

    // Page::from_parsed keeps them too, and the page size is unchanged.
    let src_doc = PdfDocument::open(&src).unwrap();
    let rebuilt = Page::from_parsed(&src_doc.get_page(0).unwrap()).unwrap();
    assert_eq!((rebuilt.width(), rebuilt.height()), (600.0, 800.0));
    let mut out = Document::new();
    out.add_page(rebuilt);
    let doc = PdfReader::new(Cursor::new(out.to_bytes().unwrap()))
        .unwrap()
        .into_document();
    let page = doc.get_page(0).unwrap();
    assert_eq!(page.media_box, [10.0, 20.0, 610.0, 820.0]);
    assert_eq!(page.crop_box, Some([50.0, 60.0, 500.0, 700.0]));
}
