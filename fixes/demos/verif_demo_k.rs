//! Demonstrations for group K: JBIG2 decoders accumulate entropy-decoded
//! integers into `i32` state with plain `+` / `*`.  A crafted segment makes the
//! accumulators overflow, which panics in builds with overflow checks instead
//! of yielding a decode error.

use oxidize_pdf::parser::filter_impls::bitstream::BitstreamReader;
use oxidize_pdf::parser::filter_impls::generic_region::Bitmap;
use oxidize_pdf::parser::filter_impls::huffman::{HuffmanDecoder, StandardTable};
use oxidize_pdf::parser::filter_impls::symbol_dict::{decode_symbol_dict, SymbolDictParams};
use oxidize_pdf::parser::filter_impls::text_region::{
    decode_text_region, TextRegionFlags, TextRegionParams,
};
use std::sync::Arc;

/// MSB-first bit writer used to hand-build Huffman coded text regions.
struct BitWriter {
    bytes: Vec<u8>,
    nbits: usize,
}

impl BitWriter {
    fn new() -> Self {
        Self {
            bytes: Vec::new(),
            nbits: 0,
        }
    }

    fn put(&mut self, value: u32, len: u8) {
        for i in (0..len).rev() {
            if self.nbits % 8 == 0 {
                self.bytes.push(0);
            }
            if (value >> i) & 1 != 0 {
                *self.bytes.last_mut().unwrap() |= 0x80 >> (self.nbits % 8);
            }
            self.nbits += 1;
        }
    }

    /// Emit `range_low + extra` using the positive 32-bit extension line of a
    /// standard table (the library's own compiled code for that line).
    fn put_upper(&mut self, table: StandardTable, extra: u32) {
        let compiled = HuffmanDecoder::new().get_compiled_standard_table(table);
        let (code, len, _) = compiled
            .entries()
            .iter()
            .find(|(_, _, e)| !e.is_oob && e.range_len == 32 && e.range_low > 0)
            .copied()
            .expect("table has a 32-bit upper range line");
        self.put(code, len);
        self.put(extra, 32);
    }

    /// Emit the shortest code of the table whose line starts at `low`,
    /// with all range bits zero (decodes to `low`).
    fn put_low(&mut self, table: StandardTable, low: i32) {
        let compiled = HuffmanDecoder::new().get_compiled_standard_table(table);
        let (code, len, e) = compiled
            .entries()
            .iter()
            .find(|(_, _, e)| !e.is_oob && e.range_low == low)
            .copied()
            .expect("table line");
        self.put(code, len);
        if e.range_len > 0 {
            self.put(0, e.range_len);
        }
    }

    fn put_oob(&mut self, table: StandardTable) {
        let compiled = HuffmanDecoder::new().get_compiled_standard_table(table);
        let (code, len, _) = compiled
            .entries()
            .iter()
            .find(|(_, _, e)| e.is_oob)
            .copied()
            .expect("table has OOB");
        self.put(code, len);
    }

    fn finish(mut self) -> Vec<u8> {
        // trailing padding so that the decoder never runs dry mid-value
        self.bytes.extend_from_slice(&[0u8; 8]);
        self.bytes
    }
}

fn symbols() -> Vec<Arc<Bitmap>> {
    vec![
        Arc::new(Bitmap::new_with_default(4, 6, 1).unwrap()),
        Arc::new(Bitmap::new_with_default(9, 3, 1).unwrap()),
    ]
}

fn text_params(
    huffman: bool,
    log_strip_size: u8,
    is_transposed: bool,
    ref_corner: u8,
    num_instances: u32,
) -> TextRegionParams {
    TextRegionParams {
        flags: TextRegionFlags {
            uses_huffman: huffman,
            log_strip_size,
            is_transposed,
            ref_corner,
            ..Default::default()
        },
        width: 64,
        height: 64,
        num_instances,
        symbol_id_codewidth: 1,
        available_symbols: symbols(),
        ..Default::default()
    }
}

/// Huffman text region: every accumulation site fed with a 32-bit magnitude.
#[test]
fn k1_text_region_huffman() {
    const DT: StandardTable = StandardTable::B11;
    const FS: StandardTable = StandardTable::B6;
    const DS: StandardTable = StandardTable::B8;
    const BIG: u32 = 0x7FFF_F000;
    let mut cases: Vec<(&str, Vec<u8>, TextRegionParams)> = Vec::new();

    // (a) `dt * strip_size`: one DT of 140 + 0x4000_0000 with strip size 2
    let mut w = BitWriter::new();
    w.put_upper(DT, 0x4000_0000);
    let data = w.finish();
    cases.push((
        "dt * strip_size overflow must be a decode error",
        data,
        text_params(true, 1, false, 0, 4),
    ));

    // (b) `stript += dt`: two strips (strip size 1), each DT = 140 + BIG
    let mut w = BitWriter::new();
    for _ in 0..2 {
        w.put_upper(DT, BIG); // DT
        w.put_low(FS, 0); // FS = 0
        w.put(0, 1); // symbol id 0
        w.put_oob(DS); // end of strip
    }
    let data = w.finish();
    cases.push((
        "stript overflow must be a decode error",
        data,
        text_params(true, 0, false, 0, 4),
    ));

    // (c) `first_s += fs`: two strips, each FS = 2048 + BIG
    let mut w = BitWriter::new();
    for _ in 0..2 {
        w.put_low(DT, 0); // DT = 0
        w.put_upper(FS, BIG); // FS
        w.put(0, 1); // symbol id 0
        w.put_oob(DS); // end of strip
    }
    let data = w.finish();
    cases.push((
        "first_s overflow must be a decode error",
        data,
        text_params(true, 0, true, 3, 4),
    ));

    // (d) `stript + curt`: strip size 2, stript = 2 * (140 + 0x3000_0000), CURT = 140 + BIG
    let mut w = BitWriter::new();
    w.put_upper(DT, 0x3000_0000); // DT
    w.put_low(FS, 0); // FS = 0
    w.put_upper(DT, BIG); // CURT (the decoder reads it with table B.11)
    w.put(0, 1); // symbol id 0
    let data = w.finish();
    cases.push((
        "stript + curt overflow must be a decode error",
        data,
        text_params(true, 1, false, 0, 4),
    ));

    // (e) `cur_s += ds`: FS = 2048 + BIG, then DS = 1670 + BIG
    let mut w = BitWriter::new();
    w.put_low(DT, 0); // DT = 0
    w.put_upper(FS, BIG); // FS
    w.put(0, 1); // symbol id 0
    w.put_upper(DS, BIG); // DS
    let data = w.finish();
    cases.push((
        "cur_s + ds overflow must be a decode error",
        data,
        text_params(true, 0, false, 1, 4),
    ));

    // (f) `cur_s += symbol width`: FS = 2048 + 0x7FFF_F7FC = i32::MAX - 3, DS = 0,
    //     symbol 0 is 4 pixels wide
    let mut w = BitWriter::new();
    w.put_low(DT, 0); // DT = 0
    w.put_upper(FS, 0x7FFF_F7FC); // FS
    w.put(0, 1); // symbol id 0
    w.put_low(DS, 0); // DS = 0
    let data = w.finish();
    cases.push((
        "cur_s + width overflow must be a decode error",
        data,
        text_params(true, 0, false, 0, 4),
    ));

    let mut failures = Vec::new();
    for (what, data, params) in &cases {
        match std::panic::catch_unwind(|| decode_text_region(data, params).is_err()) {
            Ok(true) => {}
            Ok(false) => failures.push(format!("{what} (returned Ok)")),
            Err(_) => failures.push(format!("{what} (panicked)")),
        }
    }
    assert!(failures.is_empty(), "{failures:#?}");

    // A well-formed strip still decodes: DT=0, FS=0, two instances with DS=4, then OOB
    let mut w = BitWriter::new();
    w.put_low(DT, 0);
    w.put_low(FS, 0);
    w.put(0, 1);
    w.put_low(DS, 4);
    w.put(1, 1);
    w.put_oob(DS);
    let data = w.finish();
    let bm = decode_text_region(&data, &text_params(true, 0, false, 0, 2)).unwrap();
    assert_eq!(bm.get_pixel(0, 0), 1); // symbol 0 at (0, 0)
    assert_eq!(bm.get_pixel(8, 0), 1); // symbol 1 at (4 + 4, 0)
    assert_eq!(bm.get_pixel(0, 7), 0);
}

/// Arithmetic text region: the integer decoder never signals OOB, so all
/// instances land in one strip and `cur_s += ds` runs `num_instances` times.
/// Input frozen from a deterministic xorshift search (first hit).
#[test]
fn k1_text_region_arith() {
    let data: [u8; 185] = [
        0x13, 0x23, 0x34, 0x1e, 0xa1, 0x02, 0xae, 0x31, 0x19, 0x38, 0xbe, 0x81, 0x4f, 0x31, 0x56,
        0x32, 0xdb, 0x60, 0xd5, 0x0b, 0xcf, 0x1c, 0xb6, 0xa1, 0xde, 0x93, 0x1c, 0x6d, 0x50, 0x38,
        0x42, 0xcd, 0x0a, 0x48, 0x5e, 0xaf, 0xe5, 0xfe, 0xfd, 0x03, 0xa5, 0xc5, 0x75, 0x06, 0x5f,
        0x7e, 0x14, 0xb1, 0xbf, 0x8f, 0x34, 0x9c, 0x59, 0xb4, 0x9f, 0x33, 0x04, 0xcb, 0x61, 0x07,
        0xd3, 0x16, 0x58, 0x01, 0x61, 0xd4, 0xa1, 0x65, 0x11, 0x15, 0x01, 0x01, 0x39, 0xd5, 0x6c,
        0x93, 0x1c, 0x88, 0xd7, 0x68, 0xf0, 0xc0, 0xe7, 0x03, 0xf0, 0xb0, 0x22, 0x92, 0xba, 0xb3,
        0x9c, 0xab, 0xa0, 0x68, 0xa9, 0x2c, 0x07, 0x57, 0x36, 0xba, 0x18, 0x5f, 0x21, 0xd4, 0x84,
        0x67, 0xd9, 0x7f, 0xfa, 0x39, 0x3b, 0xf0, 0x2b, 0x7e, 0xfd, 0xe1, 0xf7, 0xf7, 0xc7, 0xca,
        0xf7, 0x15, 0x4b, 0xfc, 0x07, 0xf9, 0x29, 0xdd, 0xb6, 0x5e, 0x31, 0x8d, 0x19, 0x34, 0xf1,
        0xf0, 0xcb, 0x54, 0x7a, 0x69, 0x16, 0x0b, 0x11, 0x9e, 0x2a, 0xcb, 0x4e, 0xe5, 0x7b, 0x8a,
        0xf8, 0x4d, 0x6a, 0xd3, 0x7e, 0x42, 0x40, 0xd0, 0x7e, 0x6d, 0x53, 0x23, 0xea, 0x08, 0x94,
        0xa7, 0x8e, 0xb6, 0x14, 0x81, 0x50, 0x59, 0x28, 0x75, 0x47, 0xfd, 0x1c, 0xa2, 0x79, 0x76,
        0x2a, 0xd5, 0x18, 0x13, 0x2a,
    ];
    let params = text_params(false, 3, false, 1, 200_000);
    // must not panic; Ok or Err are both acceptable outcomes
    let _ = decode_text_region(&data, &params);
}

/// Arithmetic symbol dictionary: height classes whose first width delta is
/// not positive decode no symbol, so `current_height += height_delta` keeps
/// accumulating.  Input frozen from a deterministic xorshift search.
#[test]
fn k1_symbol_dict_arith() {
    let data: [u8; 13] = [
        0xa8, 0x99, 0x94, 0xf9, 0xce, 0x11, 0xac, 0xf2, 0x1a, 0xfb, 0x54, 0x1c, 0x8c,
    ];
    let params = SymbolDictParams {
        num_new_symbols: 4,
        num_exported: 4,
        ..Default::default()
    };
    // must not panic; Ok or Err are both acceptable outcomes
    let _ = decode_symbol_dict(&data, &params);
}

/// `HuffmanDecoder::decode_int`: `range_low + extra` for a 32-bit extension line.
#[test]
fn k1_huffman_decode_int_range_offset() {
    // Table B.6 upper line is 2048 + 32 bits: 2048 + 0x7FFF_FFFF does not fit an i32.
    let mut w = BitWriter::new();
    w.put_upper(StandardTable::B6, 0x7FFF_FFFF);
    let data = w.finish();
    let mut reader = BitstreamReader::new(&data);
    let r = HuffmanDecoder::new().decode_int(&mut reader, StandardTable::B6);
    assert!(
        r.is_err(),
        "unrepresentable value must be an error, got {r:?}"
    );

    // The largest representable value still decodes.
    let mut w = BitWriter::new();
    w.put_upper(StandardTable::B6, 0x7FFF_FFFF - 2048);
    let data = w.finish();
    let mut reader = BitstreamReader::new(&data);
    let r = HuffmanDecoder::new().decode_int(&mut reader, StandardTable::B6);
    assert_eq!(r.ok(), Some(i32::MAX));
}
