//! Demonstrations for group E: batch worker pool and graph-aware chunker.

use oxidize_pdf::pipeline::{
    Element, ElementData, ElementGraph, ElementMetadata, HybridChunkConfig, HybridChunker,
    TokenCounter,
};
use oxidize_pdf::{BatchJob, BatchOptions, BatchProcessor, PdfError};
use std::sync::atomic::{AtomicBool, Ordering};
use std::sync::Arc;
use std::time::Duration;

// ── E1 ───────────────────────────────────────────────────────────────────────

/// (a) A panicking job must not lose results: one result per job, in
/// submission order, the panicking one reported as failed.
#[test]
fn e1_panicking_job_keeps_all_results() {
    let options = BatchOptions::default().with_parallelism(1);
    let mut processor = BatchProcessor::new(options);

    let second_ran = Arc::new(AtomicBool::new(false));
    let second_ran_clone = Arc::clone(&second_ran);

    processor.add_job(BatchJob::Custom {
        name: "panics".to_string(),
        operation: Box::new(|| panic!("boom in job")),
    });
    processor.add_job(BatchJob::Custom {
        name: "ok".to_string(),
        operation: Box::new(move || {
            second_ran_clone.store(true, Ordering::SeqCst);
            Ok(())
        }),
    });

    let summary = processor.execute().unwrap();

    assert_eq!(summary.total_jobs, 2);
    assert_eq!(
        summary.results.len(),
        2,
        "one result per submitted job, got {:?}",
        summary.results
    );
    assert_eq!(summary.results[0].job_name(), "panics");
    assert!(summary.results[0].is_failed());
    assert!(
        summary.results[0]
            .error()
            .unwrap()
            .to_lowercase()
            .contains("panicked"),
        "error should mention the panic: {:?}",
        summary.results[0].error()
    );
    assert_eq!(summary.results[1].job_name(), "ok");
    assert!(summary.results[1].is_success());
    assert!(second_ran.load(Ordering::SeqCst));
    assert_eq!(summary.failed, 1);
    assert_eq!(summary.successful, 1);
}

/// (c) A failing Custom job must stop the batch when `stop_on_error` is set,
/// exactly as a failing built-in job does.
#[test]
fn e1_custom_failure_honours_stop_on_error() {
    let options = BatchOptions::default()
        .with_parallelism(1)
        .stop_on_error(true);
    let mut processor = BatchProcessor::new(options);

    let second_ran = Arc::new(AtomicBool::new(false));
    let second_ran_clone = Arc::clone(&second_ran);

    processor.add_job(BatchJob::Custom {
        name: "fails".to_string(),
        operation: Box::new(|| {
            // Let the dispatcher queue the second job before this one fails.
            std::thread::sleep(Duration::from_millis(100));
            Err(PdfError::InvalidOperation("intentional".to_string()))
        }),
    });
    processor.add_job(BatchJob::Custom {
        name: "must_not_run".to_string(),
        operation: Box::new(move || {
            second_ran_clone.store(true, Ordering::SeqCst);
            Ok(())
        }),
    });

    let summary = processor.execute().unwrap();

    assert_eq!(summary.results.len(), 2);
    assert!(summary.results[0].is_failed());
    assert!(
        !second_ran.load(Ordering::SeqCst),
        "job queued behind a failure ran despite stop_on_error"
    );
    assert!(!summary.results[1].is_success());
    assert!(summary.cancelled);
}

/// (b) A built-in job already queued when the batch is cancelled (here by a
/// failing built-in job with `stop_on_error`) must not execute.
#[test]
fn e1_builtin_job_checks_cancellation() {
    let dir = tempfile::TempDir::new().unwrap();
    let input = dir.path().join("in.pdf");
    std::fs::write(&input, b"%PDF-1.4 placeholder").unwrap();
    let output = dir.path().join("out.pdf");

    let options = BatchOptions::default()
        .with_parallelism(1)
        .stop_on_error(true);
    let mut processor = BatchProcessor::new(options);

    // Keeps the single worker busy while the dispatcher queues everything.
    processor.add_job(BatchJob::Custom {
        name: "slow_ok".to_string(),
        operation: Box::new(|| {
            std::thread::sleep(Duration::from_millis(100));
            Ok(())
        }),
    });
    // Built-in job that fails: the input does not exist.
    processor.add_job(BatchJob::Compress {
        input: dir.path().join("missing.pdf"),
        output: dir.path().join("missing_out.pdf"),
        quality: 50,
    });
    // Built-in job that would succeed (plain copy) if it were executed.
    processor.add_job(BatchJob::Compress {
        input,
        output: output.clone(),
        quality: 50,
    });

    let summary = processor.execute().unwrap();

    assert_eq!(summary.results.len(), 3);
    assert!(summary.results[0].is_success());
    assert!(summary.results[1].is_failed());
    assert!(
        !output.exists(),
        "built-in job executed after the batch was cancelled"
    );
    assert!(!summary.results[2].is_success());
}

// ── E2 ───────────────────────────────────────────────────────────────────────

/// Counts bytes, so every `"\n"` join separator costs one token: not additive.
struct ByteCounter;

impl TokenCounter for ByteCounter {
    fn count(&self, text: &str) -> usize {
        text.len()
    }

    fn name(&self) -> &'static str {
        "bytes"
    }

    fn is_additive_over_whitespace_join(&self) -> bool {
        false
    }
}

fn element_data(text: &str) -> ElementData {
    ElementData {
        text: text.to_string(),
        metadata: ElementMetadata {
            parent_heading: Some("Head".to_string()),
            ..Default::default()
        },
    }
}

#[test]
fn e2_graph_chunk_budget_measures_joined_text() {
    let elements = vec![
        Element::Title(element_data("Head")),
        Element::Paragraph(element_data("aaaa")),
        Element::Paragraph(element_data("bbbb")),
    ];
    let counter = ByteCounter;
    // Budget == sum of the per-element counts; the joined text adds two "\n".
    let max_tokens: usize = elements
        .iter()
        .map(|e| counter.count(&e.display_text()))
        .sum();

    let graph = ElementGraph::build(&elements);
    let chunker = HybridChunker::new(HybridChunkConfig {
        max_tokens,
        ..Default::default()
    })
    .with_token_counter(Arc::new(ByteCounter));

    let chunks = chunker.chunk_with_graph(&elements, &graph);

    let total: usize = chunks.iter().map(|c| c.elements().len()).sum();
    assert_eq!(total, elements.len(), "every element in exactly one chunk");
    for chunk in &chunks {
        let real = counter.count(&chunk.text());
        assert_eq!(chunk.token_estimate(), real);
        assert!(
            real <= max_tokens || chunk.is_oversized(),
            "chunk {:?} costs {} > max_tokens {} but is not flagged oversized",
            chunk.text(),
            real,
            max_tokens
        );
    }
}
