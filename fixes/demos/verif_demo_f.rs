//! Demonstrations for group F (PDF names).

use oxidize_pdf::forms::signature_field::{SignatureAppearance, SignatureField};
use oxidize_pdf::forms::{DefaultAppearance, FieldAppearanceGenerator, TextAlignment};
use oxidize_pdf::graphics::{
    AxialShading, ExtGState, GraphicsContext, IccColorSpace, IccProfile, IccProfileManager,
    PaintType, PatternGraphicsContext, PatternManager, Point, ShadingDefinition, ShadingManager,
    TilingPattern, TilingType,
};
use oxidize_pdf::structure::MarkedContent;
use oxidize_pdf::{Color, Font, Page};

fn assert_escaped(what: &str, text: &str, escaped: &str, raw: &str) {
    assert!(
        text.contains(escaped),
        "{what}: expected escaped name {escaped:?} in output: {text:?}"
    );
    assert!(
        !text.contains(raw),
        "{what}: raw unescaped name {raw:?} must not appear in output: {text:?}"
    );
}

/// Forms: /DA strings and appearance streams with `Font::Custom("My Font")`.
#[test]
fn f1_forms_custom_font_name_escaped() {
    let font = Font::Custom("My Font".to_string());

    // /DA string
    let da = DefaultAppearance::new(font.clone(), 12.0, Color::black()).to_da_string();
    assert_escaped(
        "DefaultAppearance::to_da_string",
        &da,
        "/My#20Font 12 Tf",
        "/My Font",
    );

    // Signature appearance stream
    let sig = SignatureField::new("sig").with_appearance(SignatureAppearance {
        font: font.clone(),
        ..SignatureAppearance::default()
    });
    let bytes = sig.generate_appearance(200.0, 50.0).unwrap();
    let text = String::from_utf8_lossy(&bytes).into_owned();
    assert_escaped(
        "SignatureField::generate_appearance",
        &text,
        "/My#20Font 10 Tf",
        "/My Font",
    );

    // Text field appearance generator whose font is a plain string
    let gen = FieldAppearanceGenerator {
        value: "x".to_string(),
        font: "My Font".to_string(),
        font_size: 12.0,
        text_color: Color::black(),
        background_color: None,
        border_color: None,
        border_width: 0.0,
        rect: [0.0, 0.0, 100.0, 20.0],
        alignment: TextAlignment::Left,
        multiline: false,
        max_length: None,
        comb: false,
    };
    let stream = gen.generate_text_field().unwrap();
    let text = String::from_utf8_lossy(stream.data()).into_owned();
    assert_escaped(
        "FieldAppearanceGenerator::generate_text_field",
        &text,
        "/My#20Font 12 Tf",
        "/My Font",
    );

    // FreeText annotation /DA
    let ft = oxidize_pdf::annotations::FreeTextAnnotation::new(
        oxidize_pdf::geometry::Rectangle::from_position_and_size(0.0, 0.0, 10.0, 10.0),
        "t",
    )
    .with_font(font.clone(), 9.0, Color::black());
    assert_escaped(
        "FreeTextAnnotation::with_font",
        &ft.default_appearance,
        "/My#20Font 9 Tf",
        "/My Font",
    );

    // ExtGState /Font entry
    let gs = ExtGState::new().with_font(font, 8.0);
    let dict = gs.to_pdf_dictionary().unwrap();
    assert_escaped(
        "ExtGState::to_pdf_dictionary",
        &dict,
        "/Font [/My#20Font ",
        "/My Font",
    );
}

/// Marked content: tag with a space on the page API, property key with a
/// delimiter on the `MarkedContent` builder.
#[test]
fn f1_marked_content_tag_and_key_escaped() {
    let mut page = Page::a4();
    page.begin_marked_content("My Tag").unwrap();
    page.begin_marked_content_with_actual_text("Sp an", "x")
        .unwrap();
    let ops = page.text().operations();
    assert_escaped(
        "Page::begin_marked_content",
        &ops,
        "/My#20Tag <</MCID 0>> BDC",
        "/My Tag",
    );
    assert_escaped(
        "Page::begin_marked_content_with_actual_text",
        &ops,
        "/Sp#20an <</MCID 1 /ActualText",
        "/Sp an",
    );

    let mut mc = MarkedContent::new();
    mc.begin_with_properties("P", &[("My Key", "1"), ("A#B", "2")])
        .unwrap();
    let ops = mc.operations().to_string();
    assert_escaped(
        "MarkedContent::begin_with_properties",
        &ops,
        "/My#20Key 1",
        "/My Key",
    );
    assert_escaped(
        "MarkedContent::begin_with_properties",
        &ops,
        "/A#23B 2",
        "/A#B ",
    );
}

/// Resource dictionaries of the pattern / shading / ICC managers.
#[test]
fn f1_resource_dictionary_names_escaped() {
    let mut patterns = PatternManager::new();
    let mut pattern = TilingPattern::new(
        "Pat 1".to_string(),
        PaintType::Colored,
        TilingType::ConstantSpacing,
        [0.0, 0.0, 10.0, 10.0],
        10.0,
        10.0,
    );
    pattern.add_rectangle(0.0, 0.0, 5.0, 5.0);
    patterns.add_pattern(pattern).unwrap();
    let dict = patterns.to_resource_dictionary().unwrap();
    assert_escaped(
        "PatternManager::to_resource_dictionary",
        &dict,
        "/Pat#201 ",
        "/Pat 1",
    );

    let mut shadings = ShadingManager::new();
    shadings
        .add_shading(ShadingDefinition::Axial(AxialShading::linear_gradient(
            "Sh#1".to_string(),
            Point::new(0.0, 0.0),
            Point::new(10.0, 0.0),
            Color::red(),
            Color::blue(),
        )))
        .unwrap();
    let dict = shadings.to_resource_dictionary().unwrap();
    assert_escaped(
        "ShadingManager::to_resource_dictionary",
        &dict,
        "/Sh#231 ",
        "/Sh#1 ",
    );

    let mut icc = IccProfileManager::new();
    icc.add_profile(IccProfile::new(
        "My Profile".to_string(),
        vec![0u8; 128],
        IccColorSpace::Rgb,
    ))
    .unwrap();
    let dict = icc.to_resource_dictionary().unwrap();
    assert_escaped(
        "IccProfileManager::to_resource_dictionary",
        &dict,
        "/My#20Profile ",
        "/My Profile",
    );
}

/// `set_fill_pattern("a b")` / `set_stroke_pattern("a b")` operators.
#[test]
fn f1_set_pattern_name_escaped() {
    let mut gc = GraphicsContext::new();
    gc.set_fill_pattern("a b").unwrap();
    gc.set_stroke_pattern("c(d").unwrap();
    let ops = gc.operations();
    assert_escaped("set_fill_pattern", &ops, "/Pattern cs /a#20b scn", "/a b");
    assert_escaped("set_stroke_pattern", &ops, "/Pattern CS /c#28d SCN", "/c(d");
}

/// F2: names are written as the `#XX`-escaped UTF-8 bytes of the Rust string;
/// the reader must decode them back to the same string.
#[test]
fn f2_non_ascii_name_roundtrip() {
    use oxidize_pdf::graphics::FormXObject;
    use oxidize_pdf::parser::lexer::{Lexer, Token};
    use oxidize_pdf::parser::{ContentOperation, ContentParser, PdfDocument, PdfReader};
    use std::io::Cursor;

    // Document level: write a resource key `é日`, read it back.
    let mut doc = oxidize_pdf::Document::new();
    let mut page = Page::a4();
    let bbox = oxidize_pdf::geometry::Rectangle::from_position_and_size(0.0, 0.0, 10.0, 10.0);
    page.add_form_xobject("é日", FormXObject::new(bbox))
        .unwrap();
    doc.add_page(page);
    let bytes = doc.to_bytes().unwrap();

    let parsed = PdfDocument::new(PdfReader::new(Cursor::new(bytes)).unwrap());
    let page = parsed.get_page(0).unwrap();
    let resources = page.get_resources().expect("resources");
    let xobjects = parsed
        .resolve(resources.get("XObject").expect("/XObject"))
        .unwrap();
    let keys: Vec<String> = xobjects
        .as_dict()
        .expect("dict")
        .0
        .keys()
        .map(|k| k.0.clone())
        .collect();
    assert_eq!(keys, vec!["é日".to_string()]);

    // Lexer level: escaped and raw UTF-8 bytes.
    let mut lexer = Lexer::new(Cursor::new(b"/#C3#A9#E6#97#A5 ".to_vec()));
    assert_eq!(lexer.next_token().unwrap(), Token::Name("é日".to_string()));
    let mut lexer = Lexer::new(Cursor::new("/é日 ".as_bytes().to_vec()));
    assert_eq!(lexer.next_token().unwrap(), Token::Name("é日".to_string()));
    // A byte sequence that is not valid UTF-8 keeps the Latin-1 mapping.
    let mut lexer = Lexer::new(Cursor::new(b"/caf#E9 ".to_vec()));
    assert_eq!(lexer.next_token().unwrap(), Token::Name("café".to_string()));

    // The content-stream tokenizer must agree with the object lexer.
    let ops = ContentParser::parse_content(b"/#C3#A9#E6#97#A5 Do\n/caf#E9 Do\n").unwrap();
    assert_eq!(
        ops,
        vec![
            ContentOperation::PaintXObject("é日".to_string()),
            ContentOperation::PaintXObject("café".to_string()),
        ]
    );
}
