//! Demonstration for fix group N (found by C07 R7: a look-ahead character consumed and dropped).
use oxidize_pdf::parser::filters::{decode_stream, Filter};
use oxidize_pdf::parser::objects::{PdfDictionary, PdfName, PdfObject};
use oxidize_pdf::parser::ParseOptions;

fn a85_encode(data: &[u8]) -> Vec<u8> {
    // reference encoder (ISO 32000-1 §7.4.3), no `<~` prefix, `~>` end marker
    let mut out = Vec::new();
    for chunk in data.chunks(4) {
        let mut v: u32 = 0;
        for i in 0..4 {
            v = (v << 8) | *chunk.get(i).unwrap_or(&0) as u32;
        }
        if chunk.len() == 4 && v == 0 {
            out.push(b'z');
            continue;
        }
        let mut digits = [0u8; 5];
        let mut x = v;
        for d in digits.iter_mut().rev() {
            *d = (x % 85) as u8 + b'!';
            x /= 85;
        }
        out.extend_from_slice(&digits[..chunk.len() + 1]);
    }
    out.extend_from_slice(b"~>");
    out
}

#[test]
fn n1_ascii85_stream_starting_with_less_than_sign() {
    // find inputs whose encoding starts with '<' (digit 27): first byte 0x55 or 0x56
    for first in [0x55u8, 0x56] {
        let data = [first, 0x01, 0x02, 0x03, 0x10, 0x20, 0x30, 0x40, 0x7F];
        let enc = a85_encode(&data);
        assert_eq!(enc[0], b'<', "test premise: encoding starts with '<'");
        let mut dict = PdfDictionary::new();
        dict.insert("Filter".to_string(), PdfObject::Name(PdfName("ASCII85Decode".to_string())));
        let decoded = decode_stream(&enc, &dict, &ParseOptions::default()).expect("decode");
        assert_eq!(decoded, data, "ASCII85 data whose encoding begins with '<' must round-trip");
    }
    let _ = Filter::ASCII85Decode;
}
