//! Demonstration for the C03 finding in the `performance` feature's streaming writer
//! (run with `--features performance`): a font resource name or a shown text containing PDF
//! delimiters must still give well-formed name / string tokens.
#![cfg(feature = "performance")]

use oxidize_pdf::performance::streaming_writer::{
    ContentStream, PageResources, StreamingPageContent,
};
use oxidize_pdf::performance::{StreamingOptions, StreamingPdfWriter};

#[test]
fn content_stream_from_text_escapes_font_name_and_text() {
    let cs = ContentStream::from_text("a) Tj (b", 10.0, 20.0, "My Font", 12.0);
    let s = String::from_utf8_lossy(&cs.data).to_string();
    // one name token after BT: `/My#20Font`, not `/My` followed by a stray operand `Font`
    assert!(s.contains("/My#20Font 12 Tf"), "font name not escaped: {s}");
    // the literal's parentheses are escaped so that the string ends where it should
    assert!(s.contains("(a\\) Tj \\(b) Tj"), "text not escaped: {s}");
}

#[test]
fn page_resource_names_are_escaped() {
    let dir = tempfile::tempdir().unwrap();
    let path = dir.path().join("o.pdf");
    let mut w = StreamingPdfWriter::create(&path, StreamingOptions::default().with_compression(false)).unwrap();
    let mut resources = PageResources::default();
    resources.fonts.insert("My Font".to_string(), 7);
    resources.images.insert("Im(1)".to_string(), 8);
    let page = StreamingPageContent {
        width: 200.0,
        height: 200.0,
        content_streams: vec![ContentStream::new(b"q Q".to_vec())],
        resources,
    };
    w.write_page_streaming(&page).unwrap();
    w.finalize().unwrap();
    let bytes = std::fs::read(&path).unwrap();
    let text = String::from_utf8_lossy(&bytes);
    assert!(text.contains("/My#20Font 7 0 R"), "font resource name not escaped");
    assert!(text.contains("/Im#281#29 8 0 R"), "image resource name not escaped");
}
