//! Demonstrations for group M: JBIG2 decoding loops that are controlled by a
//! "decoded so far" counter must make progress on their own, because the
//! arithmetic (MQ) decoder never reports end of input — past the end of the data
//! it keeps producing bits.

use oxidize_pdf::parser::filter_impls::generic_region::Bitmap;
use oxidize_pdf::parser::filter_impls::symbol_dict::{decode_symbol_dict, SymbolDictParams};
use oxidize_pdf::parser::filter_impls::text_region::{
    decode_text_region, TextRegionFlags, TextRegionParams,
};
use std::sync::mpsc;
use std::sync::Arc;
use std::time::Duration;

const TIMEOUT: Duration = Duration::from_secs(5);

/// Symbol dictionary (arithmetic): a height class whose first width delta is
/// not positive decodes no symbol.  Once the decoder runs past the end of the
/// data the decoded height delta settles on 0 and the width delta on a
/// non-positive value, so the height class loop repeats without ever advancing
/// the symbol counter.  Inputs frozen from a deterministic search.
#[test]
fn m1_symbol_dict_arith_empty_height_classes() {
    let inputs: [&[u8]; 3] = [
        &[0xa6, 0xaf, 0x27, 0x12],
        &[0x79, 0xd1, 0x06, 0x2d, 0xe8],
        &[0x91, 0xea, 0x8f, 0x62, 0xf7, 0xb4],
    ];
    for data in inputs {
        let (tx, rx) = mpsc::channel();
        std::thread::spawn(move || {
            let params = SymbolDictParams {
                num_new_symbols: 4,
                num_exported: 4,
                ..Default::default()
            };
            // Ok or Err are both acceptable outcomes, as long as it returns
            let _ = tx.send(decode_symbol_dict(data, &params).is_ok());
        });
        assert!(
            rx.recv_timeout(TIMEOUT).is_ok(),
            "decode_symbol_dict did not return for {data:02x?}"
        );
    }
}

/// Dictionaries that do decode (inputs and expected symbol sizes frozen from the
/// unfixed decoder; several of them contain a few empty height classes before
/// or between the symbols) still decode to the same symbols.
#[test]
fn m1_symbol_dict_arith_regular_input_unchanged() {
    let cases: [(&[u8], [(u32, u32); 4]); 7] = [
        (
            &[
                0x9b, 0xac, 0x85, 0xe4, 0xc9, 0xe4, 0x73, 0xa5, 0xc4, 0x57, 0x21, 0x31, 0x99, 0x22,
                0x70, 0xd2, 0xed, 0x00, 0xe0, 0xa3, 0x1c, 0x96, 0x93, 0x70,
            ],
            [(72, 3), (137, 3), (140, 3), (143, 3)],
        ),
        (
            &[
                0xc8, 0x93, 0x98, 0x8b, 0xd0, 0xa1, 0x5c, 0x3a, 0xa4, 0x85, 0xc4, 0x31, 0x85, 0xb6,
                0xe1, 0x1e, 0x8c, 0x3d, 0xbd, 0x62, 0x1c, 0x34, 0xa8, 0x4b,
            ],
            [(73, 75), (146, 75), (219, 75), (292, 75)],
        ),
        (
            &[
                0xa4, 0xfb, 0x02, 0x06, 0x08, 0xa0, 0x2d, 0x9b, 0x32, 0x62, 0xb8, 0xf3, 0x2c, 0xf6,
                0xef, 0x92, 0x0b, 0x73, 0xed, 0x26, 0xb4, 0xa3, 0x7c, 0x22,
            ],
            [(1, 73), (1, 82), (3, 82), (4, 82)],
        ),
        (
            &[
                0xb5, 0x5c, 0x4e, 0x96, 0xe7, 0xf6, 0x09, 0x61, 0x6b, 0x5f, 0x51, 0x77, 0x1f, 0x7f,
                0xe3, 0xbe, 0xf7, 0x02, 0xe2, 0xf3, 0x36, 0xc6, 0x93, 0x1a,
            ],
            [(74, 68), (74, 68), (148, 68), (212, 68)],
        ),
        (
            &[
                0x91, 0x78, 0xf2, 0x2f, 0xe3, 0x50, 0x18, 0x8a, 0x53, 0xad, 0xcc, 0x5f, 0x91, 0x60,
                0x8c, 0xf5, 0xc4, 0x37, 0xc7, 0x74, 0xa4, 0xef, 0x6c, 0xf0,
            ],
            [(77, 4), (153, 4), (232, 4), (153, 4)],
        ),
        (
            &[
                0x9f, 0x40, 0x28, 0xd0, 0xd7, 0xdc, 0x45, 0xcd, 0x18, 0x96, 0xcf, 0x32, 0x14, 0xd6,
                0x6f, 0xcb, 0x40, 0xea, 0xdf, 0x80, 0x3f, 0xaf, 0x14, 0xda,
            ],
            [(1, 5), (1, 5), (2, 5), (3, 5)],
        ),
        (
            &[
                0xb5, 0x9a, 0x41, 0x95, 0x5e, 0x72, 0x88, 0xc1, 0x8c, 0x03, 0xaf, 0x78, 0x82, 0x0f,
                0x4d, 0x41, 0x2d, 0x4f, 0x3b, 0x41, 0x37, 0x23, 0xd3, 0x5c,
            ],
            [(3, 68), (69, 68), (69, 68), (72, 68)],
        ),
    ];
    let params = SymbolDictParams {
        num_new_symbols: 4,
        num_exported: 4,
        ..Default::default()
    };
    for (data, expected) in cases {
        let dict = decode_symbol_dict(data, &params).unwrap();
        let sizes: Vec<(u32, u32)> = dict
            .exported_symbols()
            .iter()
            .map(|b| (b.width(), b.height()))
            .collect();
        assert_eq!(sizes, expected);
    }
}

fn symbols() -> Vec<Arc<Bitmap>> {
    vec![
        Arc::new(Bitmap::new_with_default(4, 6, 1).unwrap()),
        Arc::new(Bitmap::new_with_default(9, 3, 1).unwrap()),
    ]
}

/// Deterministic random search for a text region input that keeps the decoder
/// busy for more than `TIMEOUT`.  Returns the first such input.
fn search_text_region_hang(huffman: bool, rounds: usize) -> Option<(Vec<u8>, u8, u8, u32)> {
    let mut state = if huffman {
        0x2545_F491_4F6C_DD1Du64
    } else {
        0x9E37_79B9_7F4A_7C15u64
    };
    let mut next = move || {
        state ^= state << 13;
        state ^= state >> 7;
        state ^= state << 17;
        state
    };
    for _ in 0..rounds {
        let len = 1 + (next() % 24) as usize;
        let data: Vec<u8> = (0..len).map(|_| next() as u8).collect();
        let log_strip_size = (next() % 4) as u8;
        // Huffman: include a codewidth the bit reader rejects (> 32), which ends
        // a strip before any instance.  (The arithmetic variant allocates
        // `1 << codewidth` contexts, so it only gets small codewidths here.)
        let codewidth = if huffman {
            [1u8, 2, 8, 24, 32, 33][(next() % 6) as usize]
        } else {
            [0u8, 1, 1, 2, 4, 8][(next() % 6) as usize]
        };
        let num_instances = [1u32, 4, 1000, 100_000][(next() % 4) as usize];
        let params = TextRegionParams {
            flags: TextRegionFlags {
                uses_huffman: huffman,
                log_strip_size,
                ..Default::default()
            },
            width: 64,
            height: 64,
            num_instances,
            symbol_id_codewidth: codewidth,
            available_symbols: symbols(),
            ..Default::default()
        };
        let (tx, rx) = mpsc::channel();
        let d = data.clone();
        std::thread::spawn(move || {
            let _ = tx.send(decode_text_region(&d, &params).is_ok());
        });
        if rx.recv_timeout(TIMEOUT).is_err() {
            return Some((data, log_strip_size, codewidth, num_instances));
        }
    }
    None
}

/// Text region (arithmetic): every strip places one instance before the first
/// delta S is decoded, so the strip loop always advances the instance counter.
/// The search finds no input that keeps it running.
#[test]
fn m1_text_region_arith_returns() {
    assert_eq!(search_text_region_hang(false, 600), None);
}

/// Text region (Huffman): a strip can end without an instance (symbol id bits
/// unavailable), but every strip consumes input bits and the bit reader reports
/// end of data, so the strip loop is bounded by the data length.
#[test]
fn m1_text_region_huffman_returns() {
    assert_eq!(search_text_region_hang(true, 600), None);
}
