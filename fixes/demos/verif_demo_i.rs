//! Demonstration for fix group I (found by the C01 end-of-input rule).
use oxidize_pdf::parser::PdfReader;
use std::io::Cursor;
use std::sync::mpsc;
use std::time::Duration;

/// A classic xref section that ends (end of file) after blank lines / comments, before any `trailer`
/// keyword, must be rejected or recovered from — not loop forever.
#[test]
fn i1_xref_section_truncated_after_blank_lines_terminates() {
    for tail in ["xref\n\n\n", "xref\n0 1\n0000000000 65535 f \n\n\n\n", "xref\n% comment\n"] {
        let mut pdf = Vec::new();
        pdf.extend_from_slice(b"%PDF-1.4\n1 0 obj\n<< /Type /Catalog /Pages 2 0 R >>\nendobj\n2 0 obj\n<< /Type /Pages /Kids [] /Count 0 >>\nendobj\n");
        // the startxref block is placed before the table so that the table can end the file
        let marker_pos = pdf.len();
        let placeholder = "startxref\n0000000000\n%%EOF\n";
        pdf.extend_from_slice(placeholder.as_bytes());
        let xref_offset = pdf.len();
        let real = format!("startxref\n{:010}\n%%EOF\n", xref_offset);
        pdf[marker_pos..marker_pos + real.len()].copy_from_slice(real.as_bytes());
        pdf.extend_from_slice(tail.as_bytes());

        let (tx, rx) = mpsc::channel();
        std::thread::spawn(move || {
            let r = PdfReader::new(Cursor::new(pdf)).map(|_| ());
            let _ = tx.send(r.is_ok());
        });
        let done = rx.recv_timeout(Duration::from_secs(10));
        assert!(done.is_ok(), "parser did not terminate on an xref section truncated as {tail:?}");
    }
}
