//! Demonstration for fix group L (found by the C01 arithmetic rule's guard-aware interval check).
use oxidize_pdf::parser::filter_impls::mq_coder::{MQContext, MQDecoder};

/// BYTEIN after an 0xFF byte computes `0xFE00 - (B << 9)`; for 0x80 <= B <= 0x8F the product exceeds 0xFE00, so the
/// subtraction must be modular (ITU-T T.88 Annex G uses a C register with wrap-around). Decoding must not panic.
#[test]
fn l1_mq_bytein_after_ff_does_not_underflow() {
    for b in [0x80u8, 0x85, 0x8F] {
        let data = [0x12u8, 0xFF, b, 0x34, 0xFF, b, 0x00, 0x11, 0xFF, b, 0x22, 0x33, 0x44, 0x55];
        let r = std::panic::catch_unwind(|| {
            let mut dec = MQDecoder::new(&data).expect("decoder");
            let mut cx = MQContext::new();
            let mut bits = 0u32;
            for _ in 0..400 {
                bits = bits.wrapping_add(dec.decode(&mut cx) as u32);
            }
            bits
        });
        assert!(r.is_ok(), "MQ decoder panicked on an 0xFF 0x{b:02X} sequence");
    }
}
