//! Demonstrations for writer-core defects (group C).

use oxidize_pdf::document::{DocumentEncryption, EncryptionStrength};
use oxidize_pdf::encryption::Permissions;
use oxidize_pdf::parser::{PdfDocument, PdfReader};
use oxidize_pdf::text::ExtractionOptions;
use oxidize_pdf::writer::WriterConfig;
use oxidize_pdf::{Document, Font, Page};
use std::io::Cursor;

const MARKER: &str = "VERIF_MARKER_42";

fn marker_doc() -> Document {
    let mut doc = Document::new();
    doc.set_title("Verif Title");
    let mut page = Page::new(595.0, 842.0);
    page.text()
        .set_font(Font::Helvetica, 24.0)
        .at(72.0, 760.0)
        .write(MARKER)
        .unwrap();
    doc.add_page(page);
    doc
}

fn xref_stream_only() -> WriterConfig {
    WriterConfig {
        use_xref_streams: true,
        use_object_streams: false,
        pdf_version: "1.5".to_string(),
        compress_streams: true,
        incremental_update: false,
    }
}

fn encrypted_roundtrip(config: WriterConfig) {
    let mut doc = marker_doc();
    doc.set_encryption(DocumentEncryption::new(
        "u",
        "o",
        Permissions::all(),
        EncryptionStrength::Rc4_128bit,
    ));
    let bytes = doc.to_bytes_with_config(config).expect("write document");

    let mut reader = PdfReader::new(Cursor::new(bytes)).expect("parse written PDF");
    assert!(
        reader.is_encrypted(),
        "document written with encryption must be detected as encrypted"
    );
    assert!(reader
        .unlock_with_password("u")
        .expect("unlock with user password"));
    let meta = reader.metadata().expect("metadata");
    assert_eq!(meta.title.as_deref(), Some("Verif Title"));
    let text = reader
        .into_document()
        .extract_text_from_page_with_options(0, ExtractionOptions::default())
        .expect("extract text")
        .text;
    assert!(text.contains(MARKER), "got: {text:?}");
}

#[test]
fn c1_encrypt_missing_with_xref_stream() {
    encrypted_roundtrip(xref_stream_only());
}

#[test]
fn c1_encrypt_missing_with_modern_config() {
    encrypted_roundtrip(WriterConfig::modern());
}

fn reopen_and_check(bytes: Vec<u8>, pages: u32) {
    let mut reader = PdfReader::new(Cursor::new(bytes)).expect("parse written PDF");
    assert_eq!(reader.page_count().expect("page count"), pages);
    let meta = reader.metadata().expect("metadata");
    assert_eq!(meta.title.as_deref(), Some("Verif Title"));
    let text = reader
        .into_document()
        .extract_text_from_page_with_options(0, ExtractionOptions::default())
        .expect("extract text")
        .text;
    assert!(text.contains(MARKER), "got: {text:?}");
}

#[test]
fn c2_xref_stream_filter_without_compression() {
    let mut doc = marker_doc();
    let bytes = doc
        .to_bytes_with_config(WriterConfig {
            compress_streams: false,
            ..xref_stream_only()
        })
        .expect("write document");
    // Strict options so the reader cannot fall back to scanning for objects.
    let strict = oxidize_pdf::parser::ParseOptions::strict();
    let mut reader = PdfReader::new_with_options(Cursor::new(bytes.clone()), strict)
        .expect("parse written PDF (strict)");
    assert_eq!(reader.page_count().expect("page count"), 1);
    reopen_and_check(bytes, 1);
}

#[test]
fn c3_object_streams_without_xref_stream() {
    let mut doc = marker_doc();
    doc.add_page(Page::a4());
    let bytes = doc
        .to_bytes_with_config(WriterConfig {
            use_xref_streams: false,
            use_object_streams: true,
            pdf_version: "1.5".to_string(),
            compress_streams: true,
            incremental_update: false,
        })
        .expect("write document");
    let strict = oxidize_pdf::parser::ParseOptions::strict();
    let mut reader = PdfReader::new_with_options(Cursor::new(bytes.clone()), strict)
        .expect("parse written PDF (strict)");
    assert_eq!(reader.page_count().expect("page count"), 2);
    reopen_and_check(bytes, 2);
}

// ---------------------------------------------------------------- C4

fn write_fixed(doc: &mut Document, config: WriterConfig) -> Vec<u8> {
    let date = chrono::DateTime::parse_from_rfc3339("2024-01-01T00:00:00Z")
        .unwrap()
        .with_timezone(&chrono::Utc);
    doc.set_creation_date(date);
    doc.set_modification_date(date);
    let mut buf = Vec::new();
    oxidize_pdf::writer::PdfWriter::with_config(&mut buf, config)
        .write_document(doc)
        .expect("write document");
    buf
}

/// Keys of the dictionary that starts at `start` and is written one
/// `\n/Key value` per line, up to the `stream` keyword.
fn dict_keys_before_stream(bytes: &[u8], start: usize) -> Vec<String> {
    let tail = &bytes[start..];
    let end = tail
        .windows(7)
        .position(|w| w == b"stream\n")
        .expect("stream keyword");
    String::from_utf8_lossy(&tail[..end])
        .lines()
        .filter_map(|l| l.strip_prefix('/'))
        .map(|l| l.split_whitespace().next().unwrap().to_string())
        .collect()
}

fn startxref_offset(bytes: &[u8]) -> usize {
    let text = String::from_utf8_lossy(bytes);
    let pos = text.rfind("startxref").expect("startxref");
    text[pos + "startxref".len()..]
        .split_whitespace()
        .next()
        .unwrap()
        .parse()
        .unwrap()
}

#[test]
fn c4_xref_stream_dictionary_order() {
    let config = WriterConfig {
        compress_streams: false,
        ..xref_stream_only()
    };
    let a = write_fixed(&mut marker_doc(), config.clone());
    let b = write_fixed(&mut marker_doc(), config);

    let keys = dict_keys_before_stream(&a, startxref_offset(&a));
    assert!(keys.len() >= 6, "xref stream keys: {keys:?}");
    let mut sorted = keys.clone();
    sorted.sort();
    assert_eq!(keys, sorted, "xref stream dictionary keys must be sorted");
    assert_eq!(a, b, "two builds of the same document must be identical");
}

#[test]
fn c4_xref_stream_writer_dictionary_order() {
    use oxidize_pdf::objects::ObjectId;
    use oxidize_pdf::writer::XRefStreamWriter;

    let build = || {
        let mut w = XRefStreamWriter::new(ObjectId::new(5, 0));
        w.set_trailer_info(ObjectId::new(1, 0), ObjectId::new(2, 0));
        w.add_free_entry(0, 65535);
        w.add_in_use_entry(15, 0);
        let mut buf = Vec::new();
        w.write_xref_stream(&mut buf, 0, Some(7)).unwrap();
        buf
    };
    let a = build();
    let keys = dict_keys_before_stream(&a, 0);
    assert!(keys.len() >= 6, "xref stream keys: {keys:?}");
    let mut sorted = keys.clone();
    sorted.sort();
    assert_eq!(keys, sorted, "xref stream dictionary keys must be sorted");
    assert_eq!(a, build());
}

/// Source PDF with one page carrying five image XObjects.
fn five_image_pdf() -> Vec<u8> {
    use oxidize_pdf::graphics::Image;
    let mut doc = Document::new();
    let mut page = Page::a4();
    for i in 1..=5u8 {
        let name = format!("Im{i}");
        let img = Image::from_gray_data(vec![i * 40; 4], 2, 2).unwrap();
        page.add_image(&name, img);
        page.draw_image(&name, 10.0 * i as f64, 10.0, 5.0, 5.0)
            .unwrap();
    }
    doc.add_page(page);
    doc.to_bytes().unwrap()
}

fn rebuild_from_parsed(src: &[u8]) -> Vec<u8> {
    let reader = PdfReader::new(Cursor::new(src.to_vec())).unwrap();
    let parsed = PdfDocument::new(reader);
    let parsed_page = parsed.get_page(0).unwrap();
    let page = Page::from_parsed_with_content(&parsed_page, &parsed).unwrap();
    let mut doc = Document::new();
    doc.add_page(page);
    write_fixed(&mut doc, WriterConfig::default())
}

#[test]
fn c4_preserved_xobject_order() {
    let src = five_image_pdf();
    let a = rebuild_from_parsed(&src);
    let b = rebuild_from_parsed(&src);

    let out = PdfDocument::new(PdfReader::new(Cursor::new(a.clone())).unwrap());
    let page = out.get_page(0).unwrap();
    let resources = out.resolve(page.dict.get("Resources").unwrap()).unwrap();
    let resources = resources.as_dict().unwrap();
    let xobjects = out.resolve(resources.get("XObject").unwrap()).unwrap();
    let xobjects = xobjects.as_dict().unwrap();
    let ids: Vec<u32> = (1..=5)
        .map(|i| {
            xobjects
                .get(&format!("Im{i}"))
                .and_then(|o| o.as_reference())
                .expect("image reference")
                .0
        })
        .collect();
    let mut sorted = ids.clone();
    sorted.sort();
    assert_eq!(ids, sorted, "object ids must follow the sorted names");
    assert_eq!(a, b, "two builds of the same document must be identical");
}

fn ap_annotation_pdf() -> Vec<u8> {
    use oxidize_pdf::annotations::{Annotation, AnnotationType};
    use oxidize_pdf::geometry::{Point, Rectangle};
    use oxidize_pdf::objects::{Dictionary, Object};

    let stream = |tag: &str| {
        let mut d = Dictionary::new();
        d.set("Type", Object::Name("XObject".to_string()));
        d.set("Subtype", Object::Name("Form".to_string()));
        Object::Stream(d, format!("% {tag}\n").into_bytes())
    };
    let mut down = Dictionary::new();
    for k in ["A", "B", "C", "E", "F"] {
        down.set(k, stream(k));
    }
    let mut ap = Dictionary::new();
    ap.set("D", Object::Dictionary(down));
    ap.set("N", stream("N"));
    ap.set("R", stream("R"));

    let mut annot = Annotation::new(
        AnnotationType::Square,
        Rectangle::new(Point::new(10.0, 10.0), Point::new(50.0, 50.0)),
    );
    annot.properties.set("AP", Object::Dictionary(ap));

    let mut doc = Document::new();
    let mut page = Page::a4();
    page.add_annotation(annot);
    doc.add_page(page);
    write_fixed(&mut doc, WriterConfig::default())
}

#[test]
fn c4_appearance_stream_order() {
    let a = ap_annotation_pdf();
    let b = ap_annotation_pdf();

    let out = PdfDocument::new(PdfReader::new(Cursor::new(a.clone())).unwrap());
    let page = out.get_page(0).unwrap();
    let annots = page.annotations.expect("annots");
    let annot = out.resolve(annots.get(0).unwrap()).unwrap();
    let annot = annot.as_dict().unwrap();
    let ap = annot.get("AP").unwrap().as_dict().unwrap().clone();
    let down = ap.get("D").unwrap().as_dict().unwrap().clone();
    let mut ids = Vec::new();
    for k in ["A", "B", "C", "E", "F"] {
        ids.push(down.get(k).unwrap().as_reference().expect("ref").0);
    }
    ids.push(ap.get("N").unwrap().as_reference().expect("ref").0);
    ids.push(ap.get("R").unwrap().as_reference().expect("ref").0);
    let mut sorted = ids.clone();
    sorted.sort();
    assert_eq!(ids, sorted, "object ids must follow the sorted keys");
    assert_eq!(a, b, "two builds of the same document must be identical");
}

// ---------------------------------------------------------------- C5 / C6 / C7

/// Writes a one-page document whose only annotation carries `key -> value`
/// in its dictionary, and returns the written bytes.
fn annotation_with_property(
    key: &str,
    value: oxidize_pdf::objects::Object,
    config: WriterConfig,
) -> Vec<u8> {
    use oxidize_pdf::annotations::{Annotation, AnnotationType};
    use oxidize_pdf::geometry::{Point, Rectangle};

    let mut annot = Annotation::new(
        AnnotationType::Square,
        Rectangle::new(Point::new(10.0, 10.0), Point::new(50.0, 50.0)),
    );
    annot.properties.set(key, value);
    let mut doc = Document::new();
    let mut page = Page::a4();
    page.add_annotation(annot);
    doc.add_page(page);
    write_fixed(&mut doc, config)
}

fn first_annotation(bytes: Vec<u8>) -> oxidize_pdf::parser::objects::PdfDictionary {
    let out = PdfDocument::new(PdfReader::new(Cursor::new(bytes)).expect("parse written PDF"));
    let page = out.get_page(0).expect("page 0");
    let annots = page.annotations.expect("annots");
    let annot = out.resolve(annots.get(0).unwrap()).expect("resolve annot");
    annot.as_dict().expect("annotation dictionary").clone()
}

fn both_serialisers() -> [WriterConfig; 2] {
    // default -> write_object_value, modern -> write_object_value_to_buffer
    [WriterConfig::default(), WriterConfig::modern()]
}

#[test]
fn c5_names_with_irregular_characters() {
    use oxidize_pdf::objects::Object;
    for config in both_serialisers() {
        let bytes = annotation_with_property(
            "My Key#1",
            Object::Name("A B#(x)/y".to_string()),
            config,
        );
        let annot = first_annotation(bytes);
        let value = annot
            .get("My Key#1")
            .expect("key with space and '#' must survive the round trip");
        assert_eq!(value.as_name().map(|n| n.as_str()), Some("A B#(x)/y"));
    }
}

/// Decodes the literal string starting at `bytes[0] == b'('` the way
/// ISO 32000-1 §7.3.4.2 prescribes: escape sequences are honoured and an
/// unescaped end-of-line marker (CR, LF or CR LF) is read as a single LF.
/// (The crate's own lexer keeps raw CR bytes, so it cannot show the problem.)
fn decode_literal_string_per_spec(bytes: &[u8]) -> Vec<u8> {
    assert_eq!(bytes[0], b'(');
    let mut out = Vec::new();
    let mut depth = 1;
    let mut i = 1;
    while depth > 0 {
        let b = bytes[i];
        i += 1;
        match b {
            b'\\' => {
                let e = bytes[i];
                i += 1;
                match e {
                    b'n' => out.push(b'\n'),
                    b'r' => out.push(b'\r'),
                    b't' => out.push(b'\t'),
                    b'\r' => {
                        if bytes[i] == b'\n' {
                            i += 1;
                        }
                    }
                    b'\n' => {}
                    other => out.push(other),
                }
            }
            b'\r' => {
                if bytes[i] == b'\n' {
                    i += 1;
                }
                out.push(b'\n');
            }
            b'(' => {
                depth += 1;
                out.push(b);
            }
            b')' => {
                depth -= 1;
                if depth > 0 {
                    out.push(b);
                }
            }
            other => out.push(other),
        }
    }
    out
}

#[test]
fn c6_carriage_return_in_literal_string() {
    use oxidize_pdf::objects::Object;
    for config in both_serialisers() {
        let compressed = config.use_object_streams;
        let bytes =
            annotation_with_property("VerifStr", Object::String("a\rb(c)\r\nd".to_string()), config);
        if !compressed {
            let needle = b"/VerifStr ";
            let pos = bytes
                .windows(needle.len())
                .position(|w| w == needle)
                .expect("key in output");
            assert_eq!(
                decode_literal_string_per_spec(&bytes[pos + needle.len()..]),
                b"a\rb(c)\r\nd",
                "a conforming reader must see the original bytes"
            );
        }
        let annot = first_annotation(bytes);
        let value = annot.get("VerifStr").and_then(|o| o.as_string()).unwrap();
        assert_eq!(value.as_bytes(), b"a\rb(c)\r\nd");
    }
}

#[test]
fn c7_non_finite_reals() {
    use oxidize_pdf::objects::Object;
    for config in both_serialisers() {
        let compress = config.use_object_streams;
        let bytes = annotation_with_property(
            "VerifReal",
            Object::Array(vec![
                Object::Real(f64::NAN),
                Object::Real(f64::INFINITY),
                Object::Real(f64::NEG_INFINITY),
                Object::Real(1.5),
            ]),
            config,
        );
        if !compress {
            let text = String::from_utf8_lossy(&bytes);
            assert!(!text.contains("NaN"), "NaN token written");
            assert!(!text.contains("inf"), "inf token written");
        }
        let annot = first_annotation(bytes);
        let arr = annot.get("VerifReal").and_then(|o| o.as_array()).unwrap();
        let values: Vec<f64> = (0..4)
            .map(|i| arr.get(i).and_then(|o| o.as_real()).expect("number"))
            .collect();
        assert_eq!(values, vec![0.0, 0.0, 0.0, 1.5]);
    }
}

// ---------------------------------------------------------------- C8

type Ref = (u32, u16);

/// Reads the outline level whose first item is `first`, following /Next, and
/// checks /Parent, /Prev and the parent's /Last on the way. Returns the level
/// as nested `(title, children)` pairs.
fn read_outline_level(
    reader: &mut PdfReader<Cursor<Vec<u8>>>,
    parent: Ref,
    first: Ref,
    last: Ref,
) -> Vec<(String, Vec<String>)> {
    let mut out = Vec::new();
    let mut prev: Option<Ref> = None;
    let mut cur = Some(first);
    let mut guard = 0;
    while let Some(id) = cur {
        guard += 1;
        assert!(guard < 100, "outline /Next chain does not terminate");
        let dict = reader
            .get_object(id.0, id.1)
            .unwrap()
            .as_dict()
            .unwrap_or_else(|| panic!("outline item {id:?} is not a dictionary"))
            .clone();
        let title = dict.get("Title").and_then(|o| o.as_string()).unwrap().to_text();
        assert_eq!(
            dict.get("Parent").and_then(|o| o.as_reference()),
            Some(parent),
            "/Parent of {title}"
        );
        assert_eq!(
            dict.get("Prev").and_then(|o| o.as_reference()),
            prev,
            "/Prev of {title}"
        );
        let children = match dict.get("First").and_then(|o| o.as_reference()) {
            Some(child_first) => {
                let child_last = dict
                    .get("Last")
                    .and_then(|o| o.as_reference())
                    .expect("/Last next to /First");
                read_outline_level(reader, id, child_first, child_last)
                    .into_iter()
                    .map(|(t, grandchildren)| {
                        if grandchildren.is_empty() {
                            t
                        } else {
                            format!("{t}[{}]", grandchildren.join(","))
                        }
                    })
                    .collect()
            }
            None => Vec::new(),
        };
        out.push((title, children));
        prev = Some(id);
        cur = dict.get("Next").and_then(|o| o.as_reference());
    }
    assert_eq!(prev, Some(last), "/Last of the level under {parent:?}");
    out
}

#[test]
fn c8_outline_sibling_links() {
    use oxidize_pdf::structure::{OutlineItem, OutlineTree};

    let mut a1 = OutlineItem::new("A1");
    a1.add_child(OutlineItem::new("A1a"));
    let mut a = OutlineItem::new("A");
    a.add_child(a1);
    a.add_child(OutlineItem::new("A2"));
    let mut b = OutlineItem::new("B");
    b.add_child(OutlineItem::new("B1"));
    let mut tree = OutlineTree::new();
    tree.add_item(a);
    tree.add_item(b);
    tree.add_item(OutlineItem::new("C"));

    let mut doc = Document::new();
    doc.add_page(Page::a4());
    doc.set_outline(tree);
    let bytes = write_fixed(&mut doc, WriterConfig::default());

    let mut reader = PdfReader::new(Cursor::new(bytes)).unwrap();
    let root_ref = reader
        .catalog()
        .unwrap()
        .get("Outlines")
        .and_then(|o| o.as_reference())
        .expect("/Outlines reference");
    let root = reader
        .get_object(root_ref.0, root_ref.1)
        .unwrap()
        .as_dict()
        .unwrap()
        .clone();
    let first = root.get("First").and_then(|o| o.as_reference()).unwrap();
    let last = root.get("Last").and_then(|o| o.as_reference()).unwrap();

    let levels = read_outline_level(&mut reader, root_ref, first, last);
    let expected = vec![
        (
            "A".to_string(),
            vec!["A1[A1a]".to_string(), "A2".to_string()],
        ),
        ("B".to_string(), vec!["B1".to_string()]),
        ("C".to_string(), vec![]),
    ];
    assert_eq!(levels, expected);
}

// ---------------------------------------------------------------- C9

#[test]
fn c9_object_stream_ids_are_allocated_sequentially() {
    let mut doc = marker_doc();
    let bytes = write_fixed(&mut doc, WriterConfig::modern());

    let mut reader = PdfReader::new(Cursor::new(bytes.clone())).expect("parse written PDF");
    let size = reader
        .trailer()
        .dict()
        .get("Size")
        .and_then(|o| o.as_integer())
        .expect("/Size");
    assert!(
        size < 100,
        "a one-page document must not need {size} cross-reference entries"
    );
    assert_eq!(reader.page_count().unwrap(), 1);
    reopen_and_check(bytes, 1);
}
