//! Known-defect demonstration P1: CCITTFaxDecode with /K > 0 (ITU-T T.4 two-dimensional,
//! "MR" coding) is decoded as if /K were 0.
//!
//! `parser/filter_impls/ccitt.rs::decode_ccitt` maps `CcittK::Group3TwoDimensional` onto
//! `Group3OneDDecoder` ("For now, fall back to 1-D decoding"), so the tag bit after each EOL and
//! the pass / horizontal / vertical mode codes of 2-D coded lines are read as Modified Huffman
//! run lengths.
//!
//! The image (16 columns x 3 rows, W = white, B = black) and its hand encoding:
//!
//! ```text
//!            0         1
//!            0123456789012345      runs           packed (/BlackIs1 false: 1 = white)
//!   row 0    WWWWBBBWWWWWWWWW      W4 B3 W9       F1 FF
//!   row 1    WWWWWBWWWWWWWWWW      W5 B1 W10      FB FF
//!   row 2    WWWWWWWWWWBBWWWW      W10 B2 W4      FF CF
//! ```
//!
//! Codes used (ITU-T T.4 Table 2 terminating codes, Table 4 two-dimensional codes):
//!
//! ```text
//!   EOL        000000000001          (followed by ONE tag bit when K > 0: 1 = next line 1-D,
//!                                                                         0 = next line 2-D)
//!   white  4   1011                  black 1   010
//!   white  5   1100                  black 2   11
//!   white  9   10100                 black 3   10
//!   white 10   00111
//!   P          0001                  (pass: a0 moves under b2)
//!   H          001 + M(a0a1) + M(a1a2)
//!   V0         1                     (a1 under b1)
//!   VR1        011                   (a1 one to the right of b1)
//!   VL1        010                   (a1 one to the left of b1)
//! ```
//!
//! K = 4 stream (one 1-D line may be followed by up to K-1 = 3 2-D lines):
//!
//! ```text
//!   EOL 1   row 0, 1-D : white4 black3 white9          1011 10 10100
//!   EOL 0   row 1, 2-D : reference row 0 has changing elements at 4 (->B) and 7 (->W)
//!             a0=-1(W) b1=4  a1=5   -> VR1            011
//!             a0=5 (B) b1=7  a1=6   -> VL1            010
//!             a0=6 (W) b1=16 a1=16  -> V0             1
//!   EOL 0   row 2, 2-D : reference row 1 has changing elements at 5 (->B) and 6 (->W)
//!             a0=-1(W) b1=5 b2=6, a1=10 > b2 -> P     0001        (a0 := 6, still white)
//!             a0=6 (W) b1=16 a1=10, |a1-b1|>3 -> H    001 white4(1011) black2(11)   (a0 := 12)
//!             a0=12(W) b1=16 a1=16  -> V0             1
//! ```
//!
//! Concatenated (71 bits, one zero pad bit):
//!
//! ```text
//!   0000000000011 10111010100 | 0000000000010 0110101 | 0000000000010 00010011011111 | 0
//!   = 00 1D D4 00 13 50 01 09 BE
//! ```
//!
//! Harness validation: all hand-written streams (K = 4 and the K = 0 rendering of the same image)
//! are first decoded by a small, independent reference T.4 decoder contained in this file
//! (`reference_decode`), which reproduces the image exactly; see
//! `control_streams_are_valid_t4_encodings_of_the_image`.
//!
//! NOTE on the library-level control. `Group3OneDDecoder` is itself only a placeholder for Modified
//! Huffman decoding: every white run consumes a fixed 5 + 8 bits and every black run 6 + 8 bits, only
//! the make-up codes white 64/128 are recognised, and run lengths come from the top bits of the 8-bit
//! chunk. The K = 0 rendering of image A above is therefore NOT decoded correctly either (kept as the
//! `#[ignore]`d test `extra_ccitt_group3_1d_image_a_through_library`). To still have a control that
//! goes through `decode_ccitt`, a second image B is used whose one-dimensional code happens to fall
//! inside what the placeholder handles:
//!
//! ```text
//!   image B: 80 columns x 3 rows, every row W64 B16            packed: FF FF FF FF FF FF FF FF 00 00
//!   1-D line : white make-up 64 (11011) + white 0 (00110101) + black 16 (0000010111)
//!   2-D line identical to its reference line: V0 V0 = 1 1
//!             a0=-1(W) b1=64 a1=64 -> V0 ;  a0=64(B) b1=80 a1=80 -> V0
//!   every line is followed by 8 fill bits (T.4 "Fill": 0s before an EOL), the data ends with an
//!   RTC (6 x EOL, each followed by tag bit 1 when K > 0)
//! ```
//!
//! `control_ccitt_group3_1d_image_b_through_library` (K = 0) passes on the current tree, while the
//! K = 4 encoding of the very same image B fails in `p1_...` - which isolates the K > 0 fall-back.

use oxidize_pdf::parser::filter_impls::decode_ccitt;
use oxidize_pdf::parser::objects::{PdfDictionary, PdfObject};

const COLUMNS: usize = 16;
const ROWS: usize = 3;

/// Expected decoder output: rows packed MSB first, /BlackIs1 false so 1 = white, 0 = black.
const EXPECTED: [u8; 6] = [0xF1, 0xFF, 0xFB, 0xFF, 0xFF, 0xCF];

const COLUMNS_B: usize = 80;
const ROW_B: [u8; 10] = [0xFF, 0xFF, 0xFF, 0xFF, 0xFF, 0xFF, 0xFF, 0xFF, 0x00, 0x00];

fn expected_b() -> Vec<u8> {
    ROW_B.repeat(ROWS)
}

const EOL: &str = "000000000001";

// ---------------------------------------------------------------------------------------------
// bit writer
// ---------------------------------------------------------------------------------------------

#[derive(Default)]
struct BitWriter {
    bytes: Vec<u8>,
    nbits: usize,
}

impl BitWriter {
    /// Append a code given as a string of '0' / '1' (spaces are ignored), MSB first.
    fn put(&mut self, code: &str) -> &mut Self {
        for c in code.chars() {
            let bit = match c {
                '0' => 0u8,
                '1' => 1u8,
                ' ' => continue,
                other => panic!("bad bit char {other:?}"),
            };
            if self.nbits % 8 == 0 {
                self.bytes.push(0);
            }
            let last = self.bytes.last_mut().unwrap();
            *last |= bit << (7 - (self.nbits % 8));
            self.nbits += 1;
        }
        self
    }

    /// Zero-pad to a byte boundary and return the bytes.
    fn finish(self) -> Vec<u8> {
        self.bytes
    }
}

/// The image as a T.4 two-dimensional stream, K = 4, with EOLs and tag bits.
fn encode_k4() -> Vec<u8> {
    let mut w = BitWriter::default();
    // row 0: 1-D coded
    w.put(EOL).put("1");
    w.put("1011").put("10").put("10100"); // white 4, black 3, white 9
                                          // row 1: 2-D coded against row 0
    w.put(EOL).put("0");
    w.put("011").put("010").put("1"); // VR1, VL1, V0
                                      // row 2: 2-D coded against row 1
    w.put(EOL).put("0");
    w.put("0001"); // P
    w.put("001").put("1011").put("11"); // H, white 4, black 2
    w.put("1"); // V0
    w.finish()
}

/// The same image as a T.4 one-dimensional stream (K = 0) with EOLs (no tag bits).
fn encode_k0() -> Vec<u8> {
    let mut w = BitWriter::default();
    w.put(EOL).put("1011").put("10").put("10100"); // white 4, black 3, white 9
    w.put(EOL).put("1100").put("010").put("00111"); // white 5, black 1, white 10
    w.put(EOL).put("00111").put("11").put("1011"); // white 10, black 2, white 4
    w.finish()
}

/// Image B, K = 4: 1-D line, then two 2-D lines identical to their reference line, then RTC.
fn encode_b_k4() -> Vec<u8> {
    const FILL: &str = "00000000";
    let mut w = BitWriter::default();
    w.put(EOL).put("1");
    w.put("11011").put("00110101").put("0000010111").put(FILL); // white 64+0, black 16
    w.put(EOL).put("0").put("1").put("1").put(FILL); // V0 V0
    w.put(EOL).put("0").put("1").put("1").put(FILL); // V0 V0
    for _ in 0..6 {
        w.put(EOL).put("1"); // RTC
    }
    w.finish()
}

/// Image B, K = 0: three 1-D lines, then RTC.
fn encode_b_k0() -> Vec<u8> {
    const FILL: &str = "00000000";
    let mut w = BitWriter::default();
    for _ in 0..ROWS {
        w.put(EOL);
        w.put("11011").put("00110101").put("0000010111").put(FILL); // white 64+0, black 16
    }
    for _ in 0..6 {
        w.put(EOL); // RTC
    }
    w.finish()
}

fn params(k: i64, columns: usize, end_of_block: bool) -> PdfDictionary {
    let mut d = PdfDictionary::new();
    d.insert("K".to_string(), PdfObject::Integer(k));
    d.insert("Columns".to_string(), PdfObject::Integer(columns as i64));
    d.insert("Rows".to_string(), PdfObject::Integer(ROWS as i64));
    d.insert("EndOfLine".to_string(), PdfObject::Boolean(true));
    // false: no RTC is emitted and /Rows terminates the data (image A); true: RTC present (image B)
    d.insert("EndOfBlock".to_string(), PdfObject::Boolean(end_of_block));
    d
}

fn render(packed: &[u8], columns: usize) -> String {
    let bytes_per_row = columns.div_ceil(8);
    let mut s = String::new();
    for row in packed.chunks(bytes_per_row) {
        s.push_str("    ");
        for x in 0..columns {
            let byte = row.get(x / 8).copied().unwrap_or(0);
            s.push(if (byte >> (7 - x % 8)) & 1 == 1 {
                'W'
            } else {
                'B'
            });
        }
        s.push('\n');
    }
    s
}

// ---------------------------------------------------------------------------------------------
// independent reference decoder (T.4 1-D and 2-D; terminating codes 0..=16 and make-up
// codes 64/128 only) used to prove
// that the hand-written bit streams really encode EXPECTED
// ---------------------------------------------------------------------------------------------

const WHITE: [&str; 17] = [
    "00110101", "000111", "0111", "1000", "1011", "1100", "1110", "1111", "10011", "10100",
    "00111", "01000", "001000", "000011", "110100", "110101", "101010",
];
const BLACK: [&str; 17] = [
    "0000110111",
    "010",
    "11",
    "10",
    "011",
    "0011",
    "0010",
    "00011",
    "000101",
    "000100",
    "0000100",
    "0000101",
    "0000111",
    "00000100",
    "00000111",
    "000011000",
    "0000010111",
];
/// (code, mode): mode -3..=3 vertical offset a1-b1, 100 = pass, 101 = horizontal
const MODES: [(&str, i32); 9] = [
    ("1", 0),
    ("011", 1),
    ("010", -1),
    ("000011", 2),
    ("000010", -2),
    ("0000011", 3),
    ("0000010", -3),
    ("0001", 100),
    ("001", 101),
];

struct Bits {
    bits: Vec<u8>,
    pos: usize,
}

impl Bits {
    fn new(data: &[u8]) -> Self {
        let mut bits = Vec::new();
        for b in data {
            for i in (0..8).rev() {
                bits.push((b >> i) & 1);
            }
        }
        Self { bits, pos: 0 }
    }
    fn starts_with(&self, code: &str) -> bool {
        let c = code.as_bytes();
        self.pos + c.len() <= self.bits.len()
            && c.iter()
                .enumerate()
                .all(|(i, ch)| self.bits[self.pos + i] == ch - b'0')
    }
    fn take(&mut self, code: &str) -> bool {
        if self.starts_with(code) {
            self.pos += code.len();
            true
        } else {
            false
        }
    }
    fn bit(&mut self) -> u8 {
        let b = self.bits[self.pos];
        self.pos += 1;
        b
    }
    fn run(&mut self, black: bool) -> usize {
        // make-up codes 64 / 128 (the only ones needed here), followed by a terminating code
        let makeup: &[(&str, usize)] = if black {
            &[("0000001111", 64), ("000011001000", 128)]
        } else {
            &[("11011", 64), ("10010", 128)]
        };
        for (code, len) in makeup {
            if self.take(code) {
                return len + self.run(black);
            }
        }
        let table = if black { &BLACK } else { &WHITE };
        for (len, code) in table.iter().enumerate() {
            if self.take(code) {
                return len;
            }
        }
        panic!("reference decoder: no run code at bit {}", self.pos);
    }
    fn eol(&mut self) {
        // fill zeros are allowed before the EOL
        let mut zeros = 0;
        while self.bit() == 0 {
            zeros += 1;
        }
        assert!(zeros >= 11, "reference decoder: EOL expected");
    }
}

/// First changing element in `line` strictly right of `from` (`from` may be -1) whose colour is
/// `colour`, i.e. index i with line[i] == colour and line[i-1] != colour (line[-1] is white).
fn next_change(line: &[u8], from: i32, colour: u8) -> i32 {
    let n = line.len() as i32;
    let mut i = from + 1;
    while i < n {
        let prev = if i == 0 { 0 } else { line[(i - 1) as usize] };
        if line[i as usize] == colour && prev != colour {
            return i;
        }
        i += 1;
    }
    n
}

/// Decode to rows of pixels, 0 = white, 1 = black.
fn reference_decode(data: &[u8], k: i64, columns: usize, rows: usize) -> Vec<Vec<u8>> {
    let mut r = Bits::new(data);
    let mut out: Vec<Vec<u8>> = Vec::new();
    let mut reference = vec![0u8; columns];
    for _ in 0..rows {
        r.eol();
        let two_d = k > 0 && r.bit() == 0;
        let mut line = vec![0u8; columns];
        if !two_d {
            let (mut x, mut black) = (0usize, false);
            while x < columns {
                let n = r.run(black);
                for p in line.iter_mut().skip(x).take(n) {
                    *p = black as u8;
                }
                x += n;
                black = !black;
            }
            assert_eq!(x, columns);
        } else {
            let (mut a0, mut black) = (-1i32, false);
            while a0 < columns as i32 {
                // b1: first changing element on the reference line right of a0 with the colour
                // opposite to a0's colour; b2: the next changing element after b1.
                let b1 = next_change(&reference, a0, !black as u8);
                let b2 = next_change(&reference, b1, black as u8);
                let mode = MODES
                    .iter()
                    .find(|(c, _)| r.take(c))
                    .unwrap_or_else(|| panic!("reference decoder: no mode code at bit {}", r.pos))
                    .1;
                let start = a0.max(0) as usize;
                match mode {
                    100 => {
                        for p in &mut line[start..b2 as usize] {
                            *p = black as u8;
                        }
                        a0 = b2;
                    }
                    101 => {
                        let n1 = r.run(black);
                        let n2 = r.run(!black);
                        for p in &mut line[start..start + n1] {
                            *p = black as u8;
                        }
                        for p in &mut line[start + n1..start + n1 + n2] {
                            *p = !black as u8;
                        }
                        a0 = (start + n1 + n2) as i32;
                    }
                    d => {
                        let a1 = b1 + d;
                        for p in &mut line[start..a1 as usize] {
                            *p = black as u8;
                        }
                        a0 = a1;
                        black = !black;
                    }
                }
            }
        }
        reference = line.clone();
        out.push(line);
    }
    out
}

/// Pack reference-decoder rows the way the filter must output them (/BlackIs1 false).
fn pack(rows: &[Vec<u8>]) -> Vec<u8> {
    let mut out = Vec::new();
    for row in rows {
        for chunk in row.chunks(8) {
            let mut b = 0u8;
            for (i, px) in chunk.iter().enumerate() {
                b |= (1 - px) << (7 - i);
            }
            out.push(b);
        }
    }
    out
}

// ---------------------------------------------------------------------------------------------
// tests
// ---------------------------------------------------------------------------------------------

/// Decode through the public API, print what came out, and describe any mismatch.
fn library_check(
    label: &str,
    data: &[u8],
    k: i64,
    columns: usize,
    eob: bool,
    want: &[u8],
) -> Result<(), String> {
    let decoded = decode_ccitt(data, Some(&params(k, columns, eob)));
    eprintln!("{label} stream  ({} bytes): {data:02X?}", data.len());
    match decoded {
        Ok(d) => {
            eprintln!(
                "{label} decoded ({} bytes): {d:02X?}\n{}",
                d.len(),
                render(&d, columns)
            );
            if d == want {
                Ok(())
            } else {
                Err(format!(
                    "{label}: wrong pixels\nexpected:\n{}got:\n{}",
                    render(want, columns),
                    render(&d, columns)
                ))
            }
        }
        Err(e) => {
            eprintln!("{label} decoded: Err({e})");
            Err(format!("{label}: conforming stream rejected: {e}"))
        }
    }
}

/// Control (harness): the bit writer produces the hand-derived bytes, and every hand-written stream
/// decodes to the intended image with the independent reference decoder. Passes.
#[test]
fn control_streams_are_valid_t4_encodings_of_the_image() {
    let k4 = encode_k4();
    assert_eq!(
        k4,
        [0x00, 0x1D, 0xD4, 0x00, 0x13, 0x50, 0x01, 0x09, 0xBE],
        "bit writer output differs from the hand derivation"
    );
    assert_eq!(pack(&reference_decode(&k4, 4, COLUMNS, ROWS)), EXPECTED);
    assert_eq!(
        pack(&reference_decode(&encode_k0(), 0, COLUMNS, ROWS)),
        EXPECTED
    );

    assert_eq!(
        pack(&reference_decode(&encode_b_k4(), 4, COLUMNS_B, ROWS)),
        expected_b()
    );
    assert_eq!(
        pack(&reference_decode(&encode_b_k0(), 0, COLUMNS_B, ROWS)),
        expected_b()
    );
}

/// Control (library): image B coded purely one-dimensionally (K = 0) decodes correctly through
/// `decode_ccitt`, so the dictionary, EOL handling and output packing of the harness are right.
/// Passes on the current tree.
#[test]
fn control_ccitt_group3_1d_image_b_through_library() {
    library_check("B K=0", &encode_b_k0(), 0, COLUMNS_B, true, &expected_b()).unwrap();
}

/// Not part of P1: image A coded one-dimensionally does not decode either, because the Modified
/// Huffman decoder is a placeholder (see the module comment). Run with `-- --ignored`.
#[test]
#[ignore = "separate defect: Group3OneDDecoder does not implement the T.4 run-length tables"]
fn extra_ccitt_group3_1d_image_a_through_library() {
    library_check("A K=0", &encode_k0(), 0, COLUMNS, false, &EXPECTED).unwrap();
}

/// P1: K = 4 streams must decode to the images they encode. On the current tree the tag bits and
/// the 2-D mode codes are interpreted as 1-D run codes.
#[test]
fn p1_ccitt_group3_2d_is_decoded_two_dimensionally() {
    // image B: same pixels as the passing K = 0 control, only the coding differs
    let b = library_check("B K=4", &encode_b_k4(), 4, COLUMNS_B, true, &expected_b());
    // image A: exercises VR1, VL1, V0, pass and horizontal mode
    let a = library_check("A K=4", &encode_k4(), 4, COLUMNS, false, &EXPECTED);
    let failures: Vec<String> = [b, a].into_iter().filter_map(Result::err).collect();
    assert!(failures.is_empty(), "\n{}", failures.join("\n"));
}
