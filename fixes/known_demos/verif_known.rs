//! Demonstrations of the KNOWN (recorded, not repaired) findings listed in /verif/known_findings.txt.
//! Each test states what the specification requires; on the current tree every test in this file FAILS.
//! Copy to oxidize-pdf-core/tests/ of a scratch worktree and run `cargo test --offline -p oxidize-pdf --test verif_known`.
use oxidize_pdf::page_labels::PageLabelStyle;
use oxidize_pdf::text::TextEncoding;

/// C27 — ISO 32000-1 Table 159: "A to Z for the first 26 pages, AA to ZZ for the next 26, and so on".
/// The library renders bijective base-26 ("spreadsheet") lettering instead; its own unit tests pin that behaviour
/// (`to_letters(52) == "AZ"`), so the repair is blocked by existing tests.
#[test]
fn c27_letter_labels_repeat_one_letter() {
    assert_eq!(PageLabelStyle::UppercaseLetters.format(27), "AA");
    assert_eq!(PageLabelStyle::UppercaseLetters.format(28), "BB"); // library: "AB"
    assert_eq!(PageLabelStyle::UppercaseLetters.format(52), "ZZ"); // library: "AZ"
    assert_eq!(PageLabelStyle::LowercaseLetters.format(53), "aaa"); // library: "ba"
}

/// C25 — ISO 32000-1 Annex D.2: MacRomanEncoding code 0xDB (octal 333) is `currency` U+00A4; the tables map it to the
/// Euro sign. Blocked by the existing unit test `test_mac_roman_decode_high_range`, which asserts the Euro mapping.
#[test]
fn c25_macroman_0xdb_is_currency() {
    assert_eq!(TextEncoding::MacRomanEncoding.decode(&[0xDB]), "\u{00A4}");
    assert_eq!(TextEncoding::MacRomanEncoding.encode("\u{00A4}"), vec![0xDB]);
}

/// C25 — StandardEncoding and PDFDocEncoding have no table at all: both directions pass bytes through as UTF-8.
/// Annex D.2: StandardEncoding 0xE1 is `AE` (U+00C6), 0xA4 is `fraction` (U+2044); PDFDocEncoding 0x84 is U+2014, 0xA0 is U+20AC.
#[test]
fn c25_standard_and_pdfdoc_encodings_have_tables() {
    assert_eq!(TextEncoding::StandardEncoding.decode(&[0xE1]), "\u{00C6}");
    assert_eq!(TextEncoding::StandardEncoding.encode("\u{2044}"), vec![0xA4]);
    assert_eq!(TextEncoding::PdfDocEncoding.decode(&[0x84]), "\u{2014}");
    assert_eq!(TextEncoding::PdfDocEncoding.encode("\u{20AC}"), vec![0xA0]);
}
