"""Order-taint engine (DESIGN §4.2): no hash-map iteration order may reach output.

ORD = "a sequence / value whose content order depends on std HashMap/HashSet iteration order".
Sources   : iterators over std HashMap/HashSet (default hasher), crate functions that return ORD,
            struct fields that are assigned ORD anywhere.
Propagate : assignments, references, aggregates, iterator adaptors, collect into sequence
            containers, any call that receives an ORD argument returns ORD (conservative), pushes
            into a sequence container inside a loop driven by an ORD iterator.
Neutralise: sort* on the container (anywhere in the body: the maintainers' collect->sort->loop
            idiom), collecting into BTreeMap/BTreeSet/HashMap/HashSet/BinaryHeap, order-insensitive
            reductions (count, len, any, all, min*, max*, sum, product, contains, is_empty ...).
Sinks     : (A) an ORD value handed to an emission primitive or to a function that reaches one,
            (B) an emission primitive (transitively) called inside a loop / for_each driven by an
            ORD iterator, (C) an ORD value returned by an entry point of the scope,
            (D) choice: find/position/next/last/nth/find_map/min_by*/max_by* ... first-match over an
            ORD iterator whose result reaches A or C.
"""
import collections
from . import flow as FL
from . import cfg as CF
from . import lib as L

HASH_TYPES = ("std::collections::HashMap<", "std::collections::HashSet<", "std::collections::hash_map::",
              "std::collections::hash_set::")
SEQ_SINK_COLLECT = ("std::vec::Vec<", "std::string::String", "std::collections::VecDeque<", "std::boxed::Box<[",
                    "std::collections::LinkedList<")
UNORDERED_COLLECT = ("std::collections::BTreeMap<", "std::collections::BTreeSet<", "std::collections::HashMap<",
                     "std::collections::HashSet<", "std::collections::BinaryHeap<")
HASH_ITER_METHODS = ("iter", "iter_mut", "keys", "values", "values_mut", "into_keys", "into_values", "drain",
                     "into_iter", "difference", "union", "intersection", "symmetric_difference", "extract_if")
REDUCTIONS = ("count", "len", "any", "all", "min", "max", "sum", "product", "contains", "contains_key", "is_empty",
              "is_some", "is_none", "eq", "ne", "get", "get_mut", "capacity", "is_subset", "is_superset", "is_disjoint",
              "size_hint", "insert", "remove", "entry", "extend", "retain", "clear", "reserve", "drop", "fmt",
              "hash", "partial_cmp", "cmp", "type_id", "borrow", "to_owned_hash", "shrink_to_fit", "with_capacity",
              "or_insert", "or_insert_with", "or_default", "and_modify", "lock", "read", "write")
CHOICE = ("find", "find_map", "position", "rposition", "next", "last", "nth", "min_by", "max_by", "min_by_key",
          "max_by_key", "next_back", "peek", "first", "take", "skip", "step_by", "take_while", "skip_while",
          "try_for_each", "try_fold", "fold", "reduce", "for_each", "unzip", "partition")
SORTS = ("sort", "sort_by", "sort_by_key", "sort_unstable", "sort_unstable_by", "sort_unstable_by_key",
         "sort_by_cached_key", "sorted", "make_contiguous_sorted")


def _ty_is_hash(ty):
    t = ty.lstrip("&").replace("mut ", "").strip()
    return any(t.startswith(h) or ("<" + h) in t[:60] for h in HASH_TYPES)


def _is_hash_iter_source(c):
    """call that creates an iterator over a std hash container"""
    p = c.get("p") or ""
    a = c.get("a") or ""
    name = p.rsplit("::", 1)[-1]
    if name not in HASH_ITER_METHODS:
        return False
    if p.startswith("std::collections::HashMap::<") or p.startswith("std::collections::HashSet::<"):
        return True
    if p.startswith("std::collections::hash_map::") or p.startswith("std::collections::hash_set::"):
        return name in ("into_iter",)
    if p == "std::iter::IntoIterator::into_iter":
        st = c.get("self") or ""
        return _ty_is_hash(st)
    return False


def _collect_target(c):
    a = c.get("a") or ""
    # <I as Iterator>::collect::<Vec<..>>  /  FromIterator::from_iter
    if "::collect::<" in a:
        return a.split("::collect::<", 1)[1]
    if a.endswith("::from_iter") or "FromIterator" in a:
        return c.get("self") or a
    return None


class Engine:
    def __init__(self, facts, emit_prims, scope=None):
        self.facts = facts
        self.scope = scope          # set of fn ids to analyse (None = all)
        self.emit_prims = emit_prims
        self.ret_ord = {}           # fn id -> witness string
        self.field_ord = {}         # (adt-ish type, field) -> witness
        self.emits = self._compute_emits()
        self.results = {}           # fn id -> analysis result
        self.sources_seen = 0
        self.discharged_sort = 0
        self.discharged_collect = 0
        self.discharged_reduce = 0
        self.lossy_sorts = []

    KEY_OK = ("as_str", "deref", "clone", "as_ref", "borrow", "cmp", "partial_cmp", "number", "generation", "as_bytes", "then",
              "then_with", "reverse", "as_slice", "to_owned", "to_string", "unwrap_or", "total_cmp", "eq", "ne", "lt", "le", "gt", "ge",
              "as_deref", "0", "1", "copied", "cloned", "as_ref", "unwrap_or_default", "to_vec", "into")

    def _lossy_sort_key(self, fn, op):
        """the comparator/key closure of a sort applies a non-injective transformation to the elements"""
        fl = FL.flow(fn)
        seen, drecs = fl.back_slice(FL.op_locals(op))
        for d in drecs:
            if d[0] != "stmt":
                continue
            rv = fn.blocks[d[1]][0][d[2]][2]
            if rv[0] == "agg" and rv[1][0] == "clo":
                cf = self.facts.fns.get(rv[1][1])
                if cf is None:
                    continue
                for b, c, a, dd, t, u in cf.calls():
                    nm = (c.get("p") or "").rsplit("::", 1)[-1]
                    if nm not in self.KEY_OK:
                        return True
        return False

    def _compute_emits(self):
        facts = self.facts
        em = set()
        for fid, fn in facts.fns.items():
            for b, c, a, d, t, u in fn.calls():
                if L.is_call_to(c, self.emit_prims):
                    em.add(fid)
                    break
        # backward closure over callers
        work = list(em)
        while work:
            f = work.pop()
            for g in facts.callers.get(f, ()):
                if g not in em:
                    em.add(g)
                    work.append(g)
        return em

    # ---------------------------------------------------------------------------------
    def analyse_fn(self, fn):
        """returns dict with ord locals (local -> witness), sinks list, returns_ord witness"""
        facts = self.facts
        fl = FL.flow(fn)
        g = CF.cfg(fn)
        ordl = {}       # local -> witness (source description)
        sorted_locals = set()
        # containers sorted anywhere in the body (receiver of a sort call, following references)
        for b, c, args, dest, tgt, uw in fn.calls():
            name = (c.get("p") or "").rsplit("::", 1)[-1]
            if name in SORTS and args:
                if name not in ("sort", "sort_unstable") and len(args) > 1 and self._lossy_sort_key(fn, args[1]):
                    # a key that is not injective (to_lowercase, len, ...) leaves ties in hash order
                    self.lossy_sorts.append((fn.id, fn.where(b), name))
                    continue
                r = L.recv_of(fn, args)
                if r is not None:
                    sorted_locals.add((r[0], tuple(r[1][:1])))
                    if not r[1]:
                        sorted_locals.add((r[0], ()))
                # the receiver is usually `&mut [T]` obtained through deref_mut(&mut vec): every container
                # local in the receiver's backward slice counts as sorted
                seen_s, _ = fl.back_slice(FL.op_locals(args[0]), stop_at_calls=lambda cc: not L.is_call_to(cc, ["deref_mut", "deref", "as_mut_slice", "as_mut", "borrow_mut", "iter_mut"]))
                for x in seen_s:
                    t = fn.locals[x].lstrip("&").replace("mut ", "")
                    if t.startswith(SEQ_SINK_COLLECT) or t.startswith("["):
                        sorted_locals.add((x, ()))
        sinks = []
        changed = True
        rounds = 0
        loops0 = g.loops()
        loop_driver_blocks = set()
        backs = g.back_edges()
        for h, body in loops0.items():
            latches = [s_ for s_, hh in backs if hh == h]
            for bb in body:
                t = fn.term(bb)
                if t[0] == "call" and L.is_call_to(t[1], ["Iterator::next", "DoubleEndedIterator::next_back"]):
                    if latches and all(g.dominates(bb, l) for l in latches):
                        loop_driver_blocks.add(bb)

        def mark(l, why):
            nonlocal changed
            if l not in ordl and (l, ()) not in sorted_locals:
                ordl[l] = why
                changed = True

        def op_ord(op):
            pl = FL.op_place(op)
            if pl is None:
                return None
            if pl[0] in ordl:
                return ordl[pl[0]]
            # field taint
            fields = [p[2] for p in pl[1] if isinstance(p, list) and p[0] == "f" and p[2]]
            if fields:
                base_ty = fn.locals[pl[0]].lstrip("&").replace("mut ", "").strip()
                k = (base_ty.split("<")[0], fields[0])
                if k in self.field_ord:
                    return self.field_ord[k]
            return None

        while changed and rounds < 12:
            changed = False
            rounds += 1
            for b, blk in enumerate(fn.blocks):
                for st in blk[0]:
                    pl, rv = st[1], st[2]
                    why = None
                    for op in FL.rvalue_operands(rv):
                        why = why or op_ord(op)
                    for p in FL.rvalue_places(rv):
                        if rv[0] == "discr":
                            continue
                        why = why or op_ord(["c", p])
                    if why:
                        if pl[1] and any(isinstance(p, list) and p[0] == "f" for p in pl[1]):
                            # store into a field: global field taint (unless the field is sorted here)
                            fields = [p[2] for p in pl[1] if isinstance(p, list) and p[0] == "f" and p[2]]
                            base_ty = fn.locals[pl[0]].lstrip("&").replace("mut ", "").strip().split("<")[0]
                            if fields and (pl[0], (fields[0],)) not in sorted_locals:
                                k = (base_ty, fields[0])
                                if k not in self.field_ord and not base_ty.startswith("("):
                                    self.field_ord[k] = why
                                    self.global_changed = True
                        mark(pl[0], why)
                t = blk[1]
                if t[0] != "call":
                    continue
                c, args, dest = t[1], t[2], t[3]
                p = c.get("p") or ""
                name = p.rsplit("::", 1)[-1]
                where = fn.where(b)
                # sources
                if _is_hash_iter_source(c):
                    self.sources_seen += 1
                    mark(dest[0], "hash iteration %s at %s" % (L.short(p), where))
                    continue
                r = c.get("r")
                if r in self.ret_ord and name not in SORTS:
                    mark(dest[0], "%s returns hash-ordered data (%s)" % (L.short(r), self.ret_ord[r]))
                    continue
                if b in loop_driver_blocks and name in ("next", "next_back"):
                    continue   # the element of a for-loop is an ordinary value; only effects in the body matter
                argw = None
                argi = None
                for i, a in enumerate(args):
                    w = op_ord(a)
                    if w:
                        argw, argi = w, i
                        break
                if not argw:
                    continue
                # neutralisers
                if name in SORTS:
                    continue
                if name in REDUCTIONS and name not in ("extend",):
                    self.discharged_reduce += 1
                    continue
                ct = _collect_target(c)
                if ct is not None and any(ct.startswith(u) or ct.lstrip("<").startswith(u) for u in UNORDERED_COLLECT):
                    self.discharged_collect += 1
                    continue
                if name == "extend" and args:
                    r0 = L.recv_of(fn, args)
                    rty = fn.locals[r0[0]] if r0 else ""
                    if any(u in rty for u in UNORDERED_COLLECT) and not (r0 and r0[1]):
                        self.discharged_collect += 1
                        continue
                # sink A: ORD value handed to an emission primitive / emitting function
                rr = c.get("r") or p
                if L.is_call_to(c, self.emit_prims) or (rr in self.emits and rr in facts.fns):
                    sinks.append(("A", b, "hash-ordered value passed to %s" % L.short(rr), argw))
                # mutation of a container through &mut receiver with ORD argument (push/extend/append/push_str/insert)
                if name in ("push", "push_str", "extend", "extend_from_slice", "append", "push_back", "push_front", "insert_str",
                            "write_str", "write_fmt", "write_all") and argi is not None and argi > 0:
                    r0 = L.recv_of(fn, args)
                    if r0 is not None and (r0[0], tuple(r0[1][:1])) not in sorted_locals:
                        rty = fn.locals[r0[0]]
                        if not any(u in rty for u in UNORDERED_COLLECT) or r0[1]:
                            if r0[1]:
                                base_ty = rty.lstrip("&").replace("mut ", "").strip().split("<")[0]
                                k = (base_ty, r0[1][0])
                                if k not in self.field_ord:
                                    self.field_ord[k] = argw
                                    self.global_changed = True
                            else:
                                mark(r0[0], argw)
                # result: std/external callees (iterator adaptors, collect, join, format ...) propagate;
                # crate-local callees only through their own return summary (handled above)
                if (c.get("r") or "") in facts.fns and not (c.get("r") or "").endswith("}"):
                    continue
                if (dest[0], ()) not in sorted_locals:
                    kind = "choice " + name if name in CHOICE else name
                    mark(dest[0], argw if name not in CHOICE else "%s over %s" % (name, argw))
            # loops driven by ORD iterators: pushes in the body taint the receiver; emission in body = sink B
            loops = g.loops()
            for h, body in loops.items():
                drv = None
                for bb in body:
                    t = fn.term(bb)
                    if t[0] == "call" and L.is_call_to(t[1], ["Iterator::next", "DoubleEndedIterator::next_back"]):
                        w = op_ord(t[2][0]) if t[2] else None
                        if w:
                            drv = (bb, w)
                if drv is None:
                    continue
                for bb in sorted(body):
                    t = fn.term(bb)
                    if t[0] != "call":
                        continue
                    c, args = t[1], t[2]
                    p = c.get("p") or ""
                    name = p.rsplit("::", 1)[-1]
                    rr = c.get("r") or p
                    if L.is_call_to(c, self.emit_prims) or (rr in self.emits and rr in facts.fns):
                        s = ("B", bb, "%s is called inside a loop driven by %s" % (L.short(rr), drv[1]), drv[1])
                        if s not in sinks:
                            sinks.append(s)
                    if name in ("push", "push_str", "extend", "extend_from_slice", "append", "push_back", "push_front",
                                "write_str", "write_fmt", "insert_str") and args:
                        r0 = L.recv_of(fn, args)
                        if r0 is None:
                            continue
                        rty = fn.locals[r0[0]]
                        if any(u in rty for u in UNORDERED_COLLECT) and not r0[1]:
                            continue
                        if (r0[0], tuple(r0[1][:1])) in sorted_locals or (r0[0], ()) in sorted_locals:
                            self.discharged_sort += 1
                            continue
                        if r0[1]:
                            base_ty = rty.lstrip("&").replace("mut ", "").strip().split("<")[0]
                            k = (base_ty, r0[1][0])
                            if k not in self.field_ord:
                                self.field_ord[k] = "filled in a loop over " + drv[1]
                                self.global_changed = True
                        else:
                            mark(r0[0], "filled in a loop over " + drv[1])
                            for x in fl.pts.get(r0[0], ()):
                                mark(x, "filled in a loop over " + drv[1])
        # returns
        ret = ordl.get(0)
        return {"ord": ordl, "sinks": sinks, "ret": ret, "sorted": sorted_locals}

    def run(self, max_rounds=6):
        facts = self.facts
        fns = [f for fid, f in facts.fns.items() if self.scope is None or fid in self.scope]
        for rnd in range(max_rounds):
            self.global_changed = False
            self.sources_seen = 0
            self.discharged_sort = self.discharged_collect = self.discharged_reduce = 0
            for fn in fns:
                res = self.analyse_fn(fn)
                self.results[fn.id] = res
                if res["ret"] and fn.id not in self.ret_ord:
                    # iterator-returning wrappers and collection-returning functions
                    self.ret_ord[fn.id] = res["ret"]
                    self.global_changed = True
                # closures: an ORD value produced inside a closure body is returned to the adaptor
            if not self.global_changed:
                break
        return self.results


WRITER_PRIMS = ["writer::pdf_writer::PdfWriter::<W>::write_bytes", "std::io::Write::write_all", "std::io::Write::write",
                "std::io::Write::write_fmt", "writer::pdf_writer::PdfWriter::<W>::allocate_object_id"]


def check_scope(ctx, rule, roots, scope_prefixes=None, prims=None, what="output", returns_matter=True,
                allow=None, nondeterminism=True):
    """run the engine over the call-graph closure of `roots` (restricted to scope_prefixes when
    given) and report sinks; also reports clock/RNG/address nondeterminism reachable in scope"""
    facts = ctx.facts
    allow = allow or {}
    roots = [r for r in roots if r in facts.fns]
    if not ctx.floor(rule, "entry points of the %s scope" % what, len(roots), 1):
        return None
    pred = facts.reach(roots)
    scope = set(pred)
    if scope_prefixes:
        scope = set(f for f in scope if any(f.startswith(p) or ("<" + p) in f[:80] or f.startswith("<" + p) for p in scope_prefixes)) | set(roots)
    eng = Engine(facts, prims or WRITER_PRIMS, scope)
    res = eng.run()
    nsrc = 0
    import re as _re
    grouped = {}      # root source -> list of (sink key, where, message)

    def root_of(text):
        """the innermost `hash iteration <kind> at file:line` of a provenance text -> (key, where) with the key naming the
        function that iterates (no line number)"""
        m = _re.findall(r"hash iteration (\w+) at ([^:()\s]+):(\d+)", text or "")
        if not m:
            return None
        kind, file, line = m[-1]
        owner = None
        for f in facts.fns_by_file().get(file, []):
            if f.lo <= int(line) <= f.hi and (owner is None or f.lo >= owner.lo):
                owner = f
        oname = (owner.parent or owner.id) if owner is not None else file
        return "order-source:%s:%s" % (oname, kind), "%s:%s" % (file, line)
    for fid in sorted(scope):
        r = res.get(fid)
        if r is None:
            continue
        fn = facts.fns[fid]
        for kind, b, msg, src in r["sinks"]:
            key = "%s:%s:%s" % (fid, kind, L.short((fn.term(b)[1].get("r") or fn.term(b)[1].get("p") or "?")))
            if key in allow:
                ctx.ok(rule, key, "reviewed: " + allow[key], fn.where(b))
                continue
            ro = root_of(src) or root_of(msg)
            if ro is not None:
                grouped.setdefault(ro, []).append((key, fn.where(b), msg))
                continue
            ctx.violation(rule, key, "%s — the %s then depends on the process's hash seed (source: %s)" % (msg, what, src),
                          fn.where(b), {"call_path": facts.path_to(pred, fid)[-6:]})
        if returns_matter and fid in roots and r["ret"]:
            key = "%s:C:return" % fid
            if key in allow:
                ctx.ok(rule, key, "reviewed: " + allow[key], fn.where())
            else:
                ro = root_of(r["ret"])
                if ro is not None:
                    grouped.setdefault(ro, []).append((key, fn.where(), "entry point returns hash-ordered data (%s)" % r["ret"]))
                else:
                    ctx.violation(rule, key, "entry point returns hash-ordered data (%s): the %s differs between runs" % (r["ret"], what),
                                  fn.where())
        for l, w in r["ord"].items():
            if w.startswith("hash iteration"):
                nsrc += 1
    # one report per root cause: the hash iteration, with the sinks it reaches as the witness
    for (skey, swhere), sinks in sorted(grouped.items()):
        sinks.sort()
        ctx.violation(rule, skey, "the hash-map/set iteration at %s is not put into a defined order before its elements reach the %s: "
                      "%d sink(s), e.g. %s — the %s then depends on the process's hash seed"
                      % (swhere, what, len(sinks), "; ".join("%s at %s" % (k, w) for k, w, m in sinks[:3]), what), swhere,
                      {"sinks": [{"sink": k, "where": w, "how": m[:300]} for k, w, m in sinks[:40]]})
    for fid_, where_, name_ in sorted(set(eng.lossy_sorts)):
        if fid_ in scope or (facts.fns[fid_].parent or "") in scope:
            ctx.note("sort with a non-injective key (%s) at %s does not fix the order of tied elements" % (name_, where_))
    ctx.counts[rule + ":functions_in_scope"] = len(scope)
    ctx.counts[rule + ":hash_iteration_sources"] = eng.sources_seen
    ctx.counts[rule + ":discharged_by_sort"] = eng.discharged_sort
    ctx.counts[rule + ":discharged_by_unordered_collect"] = eng.discharged_collect
    ctx.counts[rule + ":discharged_by_reduction"] = eng.discharged_reduce
    ctx.counts[rule + ":order_tainted_fields"] = len(eng.field_ord)
    ctx.counts[rule + ":functions_returning_hash_order"] = len([f for f in eng.ret_ord if f in scope])
    for fid in sorted(scope):
        r = res.get(fid)
        if r and not r["sinks"] and any(w.startswith("hash iteration") for w in r["ord"].values()):
            ctx.ok(rule, "%s:hash-iteration-discharged" % fid, "hash iteration present, no sink reached", facts.fns[fid].where())
    if nondeterminism:
        ND = ["std::time::SystemTime::now", "std::time::Instant::now", "chrono::Utc::now", "chrono::Local::now",
              "rand::random", "rand::thread_rng", "rand::rng", "std::thread::current", "std::process::id",
              "std::collections::hash_map::RandomState::new", "uuid::Uuid::new_v4"]
        for fid in sorted(scope):
            fn = facts.fns[fid]
            for b, c, a, d, t, u in fn.calls():
                if L.is_call_to(c, ND) or (c.get("p") or "").startswith("rand::"):
                    key = "%s:nondeterminism:%s" % (fid, L.short(c["p"]))
                    if key in allow:
                        ctx.ok(rule, key, "reviewed: " + allow[key], fn.where(b))
                    else:
                        ctx.violation(rule, key, "%s is reachable from the %s path (%s): repeated runs differ" %
                                      (c["p"], what, " -> ".join(L.short(x) for x in facts.path_to(pred, fid)[-4:])), fn.where(b))
    return eng
