"""Cycle guards (DESIGN §4.3): reference-following loops and recursion.

ref_loops: a loop whose body loads an indirect object (get_object / resolve ...) and which is not
driven by a finite std iterator must contain, on every path from its header to the load, a
visited-set test (switch on the result of HashSet/BTreeSet insert/contains) or an explicit
iteration counter compared with a constant.
recursion: every call-graph cycle in scope must contain a depth guard.
"""
from . import cfg as CF
from . import flow as FL
from . import lib as L

SET_TESTS = ["std::collections::HashSet::<T, S, A>::insert", "std::collections::HashSet::<T, S, A>::contains",
             "std::collections::BTreeSet::<T, A>::insert", "std::collections::BTreeSet::<T, A>::contains",
             "std::collections::HashMap::<K, V, S, A>::contains_key", "std::collections::HashMap::<K, V, S, A>::insert"]
FINITE_ITERS = ("std::slice::Iter<", "std::slice::IterMut<", "std::vec::IntoIter<", "std::ops::Range<", "std::ops::RangeInclusive<",
                "std::iter::", "std::collections::hash_map::", "std::collections::btree_map::", "std::collections::hash_set::",
                "std::str::", "std::collections::btree_set::", "std::collections::vec_deque::Iter", "core::slice::", "std::array::IntoIter<")


def loop_exit_switches(fn, g, body):
    out = []
    for b in body:
        t = fn.term(b)
        if t[0] == "sw":
            if any(s not in body for s in g.succ[b]):
                out.append(b)
    return out


def is_iterator_driven(fn, g, body, header=None):
    """some call of Iterator::next on a finite std iterator is executed on every iteration: its
    block dominates every back-edge source of the loop"""
    latches = [s for s, h in g.back_edges() if h == header] if header is not None else []
    for b in body:
        t = fn.term(b)
        if t[0] != "call" or not L.is_call_to(t[1], ["Iterator::next", "DoubleEndedIterator::next_back"]):
            continue
        st = t[1].get("self") or ""
        if "Drain" in st or not any(st.startswith(p) or ("<" + p) in st for p in FINITE_ITERS):
            continue
        if not (latches and all(g.dominates(b, l) for l in latches)):
            continue
        # the iterator must be created outside this loop (otherwise it drives an inner loop only)
        r = L.recv_of(fn, t[2])
        if r is None:
            continue
        fl = FL.flow(fn)
        created_inside = False
        for d in fl.defs.get(r[0], ()):
            if d[0] in ("stmt", "call") and d[1] in body:
                created_inside = True
        if not created_inside:
            return True
    return False


def counter_guard_blocks(fn, g, body):
    """blocks with a switch on a comparison between a loop-carried counter (incremented by a
    constant inside the loop) and a constant"""
    fl = FL.flow(fn)
    out = []
    incremented = set()
    for b in body:
        for st in fn.blocks[b][0]:
            rv = st[2]
            if rv[0] == "bin" and rv[1].startswith("Add") and (rv[2][0] == "k" or rv[3][0] == "k"):
                seen, _ = fl.back_slice([st[1][0]])
                for o in (rv[2], rv[3]):
                    for l in FL.op_locals(o):
                        incremented.add(l)
    for b in body:
        t = fn.term(b)
        if t[0] != "sw":
            continue
        for st in fn.blocks[b][0]:
            rv = st[2]
            if rv[0] == "bin" and rv[1] in ("Lt", "Le", "Gt", "Ge") and (rv[2][0] == "k" or rv[3][0] == "k"):
                locs = FL.op_locals(rv[2]) + FL.op_locals(rv[3])
                seen, _ = fl.back_slice(locs)
                if seen & incremented:
                    # must be the counter itself, not a len()
                    calls = L.value_slice_calls(fn, locs)
                    if not any(L.is_call_to(c, ["len"]) for cb, c, a in calls):
                        out.append(b)
    return out


def check_ref_loops(ctx, rule, fn, loaders, label=None, require=1):
    """returns number of guarded / reported loops"""
    g = CF.cfg(fn)
    loops = g.loops()
    label = label or L.short(fn.id)
    load_blocks = [b for b, c, a, d in L.calls_to(fn, loaders)]
    found = 0
    # outermost loops containing a loader
    cands = []
    for h, body in loops.items():
        if any(b in body for b in load_blocks):
            cands.append((h, body))
    outer = []
    for h, body in cands:
        if not any(h2 != h and h in b2 for h2, b2 in cands):
            outer.append((h, body))
    for n, (h, body) in enumerate(sorted(outer)):
        key = "%s:ref-loop#%d" % (label, n)
        if is_iterator_driven(fn, g, body, h):
            ctx.ok(rule, key, "driven by a finite std iterator", fn.where(h), nontrivial=False)
            continue
        found += 1
        tests = []
        for b, c, a, d in L.calls_to(fn, SET_TESTS):
            if b not in body:
                continue
            if "HashMap" in c["p"] and L.short(c["p"]) == "insert":
                continue
            te, fe = L.bool_edges(fn, d[0])
            if te or fe:
                tests += [s for s, t in te + fe]
        tests += counter_guard_blocks(fn, g, body)
        targets = [b for b in load_blocks if b in body]
        w = None
        if tests:
            gg = CF.cfg(fn, thread=True)
            w = gg.path(h, set(targets) - set(tests), avoid_blocks=tests)
        if not tests or w is not None:
            ctx.violation(rule, key, "the loop at %s follows object references (%s) and decides its next iteration from what it loaded, "
                          "but no visited-set test or iteration counter guards the load: a reference cycle in the file makes it run "
                          "forever" % (fn.where(h), ", ".join(sorted(set(L.short(fn.term(b)[1]["p"]) for b in targets)))),
                          fn.where(h), {"path_lines": [fn.line(x) for x in (w or [])][:10]})
        else:
            ctx.ok(rule, key, "guarded by a visited-set test / counter", fn.where(h))
    return found
