"""Cycle guards (DESIGN §4.3): reference-following loops and recursion.

ref_loops: a loop whose body loads an indirect object (get_object / resolve ...) and which is not
driven by a finite std iterator must contain, on every path from its header to the load, a
visited-set test (switch on the result of HashSet/BTreeSet insert/contains) or an explicit
iteration counter compared with a constant.
recursion: every call-graph cycle in scope must contain a depth guard.
"""
from . import cfg as CF
from . import flow as FL
from . import lib as L

SET_TESTS = ["std::collections::HashSet::<T, S, A>::insert", "std::collections::HashSet::<T, S, A>::contains",
             "std::collections::BTreeSet::<T, A>::insert", "std::collections::BTreeSet::<T, A>::contains",
             "std::collections::HashMap::<K, V, S, A>::contains_key", "std::collections::HashMap::<K, V, S, A>::insert"]
FINITE_ITERS = ("std::slice::Iter<", "std::slice::IterMut<", "std::vec::IntoIter<", "std::ops::Range<", "std::ops::RangeInclusive<",
                "std::iter::", "std::collections::hash_map::", "std::collections::btree_map::", "std::collections::hash_set::",
                "std::str::", "std::collections::btree_set::", "std::collections::vec_deque::Iter", "core::slice::", "std::array::IntoIter<")


def loop_exit_switches(fn, g, body):
    out = []
    for b in body:
        t = fn.term(b)
        if t[0] == "sw":
            if any(s not in body for s in g.succ[b]):
                out.append(b)
    return out


def is_iterator_driven(fn, g, body, header=None):
    """some call of Iterator::next on a finite std iterator is executed on every iteration: its
    block dominates every back-edge source of the loop"""
    latches = [s for s, h in g.back_edges() if h == header] if header is not None else []
    for b in body:
        t = fn.term(b)
        if t[0] != "call" or not L.is_call_to(t[1], ["Iterator::next", "DoubleEndedIterator::next_back"]):
            continue
        st = t[1].get("self") or ""
        if "Drain" in st or not any(st.startswith(p) or ("<" + p) in st for p in FINITE_ITERS):
            continue
        if not (latches and all(g.dominates(b, l) for l in latches)):
            continue
        # the iterator must be created outside this loop (otherwise it drives an inner loop only)
        r = L.recv_of(fn, t[2])
        if r is None:
            continue
        fl = FL.flow(fn)
        created_inside = False
        for d in fl.defs.get(r[0], ()):
            if d[0] in ("stmt", "call") and d[1] in body:
                created_inside = True
        if not created_inside:
            return True
    return False


def counter_guard_blocks(fn, g, body):
    """blocks with a switch on a comparison between a loop-carried counter (incremented by a
    constant inside the loop) and a constant"""
    fl = FL.flow(fn)
    out = []
    incremented = set()
    for b in body:
        for st in fn.blocks[b][0]:
            rv = st[2]
            if rv[0] == "bin" and rv[1].startswith("Add") and (rv[2][0] == "k" or rv[3][0] == "k"):
                seen, _ = fl.back_slice([st[1][0]])
                for o in (rv[2], rv[3]):
                    for l in FL.op_locals(o):
                        incremented.add(l)
    for b in body:
        t = fn.term(b)
        if t[0] != "sw":
            continue
        for st in fn.blocks[b][0]:
            rv = st[2]
            if rv[0] == "bin" and rv[1] in ("Lt", "Le", "Gt", "Ge") and (rv[2][0] == "k" or rv[3][0] == "k"):
                locs = FL.op_locals(rv[2]) + FL.op_locals(rv[3])
                seen, _ = fl.back_slice(locs)
                if seen & incremented:
                    # must be the counter itself, not a len()
                    calls = L.value_slice_calls(fn, locs)
                    if not any(L.is_call_to(c, ["len"]) for cb, c, a in calls):
                        out.append(b)
    return out


def worklist_none_edges(facts, fn, g, body, h):
    """work-list loops (`while let Some(item) = queue.pop()`): when the visited test is applied only to items whose
    optional identity field is Some, the untested path is harmless provided every item built *inside* the loop carries
    Some(..) in that field (only items queued before the loop can take it, finitely often).  Returns the None-edges
    [(switch block, target)] that may be excluded from the search for an unguarded path, or []."""
    latches = [s for s, hh in g.back_edges() if hh == h]
    pops = [(b, d) for b, c, a, d in L.calls_to(fn, ["Vec::<T, A>::pop", "VecDeque::<T, A>::pop_front", "VecDeque::<T, A>::pop_back"])
            if b in body and d and g.dominates(b, latches[0] if latches else b)]
    if not pops:
        return []
    pb, pd = pops[0]
    oty = fn.locals[pd[0]]
    if not oty.startswith("std::option::Option<"):
        return []
    item_ty = oty[len("std::option::Option<"):-1]
    adt = None
    for name, a in facts.adts.items():
        if name.replace("<R>", "").endswith(item_ty.replace("<R>", "").split("::")[-1]) and item_ty.split("::")[-1] == name.split("::")[-1]:
            adt = (name, a)
    if adt is None:
        return []
    fl = FL.flow(fn)
    out = []
    for b in body:
        t = fn.term(b)
        if t[0] != "sw":
            continue
        for st in fn.blocks[b][0]:
            rv = st[2]
            if rv[0] != "discr" or FL.op_place(t[1]) is None or FL.op_place(t[1])[0] != st[1][0]:
                continue
            lty = fn.locals[rv[1][0]]
            if not lty.startswith("std::option::Option<") or pd[0] not in fl.back_slice([rv[1][0]])[0]:
                continue
            # which field of the item type has this type?  every in-loop aggregate of the item type must put Some there
            idxs = [i for i, f in enumerate(adt[1]["variants"][0]["fields"]) if f[1] == lty] if adt[1].get("variants") else []
            if len(idxs) != 1:
                continue
            i = idxs[0]
            all_some = True
            nagg = 0
            for b2 in body:
                for st2 in fn.blocks[b2][0]:
                    r2 = st2[2]
                    if r2[0] == "agg" and r2[1][0] == "adt" and r2[1][1] == adt[0]:
                        nagg += 1
                        op = r2[2][i]
                        pl = FL.op_place(op)
                        ok = False
                        if pl is not None and not pl[1]:
                            ds = [d for d in fl.defs.get(pl[0], ()) if d[0] == "stmt"]
                            ok = bool(ds) and all(fn.blocks[d[1]][0][d[2]][2][0] == "agg" and fn.blocks[d[1]][0][d[2]][2][1][:3] == ["adt", "std::option::Option", "Some"] for d in ds)
                        if not ok:
                            all_some = False
            if nagg and all_some:
                some_t = [tb for v, tb in t[2] if v == 1]
                for s2 in g.succ[b]:
                    if s2 not in some_t:
                        out.append((b, s2))
    return out


PUSHES = ["Vec::<T, A>::push", "VecDeque::<T, A>::push_back", "VecDeque::<T, A>::push_front"]
POPS = ["Vec::<T, A>::pop", "VecDeque::<T, A>::pop_front", "VecDeque::<T, A>::pop_back"]


def is_guarded_push_helper(f2):
    """f2 queues an item only when a set test says it has not been seen: every block that pushes onto a collection is
    reachable from the entry only through the `newly inserted` / `not contained` edge of a HashSet / BTreeSet test"""
    pushes = [b for b, c, a, d in L.calls_to(f2, PUSHES)]
    if not pushes:
        return False
    fresh = []
    for b, c, a, d in L.calls_to(f2, SET_TESTS):
        if "Map" in c["p"]:
            continue
        te, fe = L.bool_edges(f2, d[0])
        fresh += te if L.short(c["p"]) == "insert" else fe
    if not fresh:
        return False
    gg = CF.cfg(f2, thread=True)
    return gg.path(0, pushes, avoid_edges=fresh) is None


def push_time_guard(facts, fn, body):
    """name of the helper when the loop's work list is filled, inside the loop, only through a guarded-push helper whose
    visited set lives outside the loop (so every reference is queued at most once and the loop is finite); None otherwise"""
    pops = [(b, c, a, d) for b, c, a, d in L.calls_to(fn, POPS) if b in body]
    if len(pops) != 1:
        return None
    wl = L.recv_of(fn, pops[0][2])
    if wl is None:
        return None
    for b, c, a, d in L.calls_to(fn, PUSHES):
        r = L.recv_of(fn, a)
        if b in body and (r is None or r[0] == wl[0]):
            return None                 # a direct, untested push inside the loop
    fl = FL.flow(fn)
    helper = None
    for b, c, a, d, t, u in fn.calls():
        if b not in body or not isinstance(c, dict):
            continue
        f2 = facts.fns.get(c.get("r"))
        if f2 is None or not is_guarded_push_helper(f2):
            continue
        recvs = [L.recv_of(fn, [x]) for x in a]
        if not any(r and r[0] == wl[0] for r in recvs):
            continue
        sets = [r[0] for r in recvs if r and "Set<" in str(fn.locals[r[0]] if r[0] < len(fn.locals) else "")]
        if not sets:
            return None
        for sl in sets:
            for d0 in fl.defs.get(sl, ()):
                if d0[0] in ("call", "stmt") and d0[1] in body:
                    return None         # the set is re-created inside the loop
        helper = f2.id
    return helper


def check_ref_loops(ctx, rule, fn, loaders, label=None, require=1):
    """returns number of guarded / reported loops"""
    g = CF.cfg(fn)
    loops = g.loops()
    label = label or L.short(fn.id)
    load_blocks = [b for b, c, a, d in L.calls_to(fn, loaders)]
    found = 0
    # outermost loops containing a loader
    cands = []
    for h, body in loops.items():
        if any(b in body for b in load_blocks):
            cands.append((h, body))
    outer = []
    for h, body in cands:
        if not any(h2 != h and h in b2 for h2, b2 in cands):
            outer.append((h, body))
    for n, (h, body) in enumerate(sorted(outer)):
        key = "%s:ref-loop#%d" % (label, n)
        if is_iterator_driven(fn, g, body, h):
            ctx.ok(rule, key, "driven by a finite std iterator", fn.where(h), nontrivial=False)
            continue
        found += 1
        tests = []
        for b, c, a, d in L.calls_to(fn, SET_TESTS):
            if b not in body:
                continue
            if "HashMap" in c["p"] and L.short(c["p"]) == "insert":
                continue
            te, fe = L.bool_edges(fn, d[0])
            if te or fe:
                tests += [s for s, t in te + fe]
        for b, c, a, d in L.calls_to(fn, ["std::collections::HashMap::<K, V, S, A>::entry", "std::collections::BTreeMap::<K, V, A>::entry"]):
            if b in body:
                y, n = L.discr_edges(fn, d[0], 1)
                tests += [s for s, t in y + n]
        tests += counter_guard_blocks(fn, g, body)
        targets = [b for b in load_blocks if b in body]
        w = None
        if tests:
            gg = CF.cfg(fn, thread=True)
            w = gg.path(h, set(targets) - set(tests), avoid_blocks=tests)
            if w is not None:
                ne = worklist_none_edges(ctx.facts, fn, gg, body, h)
                if ne and gg.path(h, set(targets) - set(tests), avoid_blocks=tests, avoid_edges=ne) is None:
                    ctx.ok(rule, key, "work-list loop: the visited test guards every item queued inside the loop (their identity field is "
                           "always Some); only the items queued before the loop bypass it", fn.where(h))
                    continue
        if not tests or w is not None:
            pt = push_time_guard(ctx.facts, fn, body)
            if pt:
                ctx.ok(rule, key, "work-list loop: items are queued inside the loop only through %s, which pushes an item only when "
                       "the visited set (created outside the loop) did not contain it — every reference is queued at most once" % L.short(pt),
                       fn.where(h))
                ctx.push_time_loops = getattr(ctx, "push_time_loops", []) + [(fn.id, h, pt)]
                continue
            ctx.violation(rule, key, "the loop at %s follows object references (%s) and decides its next iteration from what it loaded, "
                          "but no visited-set test or iteration counter guards the load: a reference cycle in the file makes it run "
                          "forever" % (fn.where(h), ", ".join(sorted(set(L.short(fn.term(b)[1]["p"]) for b in targets)))),
                          fn.where(h), {"path_lines": [fn.line(x) for x in (w or [])][:10]})
        else:
            ctx.ok(rule, key, "guarded by a visited-set test / counter", fn.where(h))
    return found


GUARD_CALLS = ["StackSafeContext::enter", "RecursionGuard::new", "StackSafeContext::check_depth", "enter_scope"]


_INTS = ("u8", "u16", "u32", "u64", "usize", "i32", "i64", "isize")


def depth_guard_field(fn):
    """name of the counter field if fn is a depth guard: it compares a field of its receiver with an
    integer constant, returns a Result, and increments that same field (`self.f += c`)"""
    if not fn.ret or not fn.ret.startswith("std::result::Result"):
        return None
    copies = {}
    cmp_fields = set()
    inc_fields = set()

    def field_of(op):
        pl = FL.op_place(op)
        if pl is None:
            return None
        if pl[1]:
            fs = [p[2] for p in pl[1] if isinstance(p, list) and p[0] == "f"]
            return fs[-1] if fs and pl[0] == 1 else None
        return copies.get(pl[0])
    for blk in fn.blocks:
        for st in blk[0]:
            pl, rv = st[1], st[2]
            if rv[0] == "use" and not pl[1]:
                f = field_of(rv[1])
                if f:
                    copies[pl[0]] = f
    tup = {}
    for blk in fn.blocks:
        for st in blk[0]:
            pl, rv = st[1], st[2]
            if rv[0] == "bin" and rv[1] in ("Ge", "Gt", "Lt", "Le"):
                for a, b in ((rv[2], rv[3]), (rv[3], rv[2])):
                    if b[0] == "k" and isinstance(b[2], int) and not isinstance(b[2], bool) and field_of(a):
                        cmp_fields.add(field_of(a))
            if rv[0] == "bin" and rv[1].startswith("Add") and not pl[1]:
                for a, b in ((rv[2], rv[3]), (rv[3], rv[2])):
                    if b[0] == "k" and isinstance(b[2], int) and b[2] > 0 and field_of(a):
                        tup[pl[0]] = field_of(a)
    for blk in fn.blocks:
        for st in blk[0]:
            pl, rv = st[1], st[2]
            if pl[1] and pl[0] == 1 and rv[0] == "use":
                fs = [p[2] for p in pl[1] if isinstance(p, list) and p[0] == "f"]
                src = FL.op_place(rv[1])
                if fs and src and tup.get(src[0]) == fs[-1]:
                    inc_fields.add(fs[-1])
    both = cmp_fields & inc_fields
    return sorted(both)[0] if both else None


def tag_exclusion_guard(facts, fn, comp):
    """self-recursion over dictionaries bounded to one level by a type tag: every recursive call is dominated (a) by a
    comparison of the *current* node's /K value with a literal V and (b) by a call to a predicate that reads /K of the
    *next* node and mentions the same literal V.  With opposite polarities (checked by review, not here) the callee can
    never satisfy (a) again.  Returns a description or None."""
    g = CF.cfg(fn)
    rec = [b for b, c, a, d, t, u in fn.calls() if isinstance(c, dict) and c.get("r") in comp]
    if not rec:
        return None
    own = []      # (block, K, V): eq/ne of get(K) on own data with literal V
    for b, c, a, d, t, u in fn.calls():
        if isinstance(c, dict) and L.is_call_to(c, ["PartialEq::eq", "PartialEq::ne"]) and len(a) == 2:
            for x, y in ((a[0], a[1]), (a[1], a[0])):
                v = L.resolve_str_operand(fn, y)
                if v is None:
                    continue
                for k in L.dict_key_sources(facts, fn, FL.op_locals(x)):
                    own.append((b, k, v))
    nxt = []      # (block, K set, V set): predicate call on the next node
    for b, c, a, d, t, u in fn.calls():
        f2 = facts.fns.get(c.get("r")) if isinstance(c, dict) else None
        if f2 is None or f2.id in comp:
            continue
        grp = [f2] + [x for k2, x in facts.fns.items() if k2.startswith(f2.id + "::")]
        ks, vs = set(), set()
        for x in grp:
            ks |= L._keys_in_fn(facts, x, None)
            vs |= L.fn_strs(x)
        if ks and (vs - ks) and f2.ret in (None, "bool"):
            nxt.append((b, ks, vs - ks))
    found = None
    for r in rec:
        ok = False
        for b1, k, v in own:
            if not g.dominates(b1, r):
                continue
            for b2, ks, vs in nxt:
                if g.dominates(b2, r) and k in ks and v in vs:
                    ok = True
                    found = (k, v)
        if not ok:
            return None
    return "recursion only out of a node whose /%s equals %r into a node whose /%s is tested against %r first" % (found[0], found[1], found[0], found[1])


def _acyclic_without(facts, comp, cut, succ):
    rest = [c for c in comp if c not in cut]
    rs = set(rest)
    for c2 in CF.sccs(rest, lambda f: [g for g in succ(f) if g in rs]):
        if len(c2) > 1 or (c2 and c2[0] in succ(c2[0])):
            return False
    return True


def check_recursion(ctx, rule, scope, label="scope", allow=None):
    """every call-graph cycle among `scope` must be cut by depth guards.  A function is a *cut point* when one of the
    recognised guards dominates every call it makes back into its component:
      - a call of a guard routine (GUARD_CALLS) or of a counter-field guard (`self.depth >= MAX -> Err; self.depth += 1`),
        or such a counter-field guard inline;
      - an in-progress set: a `contains`/`insert` test on a set whose hit returns early, with the `insert` of the current
        key also dominating the recursive calls;
      - an integer parameter passed on as `param + const` and compared with a bound before the call.
    The component minus its cut points must be acyclic (so a path that re-enters the cycle *around* the guarded function is
    reported).  A one-function component may instead be bounded by a type-tag exclusion (tag_exclusion_guard)."""
    facts = ctx.facts
    allow = allow or {}
    sc = set(scope)

    def succ(f):
        return [g for g in facts.callees.get(f, ()) if g in sc or (facts.fns.get(g) is not None and facts.fns[g].kind == "Closure" and facts.fns[g].parent in sc)]
    nodes = list(sc)
    comps = CF.sccs(nodes, succ)
    n = 0
    for comp in comps:
        comp = sorted(comp)
        if len(comp) == 1 and comp[0] not in facts.callees.get(comp[0], ()):
            continue
        n += 1
        key = "recursion:%s" % "+".join(L.short(c) for c in comp if not c.endswith("}"))[:120]
        guarded = None
        cut = set()
        names = set()
        for f in comp:
            fn = facts.fns[f]
            g = CF.cfg(fn)
            fl = FL.flow(fn)
            rec = [(b, a) for b, c, a, d, t, u in fn.calls() if isinstance(c, dict) and (c.get("r") in comp)]
            if not rec:
                continue
            gb = []
            for b, c, a, d, t, u in fn.calls():
                if not isinstance(c, dict):
                    continue
                if L.is_call_to(c, GUARD_CALLS):
                    gb.append(b)
                    names.add("%s in %s" % (L.short(c.get("p") or "?"), L.short(f)))
                f2 = facts.fns.get(c.get("r"))
                if f2 is not None and f2.id not in comp and depth_guard_field(f2):
                    gb.append(b)
                    names.add("%s in %s" % (L.short(f2.id), L.short(f)))
            if depth_guard_field(fn):
                gb.append(0)
                names.add("counter field (inline) in " + L.short(f))
            # in-progress set
            tests = []
            for b, c, a, d in L.calls_to(fn, SET_TESTS):
                if "HashMap" in c["p"] and L.short(c["p"]) == "insert":
                    continue
                te, fe = L.bool_edges(fn, d[0])
                if te or fe:
                    tests.append(b)
            inserts = [b for b, c, a, d in L.calls_to(fn, ["std::collections::HashSet::<T, S, A>::insert", "std::collections::BTreeSet::<T, A>::insert"])]
            recb = [b for b, a in rec]
            if tests and inserts and all(any(g.dominates(x, r) for x in tests) and any(g.dominates(x, r) for x in inserts) for r in recb):
                gb.append(max(inserts))
                names.add("in-progress set in " + L.short(f))
                cut.add(f)
            # depth parameter: every recursive call passes `param + const` that a dominating comparison bounds
            def depth_param(b, a):
                for op in a:
                    pl = FL.op_place(op)
                    if pl is None or fn.locals[pl[0]] not in _INTS:
                        continue
                    seen, drecs = fl.back_slice([pl[0]], stop_at_calls=lambda cc: True)
                    adds = [dd for dd in drecs if dd[0] == "stmt" and fn.blocks[dd[1]][0][dd[2]][2][0] == "bin" and
                            fn.blocks[dd[1]][0][dd[2]][2][1].startswith("Add")]
                    params = [x for x in seen if 1 <= x <= fn.nargs and fn.locals[x] in _INTS]
                    if not (adds and params):
                        continue
                    for sb in g.dominators(b):
                        for st in fn.blocks[sb][0]:
                            rv = st[2]
                            if rv[0] == "bin" and rv[1] in ("Lt", "Le", "Gt", "Ge"):
                                cs, _ = fl.back_slice(FL.op_locals(rv[2]) + FL.op_locals(rv[3]), stop_at_calls=lambda cc: True)
                                if set(params) & cs:
                                    return True
                return False
            per_call = [any(g.dominates(x, b) for x in gb) or depth_param(b, a) for b, a in rec]
            if all(per_call):
                cut.add(f)
                if not any(any(g.dominates(x, b) for x in gb) for b, a in rec):
                    names.add("depth parameter of " + L.short(f))
        if cut and _acyclic_without(facts, comp, cut, succ):
            guarded = "every cycle passes a guarded function: %s" % sorted(names)
        nonclo = [c for c in comp if facts.fns[c].kind != "Closure"]
        if not guarded and len(nonclo) == 1:
            guarded = tag_exclusion_guard(facts, facts.fns[nonclo[0]], comp)
        if key in allow:
            ctx.ok(rule, key, "reviewed: " + allow[key], facts.fns[comp[0]].where())
        elif guarded:
            ctx.ok(rule, key, guarded, facts.fns[comp[0]].where())
        else:
            rest = [c for c in comp if c not in cut]
            ctx.violation(rule, key, "the functions %s call each other recursively and not every cycle passes a depth guard "
                          "(guard routine, counter field, in-progress set or bounded depth parameter dominating the recursive calls)%s: "
                          "input nested or linked deeply enough overflows the stack and aborts the process"
                          % ([L.short(c) for c in comp], (" — a cycle remains among %s" % [L.short(c) for c in rest if not c.endswith("}")]) if cut else ""),
                          facts.fns[comp[0]].where(), {"cycle": comp, "guarded_functions": sorted(cut)})
    ctx.counts["%s:%s:recursive-cycles" % (rule, label)] = n
    return n


def check_progress(ctx, rule, fns, cursor_fields=("position", "pos"), allow=None):
    """every loop of the given scanner functions is iterator-driven or advances the cursor (a field
    named in cursor_fields, or a local compared in the loop and increased) on every path back to
    its header; calls to sibling scanner methods that advance on every returning path count."""
    facts = ctx.facts
    # summary: functions that advance the cursor on every normally-returning path
    def writes_cursor(fn, b):
        for st in fn.blocks[b][0]:
            pl = st[1]
            if pl[1] and any(isinstance(p, list) and p[0] == "f" and p[2] in cursor_fields for p in pl[1]):
                rv = st[2]
                if rv[0] in ("use",) or rv[0] == "bin":
                    return True
        return False
    CONSUMERS = ["std::io::Read::read", "std::io::Read::read_exact", "std::io::BufRead::read_until", "std::io::BufRead::read_line",
                 "std::io::BufRead::consume", "std::io::Seek::seek", "Iterator::next", "Vec::<T, A>::pop", "VecDeque::<T, A>::pop_front",
                 "std::io::Read::read_to_end", "std::io::BufRead::fill_buf", "Chars::next", "Peekable::<I>::next"]
    may_advance = set()
    for fn in fns:
        if any(writes_cursor(fn, b) for b in range(len(fn.blocks))) or L.calls_to(fn, CONSUMERS):
            may_advance.add(fn.id)
    grew = True
    while grew:
        grew = False
        for fn in fns:
            if fn.id not in may_advance and any((c.get("r") in may_advance) for b, c, a, d, t, u in fn.calls()):
                may_advance.add(fn.id)
                grew = True
    advancing = set()
    changed = True
    while changed:
        changed = False
        for fn in fns:
            if fn.id in advancing:
                continue
            g = CF.cfg(fn)
            adv_blocks = [b for b in range(len(fn.blocks)) if writes_cursor(fn, b) or
                          (fn.term(b)[0] == "call" and (fn.term(b)[1].get("r") in advancing))]
            rets = g.return_blocks()
            if rets and g.path(0, rets, avoid_blocks=adv_blocks) is None:
                advancing.add(fn.id)
                changed = True
    n = 0
    for fn in fns:
        g = CF.cfg(fn)
        for h, body in sorted(g.loops().items()):
            n += 1
            key = "%s:loop@L%d-progress" % (L.short(fn.id), len([x for x in sorted(g.loops()) if x <= h]))
            if is_iterator_driven(fn, g, body, h):
                ctx.ok(rule, key, "iterator-driven", fn.where(h), nontrivial=False)
                continue
            adv = [b for b in body if writes_cursor(fn, b) or (fn.term(b)[0] == "call" and (fn.term(b)[1].get("r") in advancing
                   or fn.term(b)[1].get("r") in may_advance or L.is_call_to(fn.term(b)[1], CONSUMERS)))]
            # local cursors: locals increased inside the loop and compared in the loop
            latches = [s for s, hh in g.back_edges() if hh == h]
            w = None
            for l in latches:
                p = g.path(h, [l], avoid_blocks=[b for b in adv if b != h])
                if p is not None and not (set(p) & set(adv)):
                    # allow paths that contain an increment of a local counter
                    inc = False
                    for b in p:
                        for st in fn.blocks[b][0]:
                            rv = st[2]
                            if rv[0] == "bin" and rv[1].startswith("Add") and (FL.op_const(rv[3]) not in (None, 0) or FL.op_const(rv[2]) not in (None, 0)):
                                inc = True
                        t = fn.term(b)
                        if t[0] == "call" and L.is_call_to(t[1], ["Vec::<T, A>::pop", "Iterator::next", "VecDeque::<T, A>::pop_front"]):
                            inc = True
                    if not inc:
                        w = p
            if w is not None and allow and key in allow:
                ctx.ok(rule, key, "reviewed: " + allow[key], fn.where(h))
            elif w is not None:
                ctx.violation(rule, key, "a path around the loop at %s makes no progress: it neither advances the scan cursor nor "
                              "consumes an element — on input that keeps taking this path the scanner never terminates" % fn.where(h),
                              fn.where(h), {"path_lines": [fn.line(x) for x in w][:12]})
            else:
                ctx.ok(rule, key, "cursor advances on every path back to the header", fn.where(h))
    ctx.counts["%s:scanner-loops" % rule] = n
    ctx.counts["%s:advancing-functions" % rule] = len(advancing)
    return n


READ_CALLS = ["std::io::Read::read", "std::io::BufRead::read_line", "std::io::BufRead::read_until", "std::io::BufRead::fill_buf"]


def count_returning_readers(facts, scope):
    """crate functions in scope that return the number of bytes a std read produced (`Result<usize, _>`/usize whose value
    flows from a READ_CALLS result): their callers face the same end-of-input obligation"""
    out = set()
    for fid in scope:
        fn = facts.fns.get(fid)
        if fn is None or not fn.ret or "usize" not in fn.ret or fn.kind == "Closure":
            continue
        fl = FL.flow(fn)
        seen, drecs = fl.back_slice([0])
        if any(L.is_call_to(c, READ_CALLS) for b, c in fl.calls_in_slice(drecs)):
            out.add(fid)
    return out


EMPTY_PRESERVING = ["trim", "trim_start", "trim_end", "as_str", "as_bytes", "deref", "as_ref", "borrow", "as_slice", "to_string", "clone",
                    "to_owned", "trim_matches", "trim_end_matches", "trim_start_matches", "to_lowercase", "to_uppercase", "from_utf8_lossy",
                    "branch", "unwrap", "unwrap_or_default", "into"]


def check_eof_tests(ctx, rule, scope, allow=None):
    """reader-driven loops (not iterator-driven; the body calls a read that reports what it produced): simulate the state at end
    of input — the read yields a count of 0 / an empty slice and leaves its (cleared) buffer empty — with path-sensitive boolean
    constant propagation (P9b) and ask whether a back edge of the loop is still reachable from the read.  If it is, a truncated
    file makes the loop spin forever (e.g. `if line.trim().is_empty() { continue }` before any test of the byte count)."""
    facts = ctx.facts
    allow = allow or {}
    readers = count_returning_readers(facts, scope)
    n = 0
    for fid in sorted(scope):
        fn = facts.fns.get(fid)
        if fn is None:
            continue
        g = CF.cfg(fn, thread=True)
        loops = g.loops()
        if not loops:
            continue
        fl = FL.flow(fn)
        k = 0
        for h, body in sorted(loops.items()):
            rd = [b for b in body if fn.term(b)[0] == "call" and isinstance(fn.term(b)[1], dict) and
                  (L.is_call_to(fn.term(b)[1], READ_CALLS) or fn.term(b)[1].get("r") in readers)]
            inner = [b2 for h2, b2 in loops.items() if h2 != h and h2 in body]
            rd = [b for b in rd if not any(b in b2 for b2 in inner)]
            if not rd or is_iterator_driven(fn, g, body, h):
                continue
            latches = [s for s, hh in g.back_edges() if hh == h]
            for r in rd:
                k += 1
                n += 1
                key = "%s:read#%d:eof-leaves-loop" % (L.short(fid), k)
                t = fn.term(r)
                dest = t[3][0]
                # the buffer handed to the read by &mut (second argument), assumed empty after an EOF read when it is cleared
                # in the loop before the read or by the (crate-local) reader itself
                buf = None
                if len(t[2]) > 1:
                    rt = L.recv_of(fn, t[2][1:2])
                    if rt and not rt[1]:
                        buf = rt[0]
                buf_cleared = False
                if buf is not None:
                    for cb, cc, ca, cd in L.calls_to(fn, ["clear"]):
                        rr = L.recv_of(fn, ca)
                        if cb in body and rr and rr[0] == buf and g.dominates(cb, r):
                            buf_cleared = True
                    f2 = facts.fns.get(t[1].get("r"))
                    if f2 is not None and L.calls_to(f2, ["clear"]):
                        buf_cleared = True
                # integer locals that carry the count: value derives from the read result only
                zero = {}
                for l, ty in enumerate(fn.locals):
                    if ty in _INTS and l != dest:
                        vs = L.value_slice_calls(fn, [l])
                        if vs and all(cb == r or L.is_call_to(cc, ["branch", "unwrap", "unwrap_or", "unwrap_or_default", "map_err", "from_residual"]) for cb, cc, aa in vs) \
                                and any(cb == r for cb, cc, aa in vs):
                            zero[l] = 0

                def derives_from_eof_data(args):
                    """first argument's value comes from the read's result slice or from the emptied buffer through
                    empty-preserving functions"""
                    if not args:
                        return False
                    seen, drecs = fl.back_slice(FL.op_locals(args[0]), stop_at_calls=lambda c: not L.is_call_to(c, EMPTY_PRESERVING) )
                    if buf is not None and buf_cleared and buf in seen:
                        return True
                    return any(d[0] == "call" and d[1] == r for d in drecs) and "usize" not in (fn.locals[dest] if dest < len(fn.locals) else "") \
                        or any(d[0] == "call" and d[1] == r for d in drecs) and "[u8]" in fn.locals[dest]

                def lit_nonempty(op):
                    if op[0] == "k":
                        v = op[2]
                        if isinstance(v, int):
                            return True          # a char / byte pattern
                        if isinstance(v, dict):
                            return bool(v.get("s") or v.get("b"))
                    s_ = L.resolve_str_operand(fn, op)
                    return bool(s_)

                def call_value(b, tt):
                    c = tt[1]
                    if not isinstance(c, dict) or b == r:
                        return None
                    a = tt[2]
                    nm = L.short(c.get("p") or "")
                    if nm in ("is_empty",) and derives_from_eof_data(a):
                        return True
                    if nm == "len" and derives_from_eof_data(a):
                        return 0
                    if nm in ("starts_with", "ends_with", "contains") and len(a) > 1 and derives_from_eof_data(a) and lit_nonempty(a[1]):
                        return False
                    if nm in ("eq", "ne") and len(a) == 2:
                        for x, y in ((a[0], a[1]), (a[1], a[0])):
                            if derives_from_eof_data([x]) and lit_nonempty(y):
                                return nm == "ne"
                    return None
                # `match read(..) { Ok(0) => .., Ok(n) => .. }` switches on the payload place of the result itself
                count_like = "usize" in fn.locals[dest]

                def place_value(pl, _d=dest):
                    if count_like and pl[0] == _d and pl[1] and isinstance(pl[1][-1], list) and pl[1][-1][0] == "f" and pl[1][-1][1] == 0 \
                            and any(isinstance(x, list) and x[0] == "d" and x[1] in ("Ok", "Continue") for x in pl[1]):
                        return 0
                    return None
                outside = set(range(len(fn.blocks))) - set(body)
                reach = CF.reachable_assuming(fn, call_value, start=r, avoid=outside, fixed=zero, place_value=place_value)
                hit = [l for l in latches if l in reach]
                if not hit:
                    ctx.ok(rule, key, "with a 0-byte read and an empty buffer no back edge of the loop is reachable", fn.where(r))
                elif key in allow:
                    ctx.ok(rule, key, "reviewed: " + allow[key], fn.where(r))
                else:
                    w = g.path(r, hit, avoid_blocks=(outside | (set(body) - reach))) or []
                    ctx.violation(rule, key, "the loop at %s reads input with %s; at end of input (0 bytes read, empty buffer) it can still "
                                  "return to its header — through line(s) %s — so a truncated file makes it spin forever"
                                  % (fn.where(h), L.short(t[1].get("p") or "?"), sorted(set(fn.line(x) for x in w))[:10]),
                                  fn.where(r), {"path_lines": [fn.line(x) for x in w][:14], "count_locals": sorted(zero), "buffer_assumed_empty": buf_cleared})
    ctx.counts["%s:reader-driven loops" % rule] = n
    return n


ENTROPY_SOURCES = ["decode_integer_arith", "decode_int", "decode_iaid", "MQDecoder::decode", "mq_coder::MQDecoder::<'a>::decode"]
BOUNDED_CONSUMERS = ["read_bits", "read_bit", "read_byte", "read_exact", "Iterator::next", "pop", "pop_front", "consume_char", "read_pdf_line"]


def check_entropy_loops(ctx, rule, scope):
    """loops controlled by a counter (`while decoded < declared_count`) in functions that draw their data from an entropy
    decoder — a source that never reports end of input — advance that counter, pass a guard on some other loop-carried
    counter, or consume bounded input on every path back to the header.  Otherwise a crafted stream that keeps decoding
    "nothing" (an empty height class / an empty strip) spins forever."""
    facts = ctx.facts
    n = 0
    for fid in sorted(scope):
        fn = facts.fns.get(fid)
        if fn is None or fn.kind == "Closure":
            continue
        if not any(isinstance(c, dict) and L.is_call_to(c, ENTROPY_SOURCES) for b, c, a, d, t, u in fn.calls()):
            continue
        g = CF.cfg(fn)
        fl = FL.flow(fn)
        k = 0
        for h, body in sorted(g.loops().items()):
            t = fn.term(h)
            if t[0] != "sw" or is_iterator_driven(fn, g, body, h):
                continue
            cmpst = [st for st in fn.blocks[h][0] if st[2][0] == "bin" and st[2][1] in ("Lt", "Le", "Gt", "Ge", "Ne")]
            if not cmpst:
                continue
            cands = []
            for o in (cmpst[-1][2][2], cmpst[-1][2][3]):
                for l in FL.op_locals(o):
                    for d in fl.defs.get(l, ()):
                        if d[0] == "stmt":
                            rv = fn.blocks[d[1]][0][d[2]][2]
                            if rv[0] == "use":
                                p = FL.op_place(rv[1])
                                if p and not p[1]:
                                    cands.append(p[0])
            ctrs = [c for c in set(cands) if any(d[0] == "stmt" and d[1] in body for d in fl.defs.get(c, ()))]
            if not ctrs or not any(fn.term(b)[0] == "call" and L.is_call_to(fn.term(b)[1], ENTROPY_SOURCES) for b in body):
                continue
            k += 1
            n += 1
            key = "%s:counter-loop#%d:progress" % (L.short(fid), k)
            writes = set(d[1] for c in ctrs for d in fl.defs.get(c, ()) if d[0] == "stmt" and d[1] in body)
            cons = set(b for b in body if fn.term(b)[0] == "call" and L.is_call_to(fn.term(b)[1], BOUNDED_CONSUMERS))
            other_guards = set(counter_guard_blocks(fn, g, body)) - {h}
            harmless_edges = set()
            # further guards: a branch (other than the header) on an ordered comparison that involves the controlling
            # counter itself (`if decoded >= count { break }` inside a nested loop), or that compares some other counter
            # incremented by a constant inside the loop with a loop-invariant bound (`empty_classes > declared`)
            incs = set()
            for b2 in body:
                for st in fn.blocks[b2][0]:
                    rv = st[2]
                    if rv[0] == "bin" and rv[1].startswith("Add") and (rv[2][0] == "k" or rv[3][0] == "k"):
                        for o in (rv[2], rv[3]):
                            incs.update(FL.op_locals(o))
            for b2 in body:
                if b2 == h or fn.term(b2)[0] != "sw":
                    continue
                for st in fn.blocks[b2][0]:
                    rv = st[2]
                    if rv[0] == "bin" and rv[1] in ("Lt", "Le", "Gt", "Ge"):
                        roots_ = set()
                        for o in (rv[2], rv[3]):
                            for l in FL.op_locals(o):
                                roots_.add(l)
                                for d in fl.defs.get(l, ()):
                                    if d[0] == "stmt" and fn.blocks[d[1]][0][d[2]][2][0] == "use":
                                        p_ = FL.op_place(fn.blocks[d[1]][0][d[2]][2][1])
                                        if p_ and not p_[1]:
                                            roots_.add(p_[0])
                        if roots_ & (incs - set(ctrs)):
                            other_guards.add(b2)
                        elif roots_ & set(ctrs):
                            # a test of the controlling counter itself: only its "count reached" edge is harmless (it leads
                            # to the header's exit); the other edge must still make progress
                            def side(o):
                                ls = set(FL.op_locals(o))
                                for l in list(ls):
                                    for d in fl.defs.get(l, ()):
                                        if d[0] == "stmt" and fn.blocks[d[1]][0][d[2]][2][0] == "use":
                                            p_ = FL.op_place(fn.blocks[d[1]][0][d[2]][2][1])
                                            if p_ and not p_[1]:
                                                ls.add(p_[0])
                                return bool(ls & set(ctrs))
                            te, fe = L.bool_edges(fn, st[1][0])
                            left = side(rv[2])
                            reached_when_true = (rv[1] in ("Ge", "Gt")) if left else (rv[1] in ("Le", "Lt"))
                            harmless_edges.update(te if reached_when_true else fe)
            latches = [s for s, hh in g.back_edges() if hh == h]
            outside = set(range(len(fn.blocks))) - set(body)
            w = g.path(h, latches, avoid_blocks=writes | outside | cons | other_guards, avoid_edges=harmless_edges)
            if w is not None and w != [h]:
                # collections that are filled exactly where the counter advances (`symbols.push(..); decoded += 1`) and created
                # inside the loop are empty on any path that avoids the counter's writes: evaluate their is_empty()/len() (P9b)
                tied = set()
                for b2 in body:
                    t2 = fn.term(b2)
                    if t2[0] == "call" and L.is_call_to(t2[1], ["Vec::<T, A>::push"]):
                        r2 = L.recv_of(fn, t2[2])
                        if r2 and not r2[1] and any(g.dominates(b2, wb) or g.dominates(wb, b2) for wb in writes):
                            created_in = any(d[0] == "call" and d[1] in body and L.is_call_to(fn.term(d[1])[1], ["Vec::<T>::new", "new", "with_capacity"])
                                             for d in fl.defs.get(r2[0], ()))
                            if created_in:
                                tied.add(r2[0])
                if tied:
                    def cv(b3, t3):
                        c3 = t3[1]
                        if isinstance(c3, dict) and L.is_call_to(c3, ["is_empty", "len"]):
                            r3 = L.recv_of(fn, t3[2])
                            if r3 and r3[0] in tied:
                                return True if L.short(c3.get("p") or "") == "is_empty" else 0
                        return None
                    reach = CF.reachable_assuming(fn, cv, start=h, avoid=writes | outside | cons | other_guards, avoid_edges=harmless_edges)
                    hit = [l for l in latches if l in reach and l != h]
                    if not hit:
                        w = None
            if w is None or w == [h]:
                ctx.ok(rule, key, "every path back to the header advances the counter, passes another counter's bound or consumes bounded input",
                       fn.where(h))
            else:
                ctx.violation(rule, key, "the loop at %s runs while a counter is below a declared count and draws its data from an entropy "
                              "decoder (which never runs out of input), yet a path back to its header — line(s) %s — neither advances that "
                              "counter nor passes any other bound: a crafted stream that keeps decoding an empty class / strip makes the "
                              "decoder spin forever" % (fn.where(h), sorted(set(fn.line(x) for x in w))[:10]), fn.where(h),
                              {"path_lines": [fn.line(x) for x in w][:14]})
    ctx.counts["%s:entropy-driven counter loops" % rule] = n
    return n
