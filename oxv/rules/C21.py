"""C21 — content streams parse back to the operators that were written.

 R1 finiteness: every floating-point value formatted by the content-stream serialiser is the result of
    the finite-or-zero clamp (NaN / infinity are not PDF numbers).
 R2 show-text payloads: every construction of a literal show-text operator takes its bytes from an
    escaper whose table escapes `\\`, `(`, `)` and does not pass CR raw; and no character reaches the
    payload as UTF-8: every `String::push(ch)` of a character of the user's text into the payload is
    dominated by a range test on that character (<= 0x7F, or <= 0xFF with an octal escape) or the
    bytes come out of the single-byte text encoder.
 R3 names and comments in content: every `/{name}` operand emitted by the serialiser passes a name
    escaper; comment text cannot contain an end-of-line.
 R4 vocabulary agreement: every operator keyword the serialiser can emit is a keyword of the content
    parser's operator dispatch.
 R5 termination of the content parser on arbitrary bytes: no unguarded recursion in the tokenizer /
    parser (depth parameter or explicit stack), and every tokenizer loop advances its cursor.
Not decided: operand equality up to rounding.
"""
from .. import lib as L
from .. import flow as FL
from .. import cfg as CF
from .. import tokens as TK
from .. import tables as T
from .. import cycles as CY
from . import C03

EXPLANATION = __doc__
SER = "graphics::ops::serialize_ops"


def parser_keywords(facts):
    kw = set()
    for fid, mlist in facts.matches.items():
        if not fid.startswith("parser::content::"):
            continue
        for mm in mlist:
            if "str" not in mm["sty"]:
                continue
            for a in mm["arms"]:
                def walk(p):
                    if p[0] == "lit" and isinstance(p[1], dict) and "s" in p[1]:
                        kw.add(p[1]["s"])
                    elif p[0] == "or":
                        for s in p[1]:
                            walk(s)
                    elif p[0] == "ref":
                        walk(p[1])
                walk(a["pat"])
    return kw


def _fmt_arg_roots(fn, fl, locals_):
    """`format_args!` packs its operands into one tuple `(&a, &b, ..)` and hands out `args.i`: follow a format argument back to
    the i-th element of that tuple, so that the clamp of a sibling operand is not mistaken for this operand's"""
    out = []
    for l in locals_:
        cur = l
        for _ in range(6):
            ds = [d for d in fl.defs.get(cur, ()) if d[0] == "stmt"]
            if len(ds) != 1 or len(fl.defs.get(cur, ())) != 1:
                break
            rv = fn.blocks[ds[0][1]][0][ds[0][2]][2]
            if rv[0] == "ref" and all(x == "*" for x in rv[2][1]):
                cur = rv[2][0]
                continue
            if rv[0] == "use":
                pl = FL.op_place(rv[1])
                if pl and len(pl[1]) == 1 and isinstance(pl[1][0], list) and pl[1][0][0] == "f":
                    td = [d for d in fl.defs.get(pl[0], ()) if d[0] == "stmt"]
                    if len(td) == 1 and len(fl.defs.get(pl[0], ())) == 1:
                        trv = fn.blocks[td[0][1]][0][td[0][2]][2]
                        if trv[0] == "agg" and trv[1][0] == "tup" and pl[1][0][1] < len(trv[2]):
                            ls = FL.op_locals(trv[2][pl[1][0][1]])
                            if len(ls) == 1:
                                cur = ls[0]
                                continue
                elif pl and not pl[1]:
                    cur = pl[0]
                    continue
            break
        out.append(cur)
    return out


def run(ctx):
    facts = ctx.facts
    ser = ctx.fn(SER, "anchor")
    helpers = [facts.fns[f] for f in facts.fns if f in ("graphics::ops::write_fill_color_bytes", "graphics::ops::write_stroke_color_bytes")]
    # R1 floats
    n = 0
    for fn in [ser] + helpers:
        fl = FL.flow(fn)
        for b, c, a, d, t, u in fn.calls():
            p = c.get("a") or ""
            if "fmt::rt::Argument" not in (c.get("p") or "") or not (p.endswith("::<f64>") or p.endswith("::<f32>")):
                continue
            n += 1
            calls = L.slice_calls(fn, _fmt_arg_roots(fn, fl, FL.op_locals(a[0])))
            ok = any(L.is_call_to(cc, ["finite_or_zero", "is_finite"]) for _, cc in calls)
            key = "%s:float-arg@%s" % (L.short(fn.id), "L%d" % (fn.line(b) - fn.lo))
            if ok:
                ctx.ok("R1", key, "finite_or_zero", fn.where(b), nontrivial=(n <= 200))
            else:
                ctx.violation("R1", "%s:float-arg:%s" % (L.short(fn.id), _arg_name(facts, fn, b)), "a floating-point operand is formatted "
                              "into the content stream without the finite-or-zero clamp: NaN/inf becomes the token `NaN`/`inf`, which "
                              "the content parser (and every viewer) rejects", fn.where(b))
    ctx.floor("R1", "float format arguments in the content serialiser", n, 30)
    # R2 show-text producers
    prod = []
    for fid, fn in facts.fns.items():
        for b, blk in enumerate(fn.blocks):
            for st in blk[0]:
                rv = st[2]
                if rv[0] == "agg" and rv[1][0] == "adt" and rv[1][1] == "graphics::ops::Op" and rv[1][2] == "ShowText":
                    prod.append((fn, b, rv[2][0]))
    ctx.floor("R2", "constructions of Op::ShowText", len(prod), 3)
    for fn, b, op in prod:
        owner = fn.parent or fn.id
        fl = FL.flow(fn)
        calls = L.slice_calls(fn, FL.op_locals(op))
        via = [cc.get("r") for _, cc in calls if (cc.get("r") or "") in facts.fns and TK.escaper_table(facts, cc.get("r"))]
        key = "show-text-producer:%s" % owner
        if via:
            tb = TK.escaper_table(facts, via[0])["table"]
            bad = [v for v in (0x28, 0x29, 0x5C, 0x0D) if tb[v][0] == "raw"]
            enc = any(L.is_call_to(cc, ["TextEncoding::encode", "encode_strict", "winansi_encode_char"]) for _, cc in calls)
            if bad:
                ctx.violation("R2", key + ":escapes", "%s passes byte(s) %s raw into a literal show-text string" % (L.short(via[0]), [hex(x) for x in bad]), fn.where(b))
            else:
                ctx.ok("R2", key + ":escapes", "escaper %s escapes ( ) \\\\ CR" % L.short(via[0]), fn.where(b))
            if enc:
                ctx.ok("R2", key + ":single-byte-encoded", "payload bytes come from the single-byte text encoder", fn.where(b))
            else:
                ctx.undecided_site("R2", key + ":single-byte-encoded", "escaper input not traced to the text encoder", fn.where(b))
            continue
        # inline escaper: a match over the characters of the text inside this function
        ms = [m for m in facts.matches.get(fn.id, []) if m["sty"] == "char"]
        if ms:
            m = ms[0]
            missing = []
            for ch in (0x28, 0x29, 0x5C, 0x0D):
                arm, _ = T.arm_for(m, ch)
                if arm is None or T.is_catch_all(m["arms"][arm]["pat"]):
                    missing.append(chr(ch) if ch != 0x0D else "CR")
            if missing:
                ctx.violation("R2", key + ":escapes", "the inline escaper of %s does not escape %s" % (L.short(owner), missing), fn.where(b))
            else:
                ctx.ok("R2", key + ":escapes", "inline escaper escapes ( ) \\\\ CR", fn.where(b))
        else:
            ctx.undecided_site("R2", key + ":escapes", "no escaper recognised", fn.where(b))
        # encoding agreement: raw pushes of a user character must be range-guarded
        g = CF.cfg(fn, thread=True)
        pushes = L.calls_to(fn, ["String::push"])
        unguarded = []
        for pb, pc, pa, pd in pushes:
            v = pa[1]
            if v[0] == "k":
                continue
            # the pushed char derives from the chars() iteration
            pcalls = L.slice_calls(fn, FL.op_locals(v))
            if not any(L.is_call_to(cc, ["Iterator::next"]) and "Chars" in (cc.get("self") or "") for _, cc in pcalls):
                continue
            cmp_blocks = []
            for cb, blk in enumerate(fn.blocks):
                for st in blk[0]:
                    rv = st[2]
                    if rv[0] == "bin" and rv[1] in ("Le", "Lt", "Gt", "Ge") and any(isinstance(FL.op_const(o), int) and FL.op_const(o) <= 0x100 for o in (rv[2], rv[3])):
                        ccalls = L.slice_calls(fn, FL.op_locals(rv[2]) + FL.op_locals(rv[3]))
                        if any(L.is_call_to(cc, ["Iterator::next"]) and "Chars" in (cc.get("self") or "") for _, cc in ccalls):
                            cmp_blocks.append(cb)
            if not any(g.dominates(cb, pb) for cb in cmp_blocks):
                unguarded.append(pb)
        k2 = key + ":no-utf8-in-literal"
        if unguarded:
            ctx.violation("R2", k2, "%s pushes characters of the user's text straight into the literal string of a Tj operator with no "
                          "range test: any character above U+007F lands in the content stream as its multi-byte UTF-8 encoding, which a "
                          "simple (WinAnsi) font shows — and the extractor reads back — as two or three wrong characters; its sibling "
                          "`draw_with_simple_encoding` range-tests and octal-escapes" % L.short(owner), fn.where(unguarded[0]))
        elif pushes:
            ctx.ok("R2", k2, "raw pushes are range-guarded", fn.where(b))
    # R3 names + comments
    C03.check_format_sites(ctx, "R3", module_filter=lambda o: o.startswith("graphics::ops"), floor=7)
    i = None
    sm = [m for m in facts.matches.get(SER, []) if m["sty"].endswith("graphics::ops::Op")]
    if ctx.floor("R3", "Op dispatch in serialize_ops", len(sm), 1):
        m = sm[0]
        i = TK.arm_index(m, "Comment")
        if i is None:
            ctx.ok("R3", "comment:no-comment-op", "no Comment operator", nontrivial=False)
        else:
            lo, hi = TK.arm_range(ser, m, i)
            local = TK.local_callees_in_lines(facts, ser, lo, hi)
            san = [f for f in local if any(v in (0x0A, 0x0D) for g_ in L.group(facts, f) for b, ty, v in FL.fn_consts(g_))]
            # or: the text that is formatted after `%` is the result of a call that is handed both EOL characters
            # (`text.replace(['\r', '\n'], " ")`, `.chars().filter(..)` with the two constants, ...)
            inline = None
            fls = FL.flow(ser)
            for b0, c0, a0, d0 in L.calls_matching(ser, lambda c: (c.get("p") or "").startswith("core::fmt::rt::Argument")):
                if not (lo <= ser.line(b0) <= hi):
                    continue
                seen0, dr0 = fls.back_slice([l for o in a0 for l in FL.op_locals(o)])
                for cb, cc in fls.calls_in_slice(dr0):
                    if not (lo <= ser.line(cb) <= hi):
                        continue
                    ks = set(v for bb, ty, v in FL.fn_consts(ser) if bb == cb and ty in ("char", "u8") and isinstance(v, int))
                    if {0x0A, 0x0D} <= ks:
                        inline = L.short(cc.get("p") or "?")
            if san:
                ctx.ok("R3", "comment:no-eol", "comment text sanitised by %s" % L.short(san[0]))
            elif inline:
                ctx.ok("R3", "comment:no-eol", "the formatted text is the result of %s(.., CR/LF, ..)" % inline)
            else:
                ctx.violation("R3", "comment:no-eol", "Op::Comment text is written after `%` verbatim: a comment containing a line break "
                              "ends the comment early and the rest of the text is parsed as operators", "%s:%d" % (m["file"], lo))
    # R4 vocabulary
    kw = parser_keywords(facts)
    emitted = set()
    for s in facts.fmt_sites_in(ser):
        lits = [p for p in s["tpl"] if isinstance(p, str)]
        if lits:
            toks = lits[-1].split()
            if toks and toks[-1] and not toks[-1].startswith("/") and not toks[-1][0].isdigit() and toks[-1] not in ("%",):
                emitted.add(toks[-1])
    for f in [ser] + helpers:
        for b, ty, v in FL.fn_consts(f):
            if isinstance(v, dict) and "b" in v:     # byte-string literals only (operators written with write_all / extend)
                txt = bytes(v["b"]).decode("latin-1")
                for tok in txt.split():
                    if (tok.isascii() and tok.isalpha() and len(tok) <= 3) or tok in ("f*", "B*", "b*", "W*", "T*", "'", "\""):
                        emitted.add(tok)
    emitted -= {"%", "<<", ">>", "[", "]"}
    ctx.floor("R4", "operator keywords emitted by serialize_ops", len(emitted), 30)
    for k in sorted(emitted):
        if k in kw:
            ctx.ok("R4", "keyword:%s" % k, "recognised by the content parser")
        else:
            ctx.violation("R4", "keyword:%s" % k, "the serialiser emits operator `%s` which the content parser's dispatch does not know: the "
                          "written stream does not parse back to the operators that were written" % k, ser.where())
    # R5 recursion / progress in the content parser
    scope = [f for f in facts.fns if f.startswith("parser::content::") and facts.fns[f].kind != "Closure"]
    CY.check_recursion(ctx, "R5", scope, label="parser::content")
    tok_fns = [facts.fns[f] for f in scope if "ContentTokenizer" in f]
    CY.check_progress(ctx, "R5", tok_fns, cursor_fields=("position",), allow={
        "skip_whitespace:loop@L1-progress": "the only non-advancing-looking path calls skip_comment() when the current byte is `%`; skip_comment's "
                                            "loop condition `input[pos] != b'\\n'` is true for that byte, so it advances at least once (path-insensitive artefact)",
    })


def _arg_name(facts, fn, b):
    for s in facts.fmt_sites_in(fn):
        if s["line"] == fn.line(b):
            return s["tpl"][-1].strip() if isinstance(s["tpl"][-1], str) else "?"
    return "?"
