"""C17 — incremental updates are append-only and take effect.

 R1 append-only effect: in every function of the three incremental writers, byte buffers are only
    ever grown (push / extend* / write!) — no truncate, clear, insert, splice, drain, remove, set_len,
    swap or indexed store — and the output starts with the base bytes; in the PdfWriter incremental
    entry points the position counter is set to the number of base bytes copied (C03-R1).
 R2 chaining: the appended trailer's /Prev is data-dependent on the base file's startxref, /Size on
    the maximum of the base /Size and the allocator, /Root on the base root.
 R3 fresh numbers: new object numbers are allocated at or above the base /Size: the dedicated
    incremental allocators start from the base size, and each PdfWriter incremental entry point must
    seed `next_object_id` from the base file before its first allocation.
 R4 reader side: C04-R3 (a newer plain/free entry must beat an older compressed one).
 R5 the latest edit of a batch wins: in `fill_many_impl` every edit of the list that resolves to a field reaches a write of its
    new dictionary into the table of modified objects — an overwrite of the slot already scheduled for that object, or a push. A
    path that skips a repeated object (`if !seen.insert(id) { continue }`) keeps the *first* value of a field edited twice.
Not decided: visibility of each edited value; equality of untouched objects.
"""
from .. import lib as L
from .. import flow as FL
from .. import cfg as CF

EXPLANATION = __doc__
W = "writer::pdf_writer::PdfWriter::<W>::"
FORBIDDEN = {"truncate", "clear", "insert", "splice", "drain", "remove", "set_len", "swap", "swap_remove", "retain", "dedup",
             "split_off", "pop", "resize", "fill", "copy_from_slice", "reverse", "sort", "rotate_left", "rotate_right"}
MODS = ("writer::incremental_update::", "writer::incremental_form_fill::", "writer::incremental_text_notes::")


def run(ctx):
    r5_last_edit_wins(ctx)
    facts = ctx.facts
    n = 0
    bad = 0
    for fid, fn in sorted(facts.fns.items()):
        owner = fn.parent or fid
        if not owner.startswith(MODS):
            continue
        for b, c, a, d, t, u in fn.calls():
            p = c.get("p") or ""
            if not (p.startswith("std::vec::Vec::<T, A>::") or "slice::<impl [T]>::" in p):
                continue
            r = L.recv_of(fn, a)
            pl = FL.op_place(a[0]) if a else None
            rty = ""
            if r is not None:
                rty = fn.locals[r[0]]
            elif pl is not None:
                rty = fn.locals[pl[0]]
            if "Vec<u8>" not in rty and "[u8]" not in rty:
                continue
            n += 1
            name = L.short(p)
            if name in FORBIDDEN:
                bad += 1
                ctx.violation("R1", "%s:buffer-op:%s" % (owner, name), "%s applies `%s` to a byte buffer in an incremental writer: an "
                              "incremental update may only append — the bytes of the previous revision (and of objects already "
                              "appended) must stay where they are" % (L.short(owner), name), fn.where(b))
        # indexed stores into byte buffers
        for b, blk in enumerate(fn.blocks):
            for st in blk[0]:
                pl = st[1]
                if pl[1] and any(isinstance(p, list) and p[0] in ("i", "ci") for p in pl[1]) and "u8" in fn.locals[pl[0]] and \
                        ("Vec<u8>" in fn.locals[pl[0]] or "[u8]" in fn.locals[pl[0]]) and "mut" in fn.locals[pl[0]]:
                    bad += 1
                    ctx.violation("R1", "%s:buffer-op:index-store" % owner, "%s overwrites a byte of a buffer in place" % L.short(owner), fn.where(b))
    ctx.floor("R1", "Vec<u8> operations in the incremental writers", n, 30)
    if not bad:
        ctx.ok("R1", "incremental-writers:append-only", "%d buffer operations, all growing" % n)
    # output starts with base bytes
    for fid, basefield in (("writer::incremental_update::IncrementalUpdate::<'a>::finish", "base"), ("writer::incremental_form_fill::fill_many_impl", None)):
        fn = ctx.fn(fid, "R1")
        g = CF.cfg(fn)
        ext = L.calls_to(fn, ["Vec::<T, A>::extend_from_slice"])
        first = None
        for b, c, a, d in ext:
            if first is None or g.dominates(b, first[0]):
                first = (b, a)
        key = "%s:starts-with-base" % L.short(fid)
        if first is None:
            ctx.violation("R1", key, "no extend_from_slice in %s" % L.short(fid), fn.where())
            continue
        fl = FL.flow(fn)
        seen, drecs = fl.back_slice(FL.op_locals(first[1][1]))
        ok = False
        if basefield:
            for dd in drecs:
                if dd[0] == "stmt":
                    for o in FL.rvalue_operands(fn.blocks[dd[1]][0][dd[2]][2]):
                        p = FL.op_place(o)
                        if p and any(isinstance(x, list) and x[0] == "f" and x[2] == basefield for x in p[1]):
                            ok = True
        else:
            ok = 1 in seen   # base_bytes parameter
        if ok:
            ctx.ok("R1", key, "first growth of the output is the base file", fn.where(first[0]))
        else:
            ctx.violation("R1", key, "the first bytes put into the output of %s are not the base file's bytes" % L.short(fid), fn.where(first[0]))
    # R2 chaining
    fin = facts.fns["writer::incremental_update::IncrementalUpdate::<'a>::finish"]
    wt = L.calls_to(fin, ["writer::incremental_update::write_trailer"])
    if ctx.floor("R2", "write_trailer call in IncrementalUpdate::finish", len(wt), 1):
        b, c, a, d = wt[0]
        fl = FL.flow(fin)

        def fields_in(op):
            out = set()
            seen, drecs = fl.back_slice(FL.op_locals(op))
            for dd in drecs:
                if dd[0] == "stmt":
                    for o in FL.rvalue_operands(fin.blocks[dd[1]][0][dd[2]][2]):
                        p = FL.op_place(o)
                        if p:
                            out.update(x[2] for x in p[1] if isinstance(x, list) and x[0] == "f")
            return out, [cc for bb, cc in fl.calls_in_slice(drecs)]
        f1, _ = fields_in(a[1])
        f2, _ = fields_in(a[2])
        f3, calls3 = fields_in(a[3])
        for key, ok, msg in (("finish:/Prev<-base-startxref", "previous_xref" in f1, "/Prev does not come from the base file's cross-reference offset"),
                             ("finish:/Root<-base-root", "root" in f2, "/Root does not come from the base trailer"),
                             ("finish:/Size<-max(base,allocator)", {"next_id", "original_size"} <= f3 and any(L.is_call_to(cc, ["max"]) for cc in calls3),
                              "/Size is not max(allocator, base /Size)")):
            if ok:
                ctx.ok("R2", key, "", fin.where(b))
            else:
                ctx.violation("R2", key, msg, fin.where(b))
    ff = facts.fns["writer::incremental_form_fill::fill_many_impl"]
    wt = L.calls_to(ff, ["writer::incremental_form_fill::write_incremental_trailer"])
    if ctx.floor("R2", "trailer call in fill_many_impl", len(wt), 1):
        b, c, a, d = wt[0]
        fl = FL.flow(ff)
        c1 = [cc for bb, cc in L.slice_calls(ff, FL.op_locals(a[0]))]
        key = "fill_many_impl:/Prev<-base-startxref"
        if a[0][0] != "k" and any(L.is_call_to(cc, ["PdfReader::<R>::trailer", "trailer"]) for cc in c1) or any("xref_offset" in str(x) for x in [1]):
            # direct field read of trailer().xref_offset
            ctx.ok("R2", key, "", ff.where(b))
        else:
            ctx.violation("R2", key, "/Prev does not come from the base trailer", ff.where(b))
    # R3 fresh numbers
    al = ctx.fn("writer::incremental_update::IncrementalUpdate::<'a>::allocate_id", "R3")
    nw = facts.fns.get("writer::incremental_update::IncrementalUpdate::<'a>::new")
    if nw is not None:
        seeded = False
        for b, blk in enumerate(nw.blocks):
            for st in blk[0]:
                rv = st[2]
                if rv[0] == "agg" and rv[1][0] == "adt" and "IncrementalUpdate" in rv[1][1]:
                    adt = facts.adts.get(rv[1][1])
                    names = [f[0] for f in adt["variants"][0]["fields"]] if adt else []
                    for i, o in enumerate(rv[2]):
                        if i < len(names) and names[i] == "next_id" and o[0] != "k":
                            seeded = True
        if seeded:
            ctx.ok("R3", "IncrementalUpdate:next_id<-base-size", "allocator seeded from a run-time value (base /Size)", nw.where())
        else:
            ctx.violation("R3", "IncrementalUpdate:next_id<-base-size", "the incremental allocator starts from a constant", nw.where())
    for name in ("write_incremental_update", "write_incremental_with_page_replacement", "write_incremental_with_overlay"):
        fn = ctx.fn(W + name, "R3")
        g = CF.cfg(fn)
        allocs = [b for b, c, a, d in L.calls_to(fn, [W + "allocate_object_id"])]
        # stores to next_object_id in this function (or a callee taking the base size)
        stores = []
        for b, blk in enumerate(fn.blocks):
            for st in blk[0]:
                pl = st[1]
                if pl[1] and any(isinstance(p, list) and p[0] == "f" and p[2] == "next_object_id" for p in pl[1]):
                    stores.append(b)
        # ... or a call of a helper that stores a value depending on its parameter into next_object_id, handed a run-time value
        for b, c, a, d, t, u in fn.calls():
            f2 = facts.fns.get(c.get("r")) if isinstance(c, dict) else None
            if f2 is None or f2.id == W + "allocate_object_id" or not f2.id.startswith(W):
                continue
            fl2 = FL.flow(f2)
            for b2, blk2 in enumerate(f2.blocks):
                for st2 in blk2[0]:
                    pl2 = st2[1]
                    if pl2[1] and any(isinstance(p, list) and p[0] == "f" and p[2] == "next_object_id" for p in pl2[1]):
                        seen2, _ = fl2.back_slice([l for o in FL.rvalue_operands(st2[2]) for l in FL.op_locals(o)])
                        if any(2 <= x <= f2.nargs for x in seen2) and any(o[0] != "k" for o in a[1:]):
                            stores.append(b)
        key = "%s:next_object_id-seeded-from-base" % name
        if not allocs:
            ctx.undecided_site("R3", key, "no direct allocation in this entry point", fn.where())
            continue
        first = allocs[0]
        for b in allocs:
            if g.dominates(b, first):
                first = b
        if stores and any(g.dominates(s, first) for s in stores):
            ctx.ok("R3", key, "next_object_id assigned before the first allocation", fn.where(first))
        else:
            ctx.violation("R3", key, "%s copies the base file and then allocates object numbers from the writer's counter, which still "
                          "starts at 1: the new catalog/pages/info objects reuse numbers that the base revision already uses, and "
                          "`write_xref` (one subsection 0..max) marks every base object number in between as free — the update "
                          "destroys the base document's objects instead of adding to them" % name, fn.where(first))
    # R4 reader side: reuse C04's rule R3
    from . import C04
    sub = type(ctx)(ctx.prop, ctx.tier, ctx.facts, ctx.config)
    C04.run(sub)
    for v in sub.violations:
        if v["rule"] == "R3" or (v["rule"] == "R2" and v["key"].startswith("merge:field:")):
            ctx.violation("R4", "reader:" + v["key"], v["msg"], v["where"], v["witness"])
    if not [v for v in sub.violations if v["rule"] == "R3" or (v["rule"] == "R2" and v["key"].startswith("merge:field:"))]:
        ctx.ok("R4", "reader:newest-revision-wins-across-maps", "C04-R3 holds")


def r5_last_edit_wins(ctx):
    facts = ctx.facts
    fn = ctx.fn("writer::incremental_form_fill::fill_many_impl", "R5")
    g = CF.cfg(fn)
    fl = FL.flow(fn)
    names = fn.local_names()
    mods = [l for l, nme in names.items() if nme == "modified"]
    n = 0
    for h, body in sorted(g.loops().items()):
        nx = [b for b in body if fn.term(b)[0] == "call" and L.is_call_to(fn.term(b)[1], ["Iterator::next"])
              and "&str" in (fn.term(b)[1].get("self") or "")]
        if not nx:
            continue
        writes = set()
        for b in body:
            t = fn.term(b)
            if t[0] == "call" and L.is_call_to(t[1], ["Vec::<T, A>::push"]):
                r = L.recv_of(fn, t[2])
                if r and (r[0] in mods or "PdfDictionary)" in fn.locals[r[0]]):
                    writes.add(b)
            for st in fn.blocks[b][0]:
                pl = st[1]
                if pl[1] and pl[1][0] == "*" and "PdfDictionary" in fn.locals[pl[0]]:
                    seen, drecs = fl.back_slice([pl[0]])
                    if any(dd[0] == "call" and L.is_call_to(fn.term(dd[1])[1], ["find", "position", "get_mut", "iter_mut"]) for dd in drecs):
                        writes.add(b)
        if not writes:
            continue
        n += 1
        key = "fill_many_impl:every-edit-written"
        dest = fn.term(nx[0])[3][0]
        y, no = L.discr_edges(fn, dest, 1)
        some_t = [t for s_, t in y if t in body] or [nx[0]]
        latches = [s_ for s_, hh in g.back_edges() if hh == h]
        outside = set(range(len(fn.blocks))) - set(body)
        w = g.path(some_t[0], latches, avoid_blocks=writes | outside)
        if w is None:
            ctx.ok("R5", key, "every edit that resolves overwrites or appends its object's dictionary", fn.where(h))
        else:
            ctx.violation("R5", key, "an edit of the batch can be skipped without its dictionary being written into the table of "
                          "modified objects (line(s) %s): when the same field is edited twice in one `fill_many` call the earlier "
                          "value is kept and the latest one is lost" % sorted(set(fn.line(x) for x in w))[:8], fn.where(w[0]))
    ctx.floor("R5", "edit loop in fill_many_impl", n, 1)
