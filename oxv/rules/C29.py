"""C29 — the object cache behaves as a bounded LRU map.

Structural invariants that any correct LRU built from a key map plus a recency queue rests on
(each is a necessary condition: breaking it yields a concrete failing operation sequence):
 R1a no duplicate key in the recency queue: every path that pushes a key onto the queue first
     passed the `contains_key == false` edge or removed the key from the queue (retain/remove).
 R1b the evicted key is the least recently used one: keys are pushed at one end of the queue and
     popped at the opposite end; the key removed from the map is the popped key; on the path where
     a key was popped the map entry is removed.
 R1c capacity: every path to `map.insert` of a *new* key passed the update edge, the "has room"
     edge of the len/capacity comparison, or an eviction; capacity 0 never inserts.
 R1d `get` refreshes recency exactly on the hit path.
 R2  one critical section per ObjectCache operation: exactly one lock acquisition and exactly one
     LruCache call on every path; operations that touch recency take the write lock.
 R1e the recency queue is only touched through order-preserving operations (push/pop at the ends,
     retain/remove); swap_remove/rotate/sort style calls are refuted.
 R3  only the LruCache impl writes its fields (private fields; who-may-write).
Not decided: equivalence with an abstract LRU over histories; linearizability (model checking).
"""
from .. import lib as L
from .. import flow as FL
from .. import cfg as CF

EXPLANATION = __doc__
C = "memory::cache::LruCache::<K, V>::"
O = "memory::cache::ObjectCache::"


def first_arg_field(fn, b):
    """field name of self that the receiver (first argument) of the call in block b refers to"""
    t = fn.term(b)
    pl = FL.op_place(t[2][0]) if t[2] else None
    if pl is None:
        return None
    fl = FL.flow(fn)
    for d in fl.defs.get(pl[0], ()):
        if d[0] == "stmt":
            rv = fn.blocks[d[1]][0][d[2]][2]
            if rv[0] == "ref":
                for pr in rv[2][1]:
                    if isinstance(pr, list) and pr[0] == "f":
                        return pr[2]
    return None


def run(ctx):
    put = ctx.fn(C + "put", "anchor")
    get = ctx.fn(C + "get", "anchor")
    DQ = "std::collections::VecDeque::<T, A>::"
    HM = "std::collections::HashMap::<K, V, S, A>::"
    methods = [f for f in ctx.facts.fns.values() if f.id.startswith(C) and f.kind != "Closure"]
    ctx.floor("anchor", "LruCache methods", len(methods), 5)

    push_ends, pop_ends = set(), set()
    for fn in methods:
        g = CF.cfg(fn)
        pushes = L.calls_to(fn, [DQ + "push_front", DQ + "push_back"])
        for b, c, args, dest in pushes:
            push_ends.add(L.short(c["p"]))
        for b, c, args, dest in L.calls_to(fn, [DQ + "pop_back", DQ + "pop_front"]):
            pop_ends.add(L.short(c["p"]))
        if not pushes:
            continue
        # R1a
        ck = L.calls_to(fn, [HM + "contains_key"])
        false_edges = []
        for b, c, args, dest in ck:
            te, fe = L.bool_edges(fn, dest[0])
            false_edges += fe
        removers = [b for b, c, a, d in L.calls_to(fn, [DQ + "retain", DQ + "remove", DQ + "retain_mut"])]
        for b, c, args, dest in pushes:
            key = "%s:%s" % (L.short(fn.id), L.short(c["p"]))
            w = CF.must_pass(fn, [b], removers, guard_edges=false_edges)
            if w is not None:
                ctx.violation("R1a", key, "a path reaches %s without having removed the key from the recency queue and without the "
                              "key being absent from the map: the key ends up twice in the queue, so a later eviction pops a key "
                              "whose entry is still wanted (or already gone)" % L.short(c["p"]), fn.where(b),
                              {"path_lines": [fn.line(x) for x in w]})
            else:
                ctx.ok("R1a", key, "guarded by retain or the absent-key edge", fn.where(b))
    # R1e method whitelist on the recency queue: only order-preserving operations
    ALLOWED = {"push_front", "push_back", "pop_front", "pop_back", "retain", "retain_mut", "remove", "clear", "len", "is_empty",
               "with_capacity", "new", "iter", "contains", "front", "back", "capacity", "reserve", "shrink_to_fit", "truncate"}
    nq = 0
    for fn in [f for f in ctx.facts.fns.values() if f.id.startswith("memory::cache::LruCache")]:
        for b, c, args, dest, tgt, uw in fn.calls():
            p = c.get("p") or ""
            if not p.startswith("std::collections::VecDeque::<T, A>::"):
                continue
            nq += 1
            name = L.short(p)
            if name not in ALLOWED:
                ctx.violation("R1e", "%s:queue-op:%s" % (L.short(fn.parent or fn.id), name), "the recency queue is modified with `%s`, which "
                              "does not preserve the relative order of the other keys: after it the back of the queue is no longer the "
                              "least recently used key" % name, fn.where(b))
            else:
                ctx.ok("R1e", "%s:queue-op:%s" % (L.short(fn.parent or fn.id), name), "order-preserving", fn.where(b), nontrivial=False)
    ctx.floor("R1e", "operations on the recency queue", nq, 6)
    # R1b ends
    if not ctx.floor("R1b", "queue push/pop call kinds", len(push_ends) + len(pop_ends), 2):
        return
    same = {("push_front", "pop_front"), ("push_back", "pop_back")}
    for pe in sorted(push_ends):
        for po in sorted(pop_ends):
            key = "queue-ends:%s/%s" % (pe, po)
            if (pe, po) in same:
                ctx.violation("R1b", key, "keys are pushed with %s and evicted with %s: the evicted entry is the most recently "
                              "used one" % (pe, po), put.where())
            else:
                ctx.ok("R1b", key, "opposite ends")
    # evicted key = popped key; popped => removed
    pops = L.calls_to(put, [DQ + "pop_back", DQ + "pop_front"])
    rems = L.calls_to(put, [HM + "remove"])
    ctx.floor("R1b", "eviction pop in put", len(pops), 1)
    ctx.floor("R1b", "map.remove in put", len(rems), 1)
    pop_blocks = set(b for b, _, _, _ in pops)
    fl = FL.flow(put)
    for b, c, args, dest in rems:
        seen, drecs = fl.back_slice(FL.op_locals(args[1]))
        if not any(d[0] == "call" and d[1] in pop_blocks for d in drecs):
            ctx.violation("R1b", "put:remove-key", "the key removed from the map on eviction is not the key popped from the recency "
                          "queue", put.where(b))
        else:
            ctx.ok("R1b", "put:remove-key", "map.remove(key) with key <- queue pop", put.where(b))
    rem_blocks = [b for b, _, _, _ in rems]
    for b, c, args, dest in pops:
        some_edges, none_edges = L.discr_edges(put, dest[0], 1)
        # from the pop, every path to return passes map.remove or the None edge
        g = CF.cfg(put)
        w = g.path(b, g.return_blocks(), avoid_blocks=rem_blocks, avoid_edges=none_edges)
        if w is not None and (some_edges or none_edges):
            ctx.violation("R1b", "put:pop-then-remove", "a key is popped from the recency queue but its map entry is not removed on "
                          "some path: the map grows beyond capacity", put.where(b), {"path_lines": [put.line(x) for x in w]})
        elif not (some_edges or none_edges):
            ctx.undecided_site("R1b", "put:pop-then-remove", "pop result is not branched on", put.where(b))
        else:
            ctx.ok("R1b", "put:pop-then-remove", "Some(key) edge always reaches map.remove", put.where(b))
    # R1c capacity
    ins = L.calls_to(put, [HM + "insert"])
    if ctx.floor("R1c", "map.insert in put", len(ins), 1):
        true_edges = []
        for b, c, args, dest in L.calls_to(put, [HM + "contains_key"]):
            te, fe = L.bool_edges(put, dest[0])
            true_edges += te
        # comparison len vs capacity: edges taken when there is room
        room_edges = []
        zero_edges_nonzero = []
        zero_sw = []
        for b, blk in enumerate(put.blocks):
            for st in blk[0]:
                rv = st[2]
                if rv[0] != "bin" or rv[1] not in ("Ge", "Gt", "Lt", "Le", "Eq", "Ne"):
                    continue
                locs = FL.op_locals(rv[2]) + FL.op_locals(rv[3])
                seen, drecs = fl.back_slice(locs)
                reads_cap = False
                for d in drecs:
                    if d[0] == "stmt":
                        for o in FL.rvalue_operands(put.blocks[d[1]][0][d[2]][2]):
                            pl = FL.op_place(o)
                            if pl and any(isinstance(p, list) and p[0] == "f" and p[2] == "capacity" for p in pl[1]):
                                reads_cap = True
                has_len = any(L.is_call_to(c, [HM + "len", DQ + "len"]) for _, c in fl.calls_in_slice(drecs))
                consts = [FL.op_const(o) for o in (rv[2], rv[3]) if o[0] == "k"]
                te, fe = L.bool_edges(put, st[1][0])
                if reads_cap and has_len:
                    # Ge/Gt: len >= cap true means full -> room edge is the false edge
                    room_edges += fe if rv[1] in ("Ge", "Gt") else te
                elif reads_cap and 0 in consts and rv[1] in ("Eq", "Ne"):
                    zero_sw.append((b, te if rv[1] == "Eq" else fe))
                    zero_edges_nonzero += fe if rv[1] == "Eq" else te
        evict = [b for b, _, _, _ in pops]
        for b, c, args, dest in ins:
            w = CF.must_pass(put, [b], evict, guard_edges=true_edges + room_edges)
            if w is not None:
                ctx.violation("R1c", "put:insert-bounded", "a path inserts a new key without an update, a has-room test or an eviction: "
                              "the cache can exceed its capacity", put.where(b), {"path_lines": [put.line(x) for x in w]})
            else:
                ctx.ok("R1c", "put:insert-bounded", "update edge / room edge / eviction on every path", put.where(b))
            # capacity == 0
            g = CF.cfg(put)
            if not zero_sw:
                ctx.violation("R1c", "put:zero-capacity", "no `capacity == 0` test precedes the insertion: a zero-capacity cache holds "
                              "one entry", put.where(b))
            else:
                bad = None
                for sb, zero_taken in zero_sw:
                    for (s, tgt) in zero_taken:
                        if b in g.reachable_from(tgt):
                            bad = sb
                w2 = CF.must_pass(put, [b], [], guard_edges=zero_edges_nonzero)
                if bad is not None or w2 is not None:
                    ctx.violation("R1c", "put:zero-capacity", "the zero-capacity edge can reach the insertion", put.where(b))
                else:
                    ctx.ok("R1c", "put:zero-capacity", "capacity == 0 returns before inserting", put.where(b))
    # R1d get
    pushes = L.calls_to(get, [DQ + "push_front", DQ + "push_back"])
    cks = L.calls_to(get, [HM + "contains_key", HM + "get", HM + "get_mut"])
    if ctx.floor("R1d", "recency refresh in get", len(pushes), 1) and ctx.floor("R1d", "map lookup in get", len(cks), 1):
        hit_edges, miss_edges = [], []
        for b, c, args, dest in cks:
            if L.short(c["p"]) == "contains_key":
                te, fe = L.bool_edges(get, dest[0])
                hit_edges += te
                miss_edges += fe
            else:
                y, n = L.discr_edges(get, dest[0], 1)
                hit_edges += y
                miss_edges += n
        g = CF.cfg(get)
        for b, c, args, dest in pushes:
            w = CF.must_pass(get, [b], [], guard_edges=hit_edges) if hit_edges else [0]
            # must_pass with guard edges: path avoiding all hit edges reaching push
            if w is not None:
                ctx.violation("R1d", "get:refresh-on-hit-only", "the recency queue is refreshed on a path that did not take the hit edge "
                              "of the map lookup: a miss inserts a phantom key into the queue", get.where(b))
            else:
                ctx.ok("R1d", "get:refresh-on-hit-only", "push dominated by the hit edge", get.where(b))
        push_blocks = [b for b, _, _, _ in pushes]
        bad = None
        for (s, tgt) in hit_edges:
            p = g.path(tgt, g.return_blocks(), avoid_blocks=push_blocks)
            if p is not None:
                bad = p
        if bad is not None:
            ctx.violation("R1d", "get:hit-refreshes", "a hit path returns without moving the key to the front of the recency queue: "
                          "`get` does not count as a use, so the evicted entry is not the least recently used one", get.where(bad[0]),
                          {"path_lines": [get.line(x) for x in bad]})
        else:
            ctx.ok("R1d", "get:hit-refreshes", "every hit path passes the queue push")
    # R2 ObjectCache critical sections
    LOCK = ["std::sync::RwLock::<T>::write", "std::sync::RwLock::<T>::read", "std::sync::Mutex::<T>::lock",
            "std::sync::RwLock::<T>::try_write", "std::sync::RwLock::<T>::try_read"]
    ops = {"get": True, "put": True, "clear": True, "stats": False}
    for name, needs_write in ops.items():
        fn = ctx.fn(O + name, "R2")
        locks = L.calls_to(fn, LOCK)
        lock_blocks = set(b for b, _, _, _ in locks)
        inner = [(b, c) for b, c, a, d in L.calls_matching(fn, lambda c: (c.get("r") or c.get("p") or "").startswith("memory::cache::LruCache"))]
        inner_blocks = set(b for b, _ in inner)
        rng = L.path_count_range(fn, lambda b: b in lock_blocks)
        key = "ObjectCache::%s" % name
        if rng is None or rng != (1, 1):
            ctx.violation("R2", key + ":one-lock", "lock acquisitions per path = %s, expected exactly 1: an operation split over two "
                          "critical sections lets another thread interleave between check and update" % (rng,), fn.where())
        else:
            ctx.ok("R2", key + ":one-lock", "exactly one acquisition on every path", fn.where())
        rng2 = L.path_count_range(fn, lambda b: b in inner_blocks)
        if rng2 is None or rng2[1] > 1:
            ctx.violation("R2", key + ":one-op", "LruCache calls per path = %s, expected at most 1 under the lock" % (rng2,), fn.where())
        else:
            ctx.ok("R2", key + ":one-op", "calls per path %s: %s" % (rng2, [L.short(c["p"]) for _, c in inner]), fn.where())
        if needs_write:
            kinds = set(L.short(c["p"]) for _, c, _, _ in locks)
            if kinds - {"write", "lock", "try_write"}:
                ctx.violation("R2", key + ":write-lock", "%s mutates recency/contents but takes %s" % (name, sorted(kinds)), fn.where())
            else:
                ctx.ok("R2", key + ":write-lock", "takes %s" % sorted(kinds), fn.where())
    # R3 who may write the fields
    writers = set()
    n = 0
    for fn in ctx.facts.fns.values():
        for b, blk in enumerate(fn.blocks):
            for st in blk[0]:
                rv = st[2]
                places = [st[1]]
                if rv[0] == "ref" and rv[1] == "mut":
                    places.append(rv[2])
                for pl in places:
                    base_ty = fn.locals[pl[0]]
                    if "memory::cache::LruCache<" not in base_ty:
                        continue
                    if any(isinstance(p, list) and p[0] == "f" and p[2] in ("map", "order", "capacity") for p in pl[1]):
                        n += 1
                        owner = fn.parent or fn.id
                        if not owner.startswith("memory::cache::LruCache::<K, V>::"):
                            writers.add((owner, fn.where(b)))
    ctx.floor("R3", "mutable accesses to LruCache fields", n, 5)
    if writers:
        for owner, where in sorted(writers):
            ctx.violation("R3", "field-writer:" + owner, "LruCache's map/order/capacity is written outside its impl", where)
    else:
        ctx.ok("R3", "field-writers", "%d mutable field accesses, all inside impl LruCache" % n)
WITNESS = True
