"""C15 — the document-to-chunks pipeline preserves content and provenance.

 R1 identifier and output stability: over everything reachable from the RAG entry points inside the
    pipeline modules, no hash-ordered data reaches a returned chunk list / serialised output and no
    clock, RNG, thread id or random hasher state is reachable; `content_chunk_id` depends only on
    its three parameters.
 R2 page provenance is carried, not recomputed: the page numbers of a chunk are read from the
    `page` field of the elements of that chunk, and the partitioner stamps each element's page from
    the page loop variable.
 R3 breadcrumb stack discipline: when a title arrives, the heading stack is pruned by comparing the *stored level of each
    entry* with the new title's level (a `retain` whose closure orders the entry's level against the level, or a pop loop that
    compares the top entry) before the title is pushed. A positional cut (`truncate(level - 1)`, `drain`, `split_off`) assumes
    levels are dense: with a skipped level a closed sibling stays on the stack and leaks into every later breadcrumb.
 R4 the page index is the position in the page list: the `enumerate()` whose counter is stamped into the elements' `page`
    field in `do_partition_pages` is applied directly to the iterator over all pages — no `filter`, `skip`, `step_by`,
    `filter_map`, `rev`, `skip_while` or `take_while` underneath it; with a filter below `enumerate` every page after a skipped
    one (a blank or image-only page) is numbered one too low, and so are the chunks' page numbers and spans.
Not decided: exactly-once paragraphs, the breadcrumb values themselves.
"""
from .. import lib as L
from .. import flow as FL
from .. import order as OR

EXPLANATION = __doc__
D = "parser::document::PdfDocument::<R>::"


def reads_field(facts, fid, field):
    for f in L.group(facts, fid):
        # accessor of the same name on the element type (Element::page())
        for b, c, a, d, t, u in f.calls():
            r = c.get("r") or c.get("p") or ""
            if r.endswith("::" + field) and "Element" in r:
                return True
        for b, blk in enumerate(f.blocks):
            for st in blk[0]:
                for pl in FL.rvalue_places(st[2]) + [FL.op_place(o) for o in FL.rvalue_operands(st[2]) if FL.op_place(o)]:
                    if any(isinstance(p, list) and p[0] == "f" and p[2] == field for p in pl[1]):
                        return True
    return False


def run(ctx):
    r3_heading_stack(ctx)
    r4_page_index(ctx)
    facts = ctx.facts
    roots = [f for f in (D + "rag_chunks", D + "rag_chunks_with", D + "rag_chunks_with_source", D + "rag_chunks_with_source_and_config",
                         D + "rag_chunks_from_elements", D + "rag_chunks_json", D + "rag_chunks_with_pipeline", D + "rag_chunks_with_profile",
                         D + "partition", D + "partition_with", "pipeline::rag::RagChunk::to_json", "pipeline::export::MarkdownExporter::export")
             if f in facts.fns]
    allow = {}
    OR.check_scope(ctx, "R1", roots, scope_prefixes=["pipeline::", "parser::document::PdfDocument"], prims=["std::io::Write::write_all", "serde_json::to_string"],
                   what="RAG chunk output", allow=allow)
    cid = ctx.fn("pipeline::chunk_metadata::content_chunk_id", "R1")
    fields = False
    for f in L.group(facts, cid.id):
        for b, blk in enumerate(f.blocks):
            for st in blk[0]:
                for pl in FL.rvalue_places(st[2]):
                    pass
        for b, c, a, d, t, u in f.calls():
            if L.is_call_to(c, ["std::time::SystemTime::now", "rand::random", "std::collections::hash_map::RandomState::new", "std::thread::current",
                                "std::collections::hash_map::DefaultHasher::new"]):
                fields = (f, b, c)
    if fields:
        f, b, c = fields
        ctx.violation("R1", "content_chunk_id:pure", "content_chunk_id calls %s: identifiers differ between runs" % c["p"], f.where(b))
    else:
        ctx.ok("R1", "content_chunk_id:pure", "depends only on its parameters (no clock/RNG/random hasher)", cid.where())
    # R2 provenance
    for fid in ("pipeline::rag::collect_pages", "pipeline::chunk_metadata::page_anchor"):
        fn = ctx.fn(fid, "R2")
        if reads_field(facts, fid, "page"):
            ctx.ok("R2", "%s:reads-element-page" % L.short(fid), "page numbers come from the elements' `page` field", fn.where())
        else:
            ctx.violation("R2", "%s:reads-element-page" % L.short(fid), "%s does not read the `page` field of the chunk's elements: page "
                          "provenance is recomputed or constant" % L.short(fid), fn.where())


def r3_heading_stack(ctx):
    from .. import cfg as CF
    facts = ctx.facts
    fn = ctx.fn("pipeline::partition::Partitioner::assign_heading_paths", "R3")
    g = CF.cfg(fn)
    def on_stack(args):
        r = L.recv_of(fn, args)
        return r is not None and fn.locals[r[0]].startswith("std::vec::Vec<(u8,")
    pushes = [b for b, c, a, d in L.calls_to(fn, ["Vec::<T, A>::push"]) if on_stack(a)]
    if not ctx.floor("R3", "push onto the heading stack", len(pushes), 1):
        return
    key = "assign_heading_paths:stack-pruned-by-level-comparison"
    good = []
    positional = []
    for b, c, a, d, t, u in fn.calls():
        if not isinstance(c, dict) or not on_stack(a):
            continue
        nm = L.short(c.get("p") or "")
        if nm in ("retain", "retain_mut"):
            # the closure compares the entry's level (field 0 of its tuple argument) with something
            clos = [k for k in facts.closures_of.get(fn.id, ()) if ("%s" % fn.line(b)) in (facts.fns[k].file + ":%d" % facts.fns[k].lo)]
            for k in facts.closures_of.get(fn.id, ()):
                cf = facts.fns[k]
                if cf.lo != fn.line(b) and not (cf.lo <= fn.line(b) <= cf.hi):
                    continue
                if len(cf.locals) > 2 and "(u8," in cf.locals[2]:
                    cmps = [st for blk in cf.blocks for st in blk[0] if st[2][0] == "bin" and st[2][1] in ("Lt", "Le", "Gt", "Ge")]
                    if cmps:
                        good.append(b)
        elif nm in ("truncate", "drain", "split_off", "clear", "resize"):
            positional.append((b, nm))
        elif nm == "pop":
            # pop loop: some block of the enclosing loop compares a value read through last()/the stack with the level
            for h, body in g.loops().items():
                if b in body and any(L.is_call_to(fn.term(x)[1], ["last", "last_mut"]) for x in body if fn.term(x)[0] == "call" and on_stack(fn.term(x)[2])):
                    good.append(b)
    pre = [x for x in good if any(g.dominates(x, pb) for pb in pushes)]
    if pre and not positional:
        ctx.ok("R3", key, "entries are removed by comparing their stored level with the new title's level before the push", fn.where(pre[0]))
    elif positional:
        ctx.violation("R3", key, "the heading stack is cut positionally (`%s`) before a title is pushed: the number of ancestors kept "
                      "depends on the new level only, not on the levels of the entries, so when heading levels skip (a 24pt chapter "
                      "followed by two 14pt headings) the closed sibling stays on the stack and every later element gets it in its "
                      "heading_path" % positional[0][1], fn.where(positional[0][0]))
    else:
        ctx.violation("R3", key, "no pruning of the heading stack by level comparison dominates the push of a new title: closed sections "
                      "never leave the breadcrumb", fn.where(pushes[0]))


def r4_page_index(ctx):
    fn = None
    for k, f in ctx.facts.fns.items():
        if k.endswith("::do_partition_pages") and f.kind != "Closure":
            fn = f
    if fn is None:
        ctx.fn("parser::document::PdfDocument::<R>::do_partition_pages", "R4")
        return
    ens = [(b, c) for b, c, a, d, t, u in fn.calls() if isinstance(c, dict) and L.short(c.get("p") or "") == "enumerate"]
    if not ctx.floor("R4", "enumerate() over the pages in do_partition_pages", len(ens), 1):
        return
    BAD = ("Filter<", "FilterMap<", "Skip<", "SkipWhile<", "StepBy<", "Rev<", "TakeWhile<", "Take<", "Flatten<", "FlatMap<", "Peekable<", "Chain<")
    for i, (b, c) in enumerate(ens):
        st = c.get("self") or ""
        key = "do_partition_pages:enumerate#%d:over-all-pages" % (i + 1)
        if "ExtractedText" not in st and "Page" not in st:
            continue
        hit = [x for x in BAD if x in st]
        if hit:
            ctx.violation("R4", key, "the page counter comes from `enumerate()` applied on top of `%s` (%s): the counter is no longer the "
                          "page's position in the document, so every element after a skipped page is stamped with a page number that "
                          "is too low, and chunk page numbers, spans and regions name the wrong pages" % (hit[0].rstrip("<"), st[:120]), fn.where(b))
        else:
            ctx.ok("R4", key, "enumerate() directly over the page list (%s)" % st[:80], fn.where(b))
