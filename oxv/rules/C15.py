"""C15 — the document-to-chunks pipeline preserves content and provenance.

 R1 identifier and output stability: over everything reachable from the RAG entry points inside the
    pipeline modules, no hash-ordered data reaches a returned chunk list / serialised output and no
    clock, RNG, thread id or random hasher state is reachable; `content_chunk_id` depends only on
    its three parameters.
 R2 page provenance is carried, not recomputed: the page numbers of a chunk are read from the
    `page` field of the elements of that chunk, and the partitioner stamps each element's page from
    the page loop variable.
Not decided: exactly-once paragraphs, breadcrumb correctness.
"""
from .. import lib as L
from .. import flow as FL
from .. import order as OR

EXPLANATION = __doc__
D = "parser::document::PdfDocument::<R>::"


def reads_field(facts, fid, field):
    for f in L.group(facts, fid):
        # accessor of the same name on the element type (Element::page())
        for b, c, a, d, t, u in f.calls():
            r = c.get("r") or c.get("p") or ""
            if r.endswith("::" + field) and "Element" in r:
                return True
        for b, blk in enumerate(f.blocks):
            for st in blk[0]:
                for pl in FL.rvalue_places(st[2]) + [FL.op_place(o) for o in FL.rvalue_operands(st[2]) if FL.op_place(o)]:
                    if any(isinstance(p, list) and p[0] == "f" and p[2] == field for p in pl[1]):
                        return True
    return False


def run(ctx):
    facts = ctx.facts
    roots = [f for f in (D + "rag_chunks", D + "rag_chunks_with", D + "rag_chunks_with_source", D + "rag_chunks_with_source_and_config",
                         D + "rag_chunks_from_elements", D + "rag_chunks_json", D + "rag_chunks_with_pipeline", D + "rag_chunks_with_profile",
                         D + "partition", D + "partition_with", "pipeline::rag::RagChunk::to_json", "pipeline::export::MarkdownExporter::export")
             if f in facts.fns]
    allow = {}
    OR.check_scope(ctx, "R1", roots, scope_prefixes=["pipeline::", "parser::document::PdfDocument"], prims=["std::io::Write::write_all", "serde_json::to_string"],
                   what="RAG chunk output", allow=allow)
    cid = ctx.fn("pipeline::chunk_metadata::content_chunk_id", "R1")
    fields = False
    for f in L.group(facts, cid.id):
        for b, blk in enumerate(f.blocks):
            for st in blk[0]:
                for pl in FL.rvalue_places(st[2]):
                    pass
        for b, c, a, d, t, u in f.calls():
            if L.is_call_to(c, ["std::time::SystemTime::now", "rand::random", "std::collections::hash_map::RandomState::new", "std::thread::current",
                                "std::collections::hash_map::DefaultHasher::new"]):
                fields = (f, b, c)
    if fields:
        f, b, c = fields
        ctx.violation("R1", "content_chunk_id:pure", "content_chunk_id calls %s: identifiers differ between runs" % c["p"], f.where(b))
    else:
        ctx.ok("R1", "content_chunk_id:pure", "depends only on its parameters (no clock/RNG/random hasher)", cid.where())
    # R2 provenance
    for fid in ("pipeline::rag::collect_pages", "pipeline::chunk_metadata::page_anchor"):
        fn = ctx.fn(fid, "R2")
        if reads_field(facts, fid, "page"):
            ctx.ok("R2", "%s:reads-element-page" % L.short(fid), "page numbers come from the elements' `page` field", fn.where())
        else:
            ctx.violation("R2", "%s:reads-element-page" % L.short(fid), "%s does not read the `page` field of the chunk's elements: page "
                          "provenance is recomputed or constant" % L.short(fid), fn.where())
