"""C06 — encrypted files interoperate with an independent implementation.

 R1 layering on the reader side (ISO 32000-1 §7.6.1): objects taken out of an object stream are not
    decrypted individually — the container stream is (it comes through `get_object`).
 R2 key agreement: every entry of the encryption dictionary that governs decryption and that the
    writer emits (V, R, Length, CF, CFM, StmF, StrF, EncryptMetadata, O, U, OE, UE, P) is read by the
    reader's encryption-dictionary parser.
 R3 sibling agreement of the metadata flag (Algorithm 2 step f): the user-password and the owner-password unlock routines hand
    the security handler an `encrypt_metadata` flag computed from the same inputs — the dictionary's /EncryptMetadata and the
    *document's* revision /R (not the cipher-proxy revision of the handler object, which is R3 for an R4 file with /CFM /V2).
    A routine that derives the flag from different state unlocks the same file with one password and refuses the other.
Not decided: key derivation and any byte-level agreement with another implementation.
"""
from .. import lib as L
from .. import flow as FL

EXPLANATION = __doc__
R = "parser::reader::PdfReader::<R>::"
GOVERNING = ["V", "R", "Length", "CF", "CFM", "StmF", "StrF", "EncryptMetadata", "O", "U", "OE", "UE", "P", "Filter"]


def run(ctx):
    r3_metadata_flag_siblings(ctx)
    facts = ctx.facts
    gc = ctx.fn(R + "get_compressed_object", "anchor")
    dec = L.calls_to(gc, [R + "decrypt_object_if_needed"])
    via = L.calls_to(gc, [R + "get_object"])
    if dec:
        ctx.violation("R1", "get_compressed_object:no-individual-decryption", "an object extracted from an object stream is passed through "
                      "decrypt_object_if_needed although the container stream was already decrypted by get_object: in a file "
                      "encrypted by a conforming implementation the strings inside object streams are NOT separately encrypted, "
                      "so every such string is decrypted a second time into garbage", gc.where(dec[0][0]))
    else:
        ctx.ok("R1", "get_compressed_object:no-individual-decryption", "no per-object decryption", gc.where())
    if via:
        ctx.ok("R1", "get_compressed_object:container-via-get_object", "container loaded through get_object (decrypting path)", gc.where(via[0][0]))
    else:
        ctx.violation("R1", "get_compressed_object:container-via-get_object", "the object-stream container is not loaded through the "
                      "decrypting get_object path", gc.where())
    # R2 key agreement
    written = set()
    for fid, fn in facts.fns.items():
        if fid.startswith("encryption::encryption_dict::") and fid.endswith("::to_dict"):
            for f in L.group(facts, fid):
                for b, s, c in L.str_args(f, ["Dictionary::set"]):
                    written.add(s)
    read = set()
    for fid, fn in facts.fns.items():
        if fid.startswith("parser::encryption_handler::"):
            for b, s, c in L.str_args(fn, ["PdfDictionary::get", "PdfDictionary::contains_key"]):
                read.add(s)
            if fn.kind != "Closure":
                # keys handed to a local helper / closure as a literal (`names_identity("StrF")`)
                read |= L.keys_read_deep(facts, fid, depth=2)
    ctx.floor("R2", "encryption dictionary keys written", len(written), 10)
    ctx.floor("R2", "encryption dictionary keys read", len(read), 8)
    for k in GOVERNING:
        key = "encrypt-dict-key:%s" % k
        if k not in written:
            ctx.ok("R2", key, "not emitted by the writer", nontrivial=False)
        elif k in read:
            ctx.ok("R2", key, "written and read")
        else:
            ctx.violation("R2", key, "the writer emits /%s in the encryption dictionary but the reader's parser never reads it: a file "
                          "whose /%s differs from the reader's built-in assumption (e.g. /StrF /Identity with encrypted streams) is "
                          "decrypted wrongly" % (k, k), "parser::encryption_handler")


def r3_metadata_flag_siblings(ctx):
    facts = ctx.facts
    H = "parser::encryption_handler::EncryptionHandler::"
    sets = {}
    for name in ("unlock_user_r2_r4", "unlock_with_owner_password"):
        fn = ctx.fn(H + name, "R3")
        inputs = set()
        nflags = 0
        for b, c, a, d, t, u in fn.calls():
            if not isinstance(c, dict) or "StandardSecurityHandler" not in (c.get("p") or ""):
                continue
            for o in a:
                pl = FL.op_place(o)
                if pl is None or fn.locals[pl[0]] != "bool":
                    continue
                nflags += 1
                inputs |= set(x for x in L.cond_atoms(fn, o, depth=8) if not x.startswith("param:"))
        sets[name] = (inputs, nflags, fn)
    (ia, na, fa), (ib, nb, fb) = sets["unlock_user_r2_r4"], sets["unlock_with_owner_password"]
    if not ctx.floor("R3", "metadata flags handed to the security handler", min(na, nb), 1):
        return
    key = "unlock:encrypt_metadata-flag-inputs-agree"
    if ia == ib:
        ctx.ok("R3", key, "both routines derive the flag from %s" % sorted(ia), fb.where())
    else:
        ctx.violation("R3", key, "the owner-password unlock derives the `encrypt_metadata` flag it hands to the security handler from "
                      "%s, the user-password unlock from %s: for a file on which the two differ (e.g. V4/R4 with the RC4 crypt filter "
                      "and /EncryptMetadata false, whose handler object reports revision 3) one password opens the file and the other "
                      "correct password is refused" % (sorted(ib), sorted(ia)), fb.where(), {"user": sorted(ia), "owner": sorted(ib)})
