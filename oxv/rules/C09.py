"""C09 — serialized objects parse back to the same value.

Reader/writer alphabet agreement, decided exhaustively over the 256 byte values by extracting the
finite tables the code denotes (no execution):
 N1 names: for every object serialiser, the set of bytes its Name arm passes through unescaped is a
    subset of the ISO regular characters and of the bytes on which the library's name reader keeps
    reading; everything else must be written as #XX.
 N2 dictionary keys: the same for the key emission of every serialiser.
 N3 name decoding: the name readers turn the decoded bytes into text the same way the writers turned
    text into bytes (UTF-8), and decode the #XX form.
 S1 strings: every byte the String arm's escaper passes through raw is stored unchanged by the
    library's string readers and by a conforming reader (so `(`, `)`, `\\` and CR must be escaped);
    every escape sequence it emits is an arm of the readers' escape tables mapping back to the byte.
 S2 reader escape tables contain the ISO 32000-1 Table 3 escapes with the right values and octal.
 F1 reals: the value formatted in a Real arm is guarded by a finiteness test.
 S3 octal escapes are three digits: wherever a serialiser or escaper formats a byte as an octal escape (`\\{:o}`), the format
    is zero-padded to width 3 (`{:03o}`): a reader consumes up to three octal digits, so a shorter escape followed by a digit
    0..7 of the text decodes to a different byte (`\\0` + `7` -> `\\07`).
 G1 references: the Reference arm of every serialiser formats two run-time values before ` R` — the object number *and* the
    generation (a constant generation reads back as a different reference; all siblings agree).
 X1 sibling agreement: all serialisers of the object model satisfy the above alike.
Not decided: value equality of nested trees; precision of reals.
"""
from .. import lib as L
from .. import tokens as TK
from .. import flow as FL
from .. import tables as T

EXPLANATION = __doc__
LEX_NAME = "parser::lexer::Lexer::<R>::read_name"
LEX_STR = "parser::lexer::Lexer::<R>::read_literal_string"
TOK_NAME = "parser::content::ContentTokenizer::<'a>::read_name"
TOK_STR = "parser::content::ContentTokenizer::<'a>::read_literal_string"


def fmt_bytes(s):
    out = []
    for b in sorted(s)[:24]:
        out.append(chr(b) if 0x21 <= b < 0x7F else "0x%02X" % b)
    return " ".join(out) + (" …(%d)" % len(s) if len(s) > 24 else "")


def helpers_deep(facts, fn, lo, hi, depth=2):
    """crate-local functions called from the arm (transitively, small depth), excluding the serialiser"""
    seen = []
    frontier = TK.local_callees_in_lines(facts, fn, lo, hi)
    for d in range(depth):
        nxt = []
        for h in frontier:
            if h in seen or h == fn.id:
                continue
            seen.append(h)
            for c in facts.callees.get(h, ()):
                if c in facts.fns and c not in seen and c != fn.id and facts.fns[c].kind != "Closure":
                    nxt.append(c)
        frontier = nxt
    return seen


def classify_name_emission(facts, fn, lo, hi):
    """('table', set, helper) | ('recognised', helper) | ('raw',)"""
    hs = helpers_deep(facts, fn, lo, hi)
    for h in hs:
        ps = TK.name_pass_set_hir(facts, h)
        if ps is None and TK.is_name_escaper_by_constants(facts, h):
            ps = TK.name_pass_set_match(facts, h)
        if ps is not None:
            return ("table", ps, h)
    for h in hs:
        if TK.is_name_escaper_by_constants(facts, h):
            return ("recognised", h)
    return ("raw",)


def classify_string_emission(facts, fn, lo, hi):
    hs = helpers_deep(facts, fn, lo, hi)
    for h in hs:
        t = TK.escaper_table(facts, h)
        if t is not None:
            return ("table", t["table"], h)
    for h in hs:
        f = facts.fns[h]
        hexfmt = any(isinstance(p, dict) and p["tr"] in ("UpperHex", "LowerHex") and p["w"] == 2
                     for s in facts.fmt_sites_in(f) for p in s["tpl"])
        if hexfmt:
            return ("hex", h)
    return ("raw",)


def real_guarded(facts, fn, lo, hi):
    for f, b, c, a, d in TK.calls_in_lines(facts, fn, lo, hi):
        if L.is_call_to(c, ["is_finite", "finite_or_zero", "is_nan", "is_infinite"]):
            return True
    for h in helpers_deep(facts, fn, lo, hi):
        for f in L.group(facts, h):
            if L.calls_to(f, ["is_finite", "finite_or_zero", "is_nan", "is_infinite"]):
                return True
    return False


def check_octal_escapes(ctx, rule="S3"):
    """every Octal placeholder that follows a backslash in a format template of the crate's writers is {:03o}"""
    facts = ctx.facts
    n = 0
    for s_ in facts.fmts:
        tpl = s_["tpl"]
        for i, p_ in enumerate(tpl):
            if not (isinstance(p_, dict) and p_.get("tr") == "Octal"):
                continue
            prev = tpl[i - 1] if i > 0 and isinstance(tpl[i - 1], str) else ""
            if not prev.endswith("\\"):
                continue
            fn = TK._owner_fn(facts, s_)
            owner = (fn.parent or fn.id) if fn is not None else s_["file"]
            if owner.startswith("parser::") or "::tests::" in owner:
                continue
            n += 1
            key = "octal-escape:%s" % owner
            where = "%s:%d" % (s_["file"], s_["line"])
            if p_.get("w") == 3 and p_.get("zero"):
                ctx.ok(rule, key, "\\{:03o}", where)
            else:
                ctx.violation(rule, key, "%s writes a byte as an octal escape with fewer than three fixed digits (`\\{:o}`, width %s): a "
                              "literal-string reader takes up to three octal digits, so when the next character of the text is `0`..`7` "
                              "it is absorbed into the escape and a different byte is read back (`rev\\07` for NUL followed by `7`)"
                              % (L.short(owner), p_.get("w")), where)
    ctx.counts["%s:octal escape sites" % rule] = n
    return n


def check_readers(ctx, rule_prefix=""):
    facts = ctx.facts
    res = {}
    for label, nf, sf in (("Lexer", LEX_NAME, LEX_STR), ("ContentTokenizer", TOK_NAME, TOK_STR)):
        ctx.fn(nf, "anchor")
        ctx.fn(sf, "anchor")
        brk = TK.name_break_set(facts, nf)
        key = "%s:name-delimiters" % label
        if brk is None:
            ctx.violation("N3", key, "the delimiter set of %s::read_name could not be extracted (loop shape changed)" % label, nf)
            brk = set()
        else:
            ctx.ok("N3", key, "stops on: " + fmt_bytes(brk), nf)
        res[label + ":break"] = brk
        if TK.decodes_hash(facts, nf):
            ctx.ok("N3", "%s:name-#XX" % label, "decodes '#'", nf)
        else:
            ctx.violation("N3", "%s:name-#XX" % label, "%s::read_name does not decode the #XX form: every escaped name character reads "
                          "back as three characters" % label, nf)
        st = TK.string_escape_table(facts, sf)
        if st is None:
            ctx.violation("S2", "%s:escape-table" % label, "no escape-letter table found in %s::read_literal_string" % label, sf)
            res[label + ":esc"] = {}
            continue
        res[label + ":esc"] = st["table"]
        for letter, byte in sorted(TK.ISO_ESCAPES.items()):
            key = "%s:escape:\\%s" % (label, chr(letter))
            got = st["table"].get(letter)
            if got is None:
                ctx.violation("S2", key, "%s has no arm for the escape \\%s: the writer's escaped byte 0x%02X reads back as the letter `%s`"
                              % (label, chr(letter), byte, chr(letter)), "%s:%d" % (st["match"]["file"], st["match"]["line"]))
            elif got != byte:
                ctx.violation("S2", key, "%s decodes \\%s to 0x%02X, ISO 32000-1 Table 3 says 0x%02X" % (label, chr(letter), got, byte),
                              "%s:%d" % (st["match"]["file"], st["match"]["line"]))
            else:
                ctx.ok("S2", key, "-> 0x%02X" % byte)
        if st["octal"] >= set(range(0x30, 0x38)):
            ctx.ok("S2", "%s:escape:octal" % label, "\\0..\\7 handled")
        else:
            ctx.violation("S2", "%s:escape:octal" % label, "octal escapes \\ddd are not handled by %s" % label, sf)
        raw = TK.string_raw_special(facts, sf)
        res[label + ":rawspecial"] = raw or set()
    # N3 text decoding of names
    for label, nf in (("Lexer", LEX_NAME), ("ContentTokenizer", TOK_NAME)):
        utf8 = False
        latin1 = None
        for fid in [nf] + [c for c in facts.callees.get(nf, ()) if c in facts.fns and "decode_name" in c]:
            for f in L.group(facts, fid):
                if L.calls_to(f, ["String::from_utf8", "String::from_utf8_lossy", "std::str::from_utf8"]):
                    # from_utf8 of the *whole* name (not of the two hex digits)
                    for b, c, a, d in L.calls_to(f, ["String::from_utf8", "String::from_utf8_lossy"]):
                        utf8 = True
                for b, blk in enumerate(f.blocks):
                    for st in blk[0]:
                        rv = st[2]
                        if rv[0] == "cast" and rv[3] == "char" and rv[4] == "u8":
                            # does this char reach String::push ?
                            fl = FL.flow(f)
                            fw = fl.fwd_slice([st[1][0]])
                            for bb, cc, aa, dd in L.calls_to(f, ["String::push"]):
                                if any(l in fw for op in aa[1:] for l in FL.op_locals(op)):
                                    latin1 = f.where(bb)
        key = "%s:name-text-decoding" % label
        if utf8:
            ctx.ok("N3", key, "name bytes decoded as UTF-8", nf)
        elif latin1:
            ctx.violation("N3", key, "%s::read_name appends each (decoded) byte as `u8 as char` — a Latin-1 interpretation — while every "
                          "writer emits the UTF-8 bytes of the name: a name containing a non-ASCII character (e.g. `é`, written as "
                          "#C3#A9 or raw C3 A9) reads back as two characters (`Ã©`)" % label, latin1)
        else:
            ctx.undecided_site("N3", key, "no byte-to-text conversion recognised", nf)
    return res


def check_serializers(ctx, readers, rules=("N1", "N2", "S1", "F1")):
    facts = ctx.facts
    sers = TK.serializers(facts)
    ctx.floor("X1", "object serialisers in the crate", len(sers), 4)
    lex_ok = TK.ALL - readers.get("Lexer:break", set())
    summary = {}
    for fn, m in sers:
        sname = "::".join(x for x in fn.id.split("::") if not x.startswith("PdfWriter"))
        sname = "::".join(sname.split("::")[-2:])
        # --- Name arm
        i = TK.arm_index(m, "Name")
        if i is not None and "N1" in rules:
            lo, hi = TK.arm_range(fn, m, i)
            cls = classify_name_emission(facts, fn, lo, hi)
            key = "%s:Name" % sname
            where = "%s:%d" % (m["file"], lo)
            summary[key] = cls[0]
            if cls[0] == "raw":
                bad = TK.ALL - TK.REGULAR
                ctx.violation("N1", key, "the Name arm of %s emits the name's bytes unescaped: a name containing a space, `/`, `(`, `#`, "
                              "`%%` or any other non-regular character (e.g. `My Image`) ends the name token early and corrupts the "
                              "enclosing object; ISO 32000-1 §7.3.5 requires #XX for these" % sname, where,
                              {"unescaped_non_regular_bytes": len(bad)})
            elif cls[0] == "table":
                ps = cls[1]
                bad = (ps - TK.REGULAR) | (ps - lex_ok)
                if bad:
                    ctx.violation("N1", key, "the name escaper %s passes through non-regular / reader-delimiting byte(s): %s"
                                  % (L.short(cls[2]), fmt_bytes(bad)), where)
                else:
                    ctx.ok("N1", key, "%s passes only %d regular bytes" % (L.short(cls[2]), len(ps)), where)
            else:
                ctx.undecided_site("N1", key, "escaper %s recognised by its constants ('#', hex) but its table is not extractable" % L.short(cls[1]), where)
        # --- dictionary keys
        i = TK.arm_index(m, "Dictionary")
        if i is not None and "N2" in rules:
            lo, hi = TK.arm_range(fn, m, i)
            cls = classify_name_emission(facts, fn, lo, hi)
            key = "%s:DictKey" % sname
            where = "%s:%d" % (m["file"], lo)
            summary[key] = cls[0]
            if cls[0] == "raw":
                ctx.violation("N2", key, "the Dictionary arm of %s emits keys unescaped: a key with a non-regular character breaks the "
                              "dictionary" % sname, where)
            elif cls[0] == "table":
                ps = cls[1]
                bad = (ps - TK.REGULAR) | (ps - lex_ok)
                if bad:
                    ctx.violation("N2", key, "the key escaper %s passes through %s" % (L.short(cls[2]), fmt_bytes(bad)), where)
                else:
                    ctx.ok("N2", key, "%s passes only regular bytes" % L.short(cls[2]), where)
            else:
                ctx.undecided_site("N2", key, "escaper recognised by constants only", where)
        # --- Reference arm
        i = TK.arm_index(m, "Reference")
        if i is not None:
            lo, hi = TK.arm_range(fn, m, i)
            sites = [s_ for s_ in facts.fmt_sites_in(fn) if lo <= s_["line"] <= hi and any(isinstance(p_, str) and p_.rstrip().endswith("R") for p_ in s_["tpl"])]
            key = "%s:Reference" % sname
            where = "%s:%d" % (m["file"], lo)
            if not sites:
                ctx.undecided_site("G1", key, "no `.. R` format site found in the Reference arm", where)
            else:
                ph = [p_ for p_ in sites[0]["tpl"] if isinstance(p_, dict)]
                if len(ph) >= 2:
                    ctx.ok("G1", key, "object number and generation are both formatted", where)
                else:
                    ctx.violation("G1", key, "the Reference arm of %s formats %d run-time value(s) before ` R` (template %r): the generation "
                                  "number of the referenced object is not written, so `42 3 R` is read back as `42 0 R` — a different "
                                  "(usually missing) object; the sibling serialisers write both" % (sname, len(ph), "".join(
                                      p_ if isinstance(p_, str) else "{}" for p_ in sites[0]["tpl"])), where)
        # --- String arm
        i = TK.arm_index(m, "String")
        if i is not None and "S1" in rules:
            lo, hi = TK.arm_range(fn, m, i)
            cls = classify_string_emission(facts, fn, lo, hi)
            key = "%s:String" % sname
            where = "%s:%d" % (m["file"], lo)
            summary[key] = cls[0]
            if cls[0] == "raw":
                ctx.violation("S1", key, "the String arm of %s writes the string's bytes between parentheses without escaping: `)`, `(` or "
                              "`\\` inside the value ends or corrupts the literal" % sname, where)
            elif cls[0] == "hex":
                ctx.ok("S1", key, "hex string writer %s (any byte is representable)" % L.short(cls[1]), where)
            else:
                tb = cls[1]
                h = cls[2]
                must = {0x28: "(", 0x29: ")", 0x5C: "\\"}
                for b, ch in must.items():
                    k2 = "%s:String:escapes-0x%02X" % (sname, b)
                    if tb[b][0] == "raw":
                        ctx.violation("S1", k2, "%s passes `%s` through raw: the literal string is terminated / mis-nested" % (L.short(h), ch), where)
                    else:
                        ctx.ok("S1", k2, "`%s` escaped" % ch, where)
                k2 = "%s:String:escapes-CR" % sname
                if tb[0x0D][0] == "raw":
                    ctx.violation("S1", k2, "%s passes a raw carriage return (0x0D) through: ISO 32000-1 §7.3.4.2 makes a conforming "
                                  "reader turn an unescaped CR or CRLF inside a literal string into a single LF, so a value containing "
                                  "0x0D does not read back as written (it must be emitted as \\r)" % L.short(h), where)
                else:
                    ctx.ok("S1", k2, "CR escaped", where)
                # every emitted escape sequence must be decodable by both readers
                for b in range(256):
                    if tb[b][0] == "esc":
                        seq = tb[b][1]
                        if len(seq) == 2 and seq[0] == 0x5C:
                            for label in ("Lexer", "ContentTokenizer"):
                                et = readers.get(label + ":esc", {})
                                got = et.get(seq[1])
                                k3 = "%s:String:0x%02X->\\%s:%s" % (sname, b, chr(seq[1]), label)
                                if got != b:
                                    ctx.violation("S1", k3, "%s writes byte 0x%02X as \\%s but %s decodes \\%s to %s" %
                                                  (L.short(h), b, chr(seq[1]), label, chr(seq[1]), "0x%02X" % got if got is not None else "the letter itself"), where)
                                else:
                                    ctx.ok("S1", k3, "round-trips", nontrivial=False)
        # --- Real arm
        i = TK.arm_index(m, "Real")
        if i is not None and "F1" in rules:
            lo, hi = TK.arm_range(fn, m, i)
            key = "%s:Real" % sname
            where = "%s:%d" % (m["file"], lo)
            if real_guarded(facts, fn, lo, hi):
                ctx.ok("F1", key, "finiteness guard present", where)
            else:
                ctx.violation("F1", key, "the Real arm of %s formats the value without a finiteness test: NaN or infinity is written as "
                              "the token `NaN` / `inf`, which no PDF reader accepts as a number" % sname, where)
    return summary


def run(ctx):
    check_octal_escapes(ctx)
    readers = check_readers(ctx)
    check_serializers(ctx, readers)
    # sibling tokenisers: note only (reader leniency is not part of the property)
    a, b = readers.get("Lexer:break", set()), readers.get("ContentTokenizer:break", set())
    if a != b:
        ctx.note("name delimiter sets differ between Lexer and ContentTokenizer: only in one: %s" % fmt_bytes(a ^ b))
