"""C13 — text in embedded fonts is recoverable exactly.

 R1 pairing "glyphs shown => characters recorded": every text-drawing entry point that builds a
    show-text operator from a `&str` argument passes, on every path to that operator, the routine
    that records the characters used per font (the record the writer subsets the embedded font
    from). A drawing routine that skips the record shows glyphs the subset font does not contain.
 R2 the subsetter's glyph numbering reaches the tables that name glyphs: in the Type0 font writer the
    mapping returned by the subsetter is the argument of both the CIDToGIDMap generator and the
    width-array generator, and the character set given to the subsetter is the per-font set recorded
    by R1.
 R3 the ToUnicode lookup used when the text is read back is length-gated (rule C26 R6): a code is
    compared with a bfrange only when both have the same number of bytes, so a one-byte prefix of a
    two-byte code cannot match a two-byte range (which would garble every character whose high
    byte lies inside a range that crosses a 256 boundary).
 R4 the width array covers every character: `generate_width_array` hands every (character, width) pair of the font's width
    table to the /W builder — between the width query and the builder there is no `filter` / `retain` / `skip_while` and no loop
    path that skips a pair after comparing its width with a constant. A pair that is left out falls back to /DW, which is wrong
    for every glyph whose advance differs from the default (zero-advance combining marks get the default 560).
Not decided: width values, the ToUnicode values themselves, extraction equality.
"""
from .. import lib as L
from .. import flow as FL
from .. import cfg as CF

EXPLANATION = __doc__
SHOW_VARIANTS = ("ShowText", "ShowTextHex", "ShowTextArray", "ShowGlyphs", "ShowTextCids")
RECORDERS = ["record_used_chars", "merge_font_usage", "record_chars", "track_used_chars"]


def builds_show_op(facts, fn):
    """blocks where a show-text Op is aggregated or obtained from a builder"""
    out = []
    for f in L.group(facts, fn.id):
        for b, blk in enumerate(f.blocks):
            for st in blk[0]:
                rv = st[2]
                if rv[0] == "agg" and rv[1][0] == "adt" and rv[1][1] == "graphics::ops::Op" and rv[1][2] in SHOW_VARIANTS:
                    out.append((f, b, rv[1][2]))
        for b, c, a, d in L.calls_to(f, ["text::build_show_text_op"]):
            out.append((f, b, "build_show_text_op"))
    return out


def records(facts, fid, depth=2, seen=None):
    """does the function (or a crate-local callee, small depth) record used characters?"""
    seen = seen or set()
    if fid in seen or fid not in facts.fns:
        return False
    seen.add(fid)
    for f in L.group(facts, fid):
        if L.calls_to(f, RECORDERS):
            return True
        # direct insertion into a used-characters field
        for b, c, a, d in L.calls_to(f, ["HashSet::<T, S, A>::insert", "HashSet::<T, S, A>::extend", "Extend::extend"]):
            r = L.recv_of(f, a)
            if r and any("used_char" in x for x in r[1]):
                return True
    return False


def run(ctx):
    r4_width_array_complete(ctx)
    facts = ctx.facts
    from . import C26
    C26.check_range_length_gate(ctx, "R3")
    n = 0
    for fid, fn in sorted(facts.fns.items()):
        if fn.kind == "Closure" or not fn.params:
            continue
        if not (fn.self_ty or "").split("<")[0] in ("graphics::GraphicsContext", "text::TextContext", "text::flow::TextFlowContext",
                                                    "layout::rich_text::RichText", "page::Page"):
            continue
        if not any(p in ("&str", "&'a str") or p.startswith("&str") for p in fn.params):
            continue
        if fn.vis != "pub":
            continue
        shows = [s for s in builds_show_op(facts, fn) if s[0].id == fn.id]
        if not shows:
            continue
        g = CF.cfg(fn)
        rec_blocks = [b for b, c, a, d, t, u in fn.calls() if L.is_call_to(c, RECORDERS) or
                      ((c.get("r") or "") in facts.fns and (c.get("r") or "") != fn.id and records(facts, c.get("r"), seen=set([fn.id])))
                      or (L.recv_of(fn, a) and any("used_char" in x for x in L.recv_of(fn, a)[1]))]
        for f, b, variant in shows:
            n += 1
            key = "%s:%s" % (fid, variant)
            # pairing in either order: a path entry -> operator -> return that avoids every recording site
            w = None
            if rec_blocks:
                w1 = g.path(0, [b], avoid_blocks=rec_blocks)
                w2 = g.path(b, g.return_blocks(), avoid_blocks=rec_blocks)
                if w1 is not None and w2 is not None:
                    w = w1 + w2[1:]
            if not rec_blocks or w is not None:
                ctx.violation("R1", key, "%s builds a %s operator from its text argument on a path that never records the characters "
                              "used: when the current font is an embedded (subsetted) font, the glyphs drawn here are missing from the "
                              "subset and the page shows .notdef boxes / cannot be extracted" % (L.short(fid), variant), fn.where(b),
                              {"path_lines": [fn.line(x) for x in (w or [])][:8]})
            else:
                ctx.ok("R1", key, "characters recorded before the operator is built", fn.where(b))
    ctx.floor("R1", "text-drawing entry points building show-text operators", n, 6)
    # R2 subsetter mapping reaches both tables
    W = "writer::pdf_writer::PdfWriter::<W>::"
    fn = ctx.fn(W + "write_type0_font_from_font", "R2")
    fl = FL.flow(fn)
    sub = L.calls_matching(fn, lambda c: "subset" in (c.get("p") or "").lower() and (c.get("l") or "truetype" in (c.get("p") or "")))
    ctx.floor("R2", "subsetter calls in write_type0_font_from_font", len(sub), 1)
    sub_blocks = set(b for b, c, a, d in sub)
    for callee in ("generate_cid_to_gid_map", "generate_width_array"):
        cs = L.calls_to(fn, [W + callee])
        if not ctx.floor("R2", "call of " + callee, len(cs), 1):
            continue
        ok = False
        for b, c, a, d in cs:
            for op in a:
                seen, drecs = fl.back_slice(FL.op_locals(op))
                if any(dd[0] == "call" and dd[1] in sub_blocks for dd in drecs):
                    ok = True
        key = "type0:%s-gets-subset-mapping" % callee
        if ok:
            ctx.ok("R2", key, "an argument derives from the subsetter's result", fn.where(cs[0][0]))
        else:
            ctx.violation("R2", key, "%s is not given the glyph mapping returned by the subsetter: the table names glyph ids of the "
                          "original font while the embedded program is the renumbered subset" % callee, fn.where(cs[0][0]))
    # the character set given to the subsetter comes from the per-font record
    used_reads = False
    for b, c, a, d in sub:
        for op in a:
            seen, drecs = fl.back_slice(FL.op_locals(op))
            for dd in drecs:
                if dd[0] == "stmt":
                    for pl in FL.rvalue_places(fn.blocks[dd[1]][0][dd[2]][2]) + [FL.op_place(o) for o in FL.rvalue_operands(fn.blocks[dd[1]][0][dd[2]][2]) if FL.op_place(o)]:
                        if any(isinstance(p, list) and p[0] == "f" and "used_char" in (p[2] or "") for p in pl[1]):
                            used_reads = True
    if sub:
        if used_reads:
            ctx.ok("R2", "type0:subset-from-recorded-chars", "subsetter input <- document_used_chars_by_font", fn.where(sub[0][0]))
        else:
            ctx.violation("R2", "type0:subset-from-recorded-chars", "the character set handed to the subsetter is not the per-font record "
                          "of used characters", fn.where(sub[0][0]))


def r4_width_array_complete(ctx):
    facts = ctx.facts
    fn = ctx.fn("writer::pdf_writer::PdfWriter::<W>::generate_width_array", "R4")
    key = "generate_width_array:no-width-filter"
    bad = None
    for f in L.group(facts, fn.id):
        for b, c, a, d, t, u in f.calls():
            if isinstance(c, dict) and L.short(c.get("p") or "") in ("filter", "filter_map", "retain", "skip_while", "take_while", "retain_mut"):
                # closure argument compares something with a constant?
                for o in a[1:]:
                    pl = FL.op_place(o)
                    if pl is None:
                        continue
                    ty = f.locals[pl[0]]
                    for k in facts.closures_of.get(fn.id, ()):
                        cf = facts.fns[k]
                        if ("%d:" % cf.lo) in ty or ty.endswith("}") and str(cf.lo) in ty:
                            cmps = [st for blk in cf.blocks for st in blk[0] if st[2][0] == "bin" and st[2][1] in ("Lt", "Le", "Gt", "Ge", "Eq", "Ne")
                                    and (FL.op_const(st[2][2]) is not None or FL.op_const(st[2][3]) is not None)]
                            if cmps:
                                bad = (f.where(b), L.short(c["p"]))
    ngw = len(L.calls_to(fn, ["get_glyph_widths"]))
    if not ctx.floor("R4", "width query in generate_width_array", ngw, 1):
        return
    if bad:
        ctx.violation("R4", key, "generate_width_array passes the font's (character, width) pairs through `%s` with a closure that compares "
                      "with a constant before building /W: the pairs it drops (e.g. zero-advance combining marks U+0300..U+036F) have no "
                      "/W entry and are shown with the default width /DW instead of the font's advance" % bad[1], bad[0])
    else:
        ctx.ok("R4", key, "every (character, width) pair reaches the /W builder", fn.where())
