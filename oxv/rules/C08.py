"""C08 — bounded decoding respects its limit and agrees with full decoding.

 R1 every path in `decode_stream_with_limit` from a decoder/predictor call to a successful return
    passes the comparison of the decoded length with the caller's limit; the unfiltered path goes
    through the bounded copy.
 R2 inside each `*_with_limit` decoder every output-growing loop either grows only through the
    bounded helpers or contains a comparison of the output length with the limit parameter.
 R3 the bounded helpers test the limit on every path before they grow the buffer, and the test
    cannot overflow.
 R4 sibling agreement: each unbounded decoder delegates to its bounded sibling with the documented
    ceiling constant, so both paths share one decoder body; both dispatchers pair parameters with
    filters the same way (C07-R3).
 R5 ceiling: no `read_to_end` / `io::copy` / `read_to_string` on a flate2 decoder anywhere except
    inside the limited reader, whose growth is dominated by the limit comparison.
Not decided: equality of the bounded and unbounded results for Flate (different strategies).
"""
from .. import lib as L
from .. import flow as FL
from .. import cfg as CF

EXPLANATION = __doc__
F = "parser::filters::"
BOUNDED = ["decode_flate_with_limit", "decode_ascii_hex_with_limit", "decode_ascii85_with_limit", "decode_lzw_with_limit",
           "decode_run_length_with_limit"]
GROW = ["Vec::<T, A>::push", "Vec::<T, A>::extend_from_slice", "Vec::<T, A>::resize", "Vec::<T, A>::extend", "Vec::<T, A>::append",
        "Vec::<T, A>::insert"]


def limit_cmp_blocks(fn, limit_locals):
    """blocks that compute an ordering comparison one side of which derives from the limit parameter"""
    fl = FL.flow(fn)
    live = CF.cfg(fn).live()
    out = []
    for b, blk in enumerate(fn.blocks):
        if b not in live:
            continue
        for st in blk[0]:
            rv = st[2]
            if rv[0] == "bin" and rv[1] in ("Gt", "Ge", "Lt", "Le"):
                locs = FL.op_locals(rv[2]) + FL.op_locals(rv[3])
                seen, _ = fl.back_slice(locs, stop_at_calls=lambda c: bool(c.get("l")))
                if seen & set(limit_locals):
                    out.append(b)
    return out


def ok_return_blocks(fn):
    out = []
    for b, blk in enumerate(fn.blocks):
        for st in blk[0]:
            rv = st[2]
            if st[1] == [0, []] and rv[0] == "agg" and rv[1][0] == "adt" and rv[1][2] == "Ok":
                out.append(b)
    return out


def run(ctx):
    facts = ctx.facts
    ds = ctx.fn(F + "decode_stream_with_limit", "anchor")
    g = CF.cfg(ds, thread=True)
    limit = [i for i in range(1, ds.nargs + 1) if ds.name_of(i) == "max_bytes"] or [ds.nargs]
    cmps = limit_cmp_blocks(ds, limit)
    decs = L.calls_to(ds, BOUNDED + ["apply_predictor"])
    oks = ok_return_blocks(ds)
    ctx.floor("R1", "decoder/predictor calls in decode_stream_with_limit", len(decs), 6)
    ctx.floor("R1", "limit comparisons in decode_stream_with_limit", len(cmps), 1)
    for b, c, a, d in decs:
        key = "decode_stream_with_limit:%s:then-limit-check" % L.short(c["p"])
        w = g.path(b, oks, avoid_blocks=cmps)
        if w is not None:
            ctx.violation("R1", key, "after %s a successful return is reachable without comparing the decoded length with the caller's "
                          "limit: a filter chain (or a predictor) can hand back more than `max_bytes`" % L.short(c["p"]), ds.where(b),
                          {"path_lines": [ds.line(x) for x in w][:12]})
        else:
            ctx.ok("R1", key, "length compared with the limit before Ok", ds.where(b))
    cw = L.calls_to(ds, ["copy_with_limit"])
    if cw:
        ctx.ok("R1", "decode_stream_with_limit:unfiltered-via-bounded-copy", "", ds.where(cw[0][0]))
    else:
        ctx.violation("R1", "decode_stream_with_limit:unfiltered-via-bounded-copy", "the unfiltered stream is not copied through the "
                      "bounded copy", ds.where())
    # limit passed on to every bounded decoder
    for b, c, a, d in L.calls_to(ds, BOUNDED):
        key = "decode_stream_with_limit:%s:limit-forwarded" % L.short(c["p"])
        fl = FL.flow(ds)
        la = a[-1]
        seen, _ = fl.back_slice(FL.op_locals(la))
        if la[0] == "k" or not (seen & set(limit)):
            ctx.violation("R1", key, "%s is not given the caller's limit" % L.short(c["p"]), ds.where(b))
        else:
            ctx.ok("R1", key, "limit forwarded", ds.where(b))
    # R2
    for name in BOUNDED:
        fn = ctx.fn(F + name, "R2")
        gg = CF.cfg(fn)
        lim = [i for i in range(1, fn.nargs + 1) if fn.name_of(i) == "max_bytes"] or [fn.nargs]
        cm = set(limit_cmp_blocks(fn, lim))
        grows = L.calls_to(fn, GROW)
        bounded_calls = L.calls_to(fn, ["push_bounded", "extend_bounded", "read_to_end_limited"])
        loops = gg.loops()
        # result vector: the one returned
        n = 0
        for b, c, a, d in grows:
            r = L.recv_of(fn, a)
            rty = fn.locals[r[0]] if r else ""
            if "Vec<u8>" not in rty or (r and r[1]):
                continue
            # only the returned buffer: heuristically the Vec<u8> local named `result`
            if fn.name_of(r[0]) not in ("result", "out", "output", "decoded"):
                continue
            n += 1
            inl = [(h, body) for h, body in loops.items() if b in body]
            key = "%s:growth:%s@loop" % (name, L.short(c["p"]))
            if not inl:
                ctx.ok("R2", key + ":none", "growth outside loops (bounded by one step)", fn.where(b), nontrivial=False)
                continue
            h, body = max(inl, key=lambda x: len(x[1]))
            if cm & body:
                ctx.ok("R2", "%s:growth-loop-has-limit-check" % name, "limit compared inside the growing loop", fn.where(h))
            else:
                ctx.violation("R2", "%s:growth-loop-has-limit-check" % name, "%s grows its output in a loop that never compares the "
                              "length with `max_bytes`: the bounded decoder is unbounded (decompression bomb through the limited API)"
                              % name, fn.where(b))
        if n == 0:
            if bounded_calls:
                ctx.ok("R2", "%s:grows-only-through-bounded-helpers" % name, "%d bounded helper call(s)" % len(bounded_calls), fn.where())
            else:
                ctx.violation("R2", "%s:no-growth-found" % name, "no output growth recognised in %s (anchor changed)" % name, fn.where())
    # R3 helpers
    for name in ("push_bounded", "extend_bounded"):
        fn = ctx.fn(F + name, "R3")
        gg = CF.cfg(fn, thread=True)
        lim = [fn.nargs]
        cm = limit_cmp_blocks(fn, lim)
        grows = [b for b, c, a, d in L.calls_to(fn, GROW)]
        key = "%s:check-dominates-growth" % name
        if not cm:
            ctx.violation("R3", key, "%s grows the buffer without comparing against the limit" % name, fn.where())
            continue
        bad = [b for b in grows if not any(gg.dominates(c, b) for c in cm)]
        if bad or not grows:
            ctx.violation("R3", key, "the growth in %s is not dominated by the limit comparison" % name, fn.where((bad or [0])[0]))
        else:
            ctx.ok("R3", key, "comparison dominates the growth", fn.where(grows[0]))
        # overflow-free comparison: no overflow assert feeding the comparison
        ov = [b for b in range(len(fn.blocks)) if fn.term(b)[0] == "assert" and fn.term(b)[3].startswith("Overflow")]
        if ov:
            ctx.violation("R3", "%s:comparison-cannot-overflow" % name, "the limit test of %s contains unchecked arithmetic (it can "
                          "panic instead of rejecting)" % name, fn.where(ov[0]))
        else:
            ctx.ok("R3", "%s:comparison-cannot-overflow" % name, "no unchecked arithmetic")
    # R4 delegation with the ceiling constant
    ceiling = facts.const_int(F + "MAX_DECOMPRESSED_SIZE")
    ctx.counts["MAX_DECOMPRESSED_SIZE"] = ceiling
    if ceiling is None:
        ctx.violation("R4", "anchor-missing:MAX_DECOMPRESSED_SIZE", "ceiling constant not found", F)
    for unb, bnd in (("decode_ascii_hex", "decode_ascii_hex_with_limit"), ("decode_ascii85", "decode_ascii85_with_limit"),
                     ("decode_lzw", "decode_lzw_with_limit"), ("decode_run_length", "decode_run_length_with_limit")):
        fn = ctx.fn(F + unb, "R4")
        cs = L.calls_to(fn, [F + bnd])
        key = "%s:delegates-with-ceiling" % unb
        if not cs:
            ctx.violation("R4", key, "%s does not delegate to %s: the bounded and unbounded paths are separate decoders that can "
                          "disagree" % (unb, bnd), fn.where())
            continue
        la = cs[0][2][-1]
        v = FL.op_const(la)
        if isinstance(v, dict):
            v = None
        if v is None:
            # constant through a local
            fl = FL.flow(fn)
            _, drecs = fl.back_slice(FL.op_locals(la))
            vals = [x for x in fl.consts_in_slice(drecs) if isinstance(x, int)]
            v = vals[0] if vals else None
        if v != ceiling:
            ctx.violation("R4", key, "%s passes %r as limit instead of the documented ceiling %r" % (unb, v, ceiling), fn.where(cs[0][0]))
        else:
            ctx.ok("R4", key, "limit = MAX_DECOMPRESSED_SIZE (%d)" % ceiling, fn.where(cs[0][0]))
    # R5 flate ceilings
    rl = ctx.fn(F + "read_to_end_limited", "R5")
    n = 0
    for fid, fn in facts.fns.items():
        for b, c, a, d, t, u in fn.calls():
            p = c.get("p") or ""
            if p in ("std::io::Read::read_to_end", "std::io::Read::read_to_string", "std::io::copy") and "flate2" in ((c.get("self") or "") + (c.get("a") or "")):
                n += 1
                owner = fn.parent or fn.id
                ctx.violation("R5", "unbounded-inflate:%s" % owner, "%s reads a flate2 decoder to the end without a size limit "
                              "(decompression bomb)" % L.short(owner), fn.where(b))
    ctx.ok("R5", "no-unbounded-inflate", "no read_to_end/io::copy on flate2 decoders in the crate (%d found)" % n)
    for fid in (F + "read_to_end_limited", F + "try_partial_flate_decode"):
        fn = ctx.fn(fid, "R5")
        gg = CF.cfg(fn, thread=True)
        grows = [b for b, c, a, d in L.calls_to(fn, GROW)]
        cm = []
        fl = FL.flow(fn)
        for b, blk in enumerate(fn.blocks):
            for st in blk[0]:
                rv = st[2]
                if rv[0] == "bin" and rv[1] in ("Gt", "Ge", "Lt", "Le"):
                    calls = L.slice_calls(fn, FL.op_locals(rv[2]) + FL.op_locals(rv[3]))
                    if any(L.is_call_to(c, ["len"]) for _, c in calls):
                        cm.append(b)
        key = "%s:growth-dominated-by-limit" % L.short(fid)
        bad = [b for b in grows if not any(gg.dominates(c, b) for c in cm)]
        if not grows or bad:
            ctx.violation("R5", key, "the inflate loop of %s extends its buffer without a dominating size comparison" % L.short(fid),
                          fn.where((bad or [0])[0]))
        else:
            ctx.ok("R5", key, "extend dominated by len()+n comparison", fn.where(grows[0]))
    users = 0
    for fid, fn in facts.fns.items():
        for b, c, a, d in L.calls_to(fn, [F + "read_to_end_limited"]):
            users += 1
            la = a[-1]
            v = FL.op_const(la)
            key = "%s:limit-argument" % L.short(fn.parent or fn.id)
            if isinstance(v, int):
                if v != ceiling:
                    ctx.violation("R5", key, "inflate ceiling %d differs from the documented MAX_DECOMPRESSED_SIZE %s" % (v, ceiling), fn.where(b))
                else:
                    ctx.ok("R5", key, "MAX_DECOMPRESSED_SIZE", fn.where(b))
            else:
                ctx.ok("R5", key, "caller-supplied limit", fn.where(b))
    ctx.floor("R5", "callers of read_to_end_limited", users, 5)
