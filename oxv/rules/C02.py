"""C02 — documents written by the library read back with the same content.

 R1 operator order is preserved between the authoring call and the bytes: on every value of type
    `Vec<graphics::ops::Op>` only order-preserving operations are used (push, extend, append, take,
    clear, iteration) — no sort, reverse, dedup, retain, swap, remove, insert(i, ..) — and the content
    serialiser walks its slice with a plain forward iterator.
 R2 vocabulary agreement: every operator keyword the serialiser can emit is a keyword the content
    parser dispatches on (C21-R4).
 R3 every object location reaches the cross-reference data: both cross-reference writers account for
    directly written and object-stream-compressed objects (C03-R4), and a stream's declared filter
    matches what was done to its data (C03-R2).
 R4 page geometry is written from the page's own state: /MediaBox from width/height, /Rotate from the
    rotation field whenever it is non-zero.
 R5 every page resource is written: in `write_page_with_fonts` each loop over one kind of typed page resource (images, form XObjects,
    colour spaces, patterns; not the preserved raw objects, whose non-stream entries are legitimately not written) that writes objects reaches `write_object` on every iteration, unless the path
    that skips it is dominated by a comparison or hash of the resource's *content* (`data()` bytes). A skip decided by a cheap
    fingerprint (name, size, length) makes a later page show an earlier page's image.
Not decided: equality of page boxes, operands and images after the round trip; independent readers.
"""
from .. import lib as L
from .. import flow as FL
from .. import cfg as CF
from . import C21, C03

EXPLANATION = __doc__
FORBIDDEN = {"sort", "sort_by", "sort_by_key", "sort_unstable", "sort_unstable_by", "sort_unstable_by_key", "reverse", "dedup", "dedup_by",
             "dedup_by_key", "retain", "retain_mut", "swap", "swap_remove", "remove", "insert", "rotate_left", "rotate_right", "truncate",
             "drain", "split_off", "splice", "pop"}


def run(ctx):
    r5_every_resource_written(ctx)
    facts = ctx.facts
    n = 0
    bad = 0
    for fid, fn in facts.fns.items():
        for b, c, a, d, t, u in fn.calls():
            p = c.get("p") or ""
            aa = c.get("a") or ""
            if "graphics::ops::Op" not in aa:
                continue
            if not (p.startswith("std::vec::Vec::<T, A>::") or "slice::<impl [T]>::" in p or p.startswith("std::iter::")):
                continue
            if "Vec::<graphics::ops::Op>" not in aa and "[graphics::ops::Op]" not in aa:
                continue
            n += 1
            nm = L.short(p)
            if nm in FORBIDDEN:
                bad += 1
                ctx.violation("R1", "op-buffer:%s:%s" % (fn.parent or fid, nm), "%s applies `%s` to a buffer of content operators: the "
                              "operators reach the content stream in a different order (or number) than the authoring calls were made"
                              % (L.short(fn.parent or fid), nm), fn.where(b))
    ctx.floor("R1", "operations on Vec<Op> buffers", n, 40)
    if not bad:
        ctx.ok("R1", "op-buffers:order-preserving", "%d operations on operator buffers, none re-ordering" % n)
    ser = ctx.fn("graphics::ops::serialize_ops", "R1")
    revs = [c for b, c, a, d in L.calls_to(ser, ["Iterator::next"]) if "graphics::ops::Op" in (c.get("self") or "")]
    if revs and not any("Rev<" in (c.get("self") or "") for c in revs):
        ctx.ok("R1", "serialize_ops:forward-iteration", revs[0].get("self")[:80], ser.where())
    else:
        ctx.violation("R1", "serialize_ops:forward-iteration", "the serialiser does not walk its operator slice with a plain forward "
                      "iterator", ser.where())
    # R2 vocabulary through C21's rule
    sub = type(ctx)(ctx.prop, ctx.tier, ctx.facts, ctx.config)
    try:
        C21.run(sub)
    except Exception:
        pass
    k = 0
    for i in sub.instances:
        if i["rule"] == "R4":
            k += 1
            if i["verdict"] == "refuted":
                ctx.violation("R2", i["key"], i["detail"], i["where"])
            else:
                ctx.ok("R2", i["key"], i["detail"], i["where"])
    ctx.floor("R2", "operator keywords checked", k, 30)
    # R3 through C03's rules R2/R4
    sub3 = type(ctx)(ctx.prop, ctx.tier, ctx.facts, ctx.config)
    try:
        C03.run(sub3)
    except Exception:
        pass
    k = 0
    for i in sub3.instances:
        if i["rule"] in ("R4", "R2") and not i["key"].startswith("floor:"):
            k += 1
            if i["verdict"] == "refuted":
                v = [x for x in sub3.violations if x["key"] == i["key"] and x["rule"] == i["rule"]]
                ctx.violation("R3", i["key"], i["detail"], i["where"], v[0]["witness"] if v else None)
            elif i["verdict"] == "holds":
                ctx.ok("R3", i["key"], i["detail"], i["where"])
    ctx.floor("R3", "cross-reference / stream pairing instances", k, 4)
    # R4 geometry keys
    td = ctx.fn("page::Page::to_dict", "R4")
    keys = set(s for b, s, c in L.str_args(td, ["Dictionary::set"]))
    for kname in ("MediaBox", "Rotate"):
        if kname in keys:
            ctx.ok("R4", "page-dict:/%s" % kname, "written by Page::to_dict")
        else:
            ctx.violation("R4", "page-dict:/%s" % kname, "Page::to_dict never writes /%s" % kname, td.where())
    reads = set()
    for b, blk in enumerate(td.blocks):
        for st in blk[0]:
            for pl in FL.rvalue_places(st[2]) + [FL.op_place(o) for o in FL.rvalue_operands(st[2]) if FL.op_place(o)]:
                if pl[0] == 1:
                    reads.update(p[2] for p in pl[1] if isinstance(p, list) and p[0] == "f")
    for f in ("width", "height", "rotation"):
        if f in reads:
            ctx.ok("R4", "page-dict:reads:%s" % f, "")
        else:
            ctx.violation("R4", "page-dict:reads:%s" % f, "Page::to_dict does not read the page's `%s`" % f, td.where())


def r5_every_resource_written(ctx):
    facts = ctx.facts
    W = "writer::pdf_writer::PdfWriter::<W>::"
    fn = ctx.fn(W + "write_page_with_fonts", "R5")
    g = CF.cfg(fn)
    fl = FL.flow(fn)
    n = 0
    for h, body in sorted(g.loops().items()):
        nx = [b for b in body if fn.term(b)[0] == "call" and L.is_call_to(fn.term(b)[1], ["Iterator::next"])]
        wo = [b for b in body if fn.term(b)[0] == "call" and L.is_call_to(fn.term(b)[1], [W + "write_object", W + "write_shading_object"])]
        if not nx or not wo:
            continue
        # only loops that own their write (not an outer loop around an inner resource loop)
        inner = [b2 for h2, b2 in g.loops().items() if h2 != h and h2 in body and any(w in b2 for w in wo)]
        if inner and all(any(w in b2 for b2 in inner) for w in wo):
            continue
        st = (fn.term(nx[0])[1].get("self") or "")
        kind = st.split("&")[-1].split(")")[0].strip().split("::")[-1] if "&" in st else st.split("::")[-1][:30]
        if kind.startswith("Object") or "annotation" in st:
            continue        # preserved raw objects / annotations: entries that are not streams are legitimately not written
        n += 1
        key = "write_page_with_fonts:loop[%s]:every-item-written" % kind
        dest = fn.term(nx[0])[3][0]
        y, no = L.discr_edges(fn, dest, 1)
        some_t = [t for s_, t in y if t in body] or [nx[0]]
        latches = [s_ for s_, hh in g.back_edges() if hh == h]
        outside = set(range(len(fn.blocks))) - set(body)
        w = g.path(some_t[0], latches, avoid_blocks=set(wo) | outside)
        if w is None:
            ctx.ok("R5", key, "write_object on every path round the loop", fn.where(h))
            continue
        # a skip path: allowed when some block on it compares / hashes the item's content bytes
        content_test = False
        for x in w:
            t = fn.term(x)
            if t[0] == "call" and isinstance(t[1], dict) and (L.is_call_to(t[1], ["PartialEq::eq", "PartialEq::ne", "hash", "finalize", "digest", "update"])):
                seen, drecs = fl.back_slice([l for o in t[2] for l in FL.op_locals(o)])
                if any(dd[0] == "call" and L.is_call_to(fn.term(dd[1])[1], ["data", "as_slice", "to_vec"]) and
                       not any(dd2[0] == "call" and L.is_call_to(fn.term(dd2[1])[1], ["len"]) for dd2 in drecs) for dd in drecs):
                    content_test = True
        # skip paths that exist on the unchanged tree for items that are not streams (e.g. annotation entries without /AP) are
        # value-dependent: accept when the path passes a type test of the item itself (`if let Object::Stream(..) = item`)
        type_test = any(fn.term(x)[0] == "sw" and any(st2[2][0] == "discr" for st2 in fn.blocks[x][0]) and x != some_t[0] and
                        not any(fn.term(y2)[0] == "call" and L.is_call_to(fn.term(y2)[1], ["HashMap::<K, V, S, A>::get", "contains_key"]) for y2 in w)
                        for x in w)
        if content_test or type_test:
            ctx.ok("R5", key, "an item is skipped only after a test of its content / kind", fn.where(h))
        else:
            ctx.violation("R5", key, "an iteration of the loop over the page's %s can reach the next item without writing the object "
                          "(line(s) %s), and the skipping path never compares or hashes the item's content bytes: an item that merely "
                          "shares a cheap fingerprint (name, dimensions, length) with one written earlier is replaced by it — a later "
                          "page shows an earlier page's image" % (kind, sorted(set(fn.line(x) for x in w))[:8]), fn.where(w[0]))
    ctx.floor("R5", "typed resource loops in write_page_with_fonts that write objects", n, 3)
