"""C02 — documents written by the library read back with the same content.

 R1 operator order is preserved between the authoring call and the bytes: on every value of type
    `Vec<graphics::ops::Op>` only order-preserving operations are used (push, extend, append, take,
    clear, iteration) — no sort, reverse, dedup, retain, swap, remove, insert(i, ..) — and the content
    serialiser walks its slice with a plain forward iterator.
 R2 vocabulary agreement: every operator keyword the serialiser can emit is a keyword the content
    parser dispatches on (C21-R4).
 R3 every object location reaches the cross-reference data: both cross-reference writers account for
    directly written and object-stream-compressed objects (C03-R4), and a stream's declared filter
    matches what was done to its data (C03-R2).
 R4 page geometry is written from the page's own state: /MediaBox from width/height, /Rotate from the
    rotation field whenever it is non-zero.
Not decided: equality of page boxes, operands and images after the round trip; independent readers.
"""
from .. import lib as L
from .. import flow as FL
from .. import cfg as CF
from . import C21, C03

EXPLANATION = __doc__
FORBIDDEN = {"sort", "sort_by", "sort_by_key", "sort_unstable", "sort_unstable_by", "sort_unstable_by_key", "reverse", "dedup", "dedup_by",
             "dedup_by_key", "retain", "retain_mut", "swap", "swap_remove", "remove", "insert", "rotate_left", "rotate_right", "truncate",
             "drain", "split_off", "splice", "pop"}


def run(ctx):
    facts = ctx.facts
    n = 0
    bad = 0
    for fid, fn in facts.fns.items():
        for b, c, a, d, t, u in fn.calls():
            p = c.get("p") or ""
            aa = c.get("a") or ""
            if "graphics::ops::Op" not in aa:
                continue
            if not (p.startswith("std::vec::Vec::<T, A>::") or "slice::<impl [T]>::" in p or p.startswith("std::iter::")):
                continue
            if "Vec::<graphics::ops::Op>" not in aa and "[graphics::ops::Op]" not in aa:
                continue
            n += 1
            nm = L.short(p)
            if nm in FORBIDDEN:
                bad += 1
                ctx.violation("R1", "op-buffer:%s:%s" % (fn.parent or fid, nm), "%s applies `%s` to a buffer of content operators: the "
                              "operators reach the content stream in a different order (or number) than the authoring calls were made"
                              % (L.short(fn.parent or fid), nm), fn.where(b))
    ctx.floor("R1", "operations on Vec<Op> buffers", n, 40)
    if not bad:
        ctx.ok("R1", "op-buffers:order-preserving", "%d operations on operator buffers, none re-ordering" % n)
    ser = ctx.fn("graphics::ops::serialize_ops", "R1")
    revs = [c for b, c, a, d in L.calls_to(ser, ["Iterator::next"]) if "graphics::ops::Op" in (c.get("self") or "")]
    if revs and not any("Rev<" in (c.get("self") or "") for c in revs):
        ctx.ok("R1", "serialize_ops:forward-iteration", revs[0].get("self")[:80], ser.where())
    else:
        ctx.violation("R1", "serialize_ops:forward-iteration", "the serialiser does not walk its operator slice with a plain forward "
                      "iterator", ser.where())
    # R2 vocabulary through C21's rule
    sub = type(ctx)(ctx.prop, ctx.tier, ctx.facts, ctx.config)
    try:
        C21.run(sub)
    except Exception:
        pass
    k = 0
    for i in sub.instances:
        if i["rule"] == "R4":
            k += 1
            if i["verdict"] == "refuted":
                ctx.violation("R2", i["key"], i["detail"], i["where"])
            else:
                ctx.ok("R2", i["key"], i["detail"], i["where"])
    ctx.floor("R2", "operator keywords checked", k, 30)
    # R3 through C03's rules R2/R4
    sub3 = type(ctx)(ctx.prop, ctx.tier, ctx.facts, ctx.config)
    try:
        C03.run(sub3)
    except Exception:
        pass
    k = 0
    for i in sub3.instances:
        if i["rule"] in ("R4", "R2") and not i["key"].startswith("floor:"):
            k += 1
            if i["verdict"] == "refuted":
                v = [x for x in sub3.violations if x["key"] == i["key"] and x["rule"] == i["rule"]]
                ctx.violation("R3", i["key"], i["detail"], i["where"], v[0]["witness"] if v else None)
            elif i["verdict"] == "holds":
                ctx.ok("R3", i["key"], i["detail"], i["where"])
    ctx.floor("R3", "cross-reference / stream pairing instances", k, 4)
    # R4 geometry keys
    td = ctx.fn("page::Page::to_dict", "R4")
    keys = set(s for b, s, c in L.str_args(td, ["Dictionary::set"]))
    for kname in ("MediaBox", "Rotate"):
        if kname in keys:
            ctx.ok("R4", "page-dict:/%s" % kname, "written by Page::to_dict")
        else:
            ctx.violation("R4", "page-dict:/%s" % kname, "Page::to_dict never writes /%s" % kname, td.where())
    reads = set()
    for b, blk in enumerate(td.blocks):
        for st in blk[0]:
            for pl in FL.rvalue_places(st[2]) + [FL.op_place(o) for o in FL.rvalue_operands(st[2]) if FL.op_place(o)]:
                if pl[0] == 1:
                    reads.update(p[2] for p in pl[1] if isinstance(p, list) and p[0] == "f")
    for f in ("width", "height", "rotation"):
        if f in reads:
            ctx.ok("R4", "page-dict:reads:%s" % f, "")
        else:
            ctx.violation("R4", "page-dict:reads:%s" % f, "Page::to_dict does not read the page's `%s`" % f, td.where())
