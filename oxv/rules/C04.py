"""C04 — the newest revision of an object always wins.

The reader walks the cross-reference chain newest-first (startxref, then /Prev) and merges every
revision into one table that the object loader consults. Decided:
 R1 chain shape: the walk starts at the offset found by the startxref search, continues with the
    /Prev of the section just parsed, and has a visited-offset guard whose hit leaves the loop.
 R2 first-writer-wins: every write into a merged map inside the chain loop is an
    `entry().or_insert*`/vacant insert or is dominated by a `!contains_key` test — with
    newest-first order this is "newest wins".
    The same holds for the scalar fields of the merged table (trailer, xref_offset): assigned only on
    the vacancy edge of an `is_none()` test on the merged table.
 R3 one key space: the loader consults the compressed-object map before the plain map, so the two
    maps are one key space; an older revision may therefore only contribute a compressed entry for
    an object number that no newer revision has defined in *either* map. Every write into the merged
    compressed map must be guarded by a branch that depends on a lookup in the merged plain map.
 R4 loader: the free-entry branch yields null without seeking; the compressed dispatch is taken
    from the extended entry only.
 R5 recovery scan: headers are sorted by offset before every successful return; the
    latest-wins helper inserts unconditionally while iterating forwards and never overrides an
    occupied slot.
 R6 the object cache is filled only for the object that was asked for: every insertion into the reader's object cache uses as key
    the (number, generation) parameters of the function doing the load — whose caller went through the merged cross-reference
    table — or happens in one of the enumerated recovery routines that synthesise objects. Publishing other objects as a side
    effect (e.g. all members of an object stream) bypasses the newest-revision decision: a member that a later revision
    redefined or freed is then served from the cache.
Not decided: the resolved *values* for a given file; agreement with qpdf.
"""
from .. import lib as L
from .. import flow as FL
from .. import cfg as CF

EXPLANATION = __doc__
X = "parser::xref::XRefTable::"
HM = "std::collections::HashMap::<K, V, S, A>::"
HS = "std::collections::HashSet::<T, S, A>::"


def merge_rules(ctx, fn, body, header, merged):
    """R2 (first writer wins in the merged maps), R2b (scalar fields) and R3 (one key space) on the code that runs once per
    revision of the newest-first chain: `body` of `fn`, entered at `header`, `merged` = locals holding the merged table"""
    facts = ctx.facts
    fl = FL.flow(fn)
    g = CF.cfg(fn)
    def on_merged(args, field=None):
        r = L.recv_of(fn, args)
        if r is None or r[0] not in merged:
            return False
        return field is None or (r[1] and r[1][0] == field)
    # R2
    writes = []
    for b, c, a, d in L.calls_to(fn, [HM + "insert", HM + "entry", HM + "extend", HM + "remove", HM + "retain", HM + "clear"]):
        if b in body and on_merged(a):
            writes.append((b, c, a, d))
    ctx.floor("R2", "writes to merged maps inside the chain loop", len(writes), 2)
    for b, c, a, d in writes:
        r = L.recv_of(fn, a)
        field = r[1][0] if r[1] else "?"
        name = L.short(c["p"])
        key = "merge:%s.%s" % (field, name)
        if name == "entry":
            # consumption of the Entry: or_insert*, or a match on Vacant
            used = fl.fwd_slice([d[0]])
            cons = [cc for bb, cc, aa, dd in L.calls_matching(fn, lambda x: "hash_map::Entry" in (x.get("p") or "") or "VacantEntry" in (x.get("p") or "") or "OccupiedEntry" in (x.get("p") or ""))
                    if any(l in used for op in aa for l in FL.op_locals(op))]
            bad = [L.short(cc["p"]) for cc in cons if L.short(cc["p"]) in ("insert", "insert_entry", "and_modify") and "Occupied" in cc["p"]]
            good = [L.short(cc["p"]) for cc in cons if L.short(cc["p"]).startswith("or_") or "VacantEntry" in cc["p"]]
            if bad or not good:
                ctx.violation("R2", key, "merged.%s is written through entry() with %s: an older revision overwrites the newer "
                              "definition" % (field, bad or "no first-writer-wins consumer"), fn.where(b))
            else:
                ctx.ok("R2", key, "entry().%s" % ",".join(good), fn.where(b))
        elif name == "insert":
            guards = []
            for bb, cc, aa, dd in L.calls_to(fn, [HM + "contains_key"]):
                if on_merged(aa, field):
                    te, fe = L.bool_edges(fn, dd[0])
                    guards += fe
            # the Vacant arm of `merged.<map>.entry(same key)`: for the compressed map a vacancy of the *plain* map counts too,
            # because (R3) the plain map decides per object number and this is the only place either map is filled
            kroots = FL.flow(fn).back_slice([l for op in a[1:2] for l in FL.op_locals(op)])[0]
            for bb, cc, aa, dd in L.calls_to(fn, [HM + "entry"]):
                if bb in body and (on_merged(aa, field) or on_merged(aa, "entries")) and dd:
                    k2 = FL.flow(fn).back_slice([l for op in aa[1:2] for l in FL.op_locals(op)])[0]
                    if (kroots & k2) - merged:
                        y, n = L.discr_edges(fn, dd[0], 1)
                        guards += y
            w = CF.must_pass(fn, [b], [], guard_edges=guards, start=header) if guards else [header, b]
            if w is not None:
                ctx.violation("R2", key, "merged.%s.insert() inside the newest-first chain loop is not guarded by a vacancy test: the "
                              "oldest revision's entry wins" % field, fn.where(b))
            else:
                ctx.ok("R2", key, "insert dominated by a vacancy test (!contains_key / Entry::Vacant) for the same key", fn.where(b))
        else:
            ctx.undecided_site("R2", key, "mutation %s of a merged map" % name, fn.where(b))
    # R2b scalar fields of the merged table (trailer, xref_offset, ...): inside the newest-first loop a plain assignment to a
    # field of the merged table must be a first-writer-wins write too, i.e. reached only through the vacancy edge of an
    # `is_none()` test on a field of the merged table (the first = newest revision sets it, older ones must not overwrite it)
    vac_edges = []
    for bb, cc, aa, dd in L.calls_to(fn, ["Option::<T>::is_none", "Option::<T>::is_some"]):
        r = L.recv_of(fn, aa)
        if bb in body and r and r[0] in merged and dd:
            te, fe = L.bool_edges(fn, dd[0])
            vac_edges += te if L.short(cc["p"]) == "is_none" else fe
    nfield = 0
    seenf = set()
    for b in sorted(body):
        for st in fn.blocks[b][0]:
            pl = st[1]
            if pl[0] in merged and pl[1]:
                fs = [p[2] for p in pl[1] if isinstance(p, list) and p[0] == "f" and p[2]]
                if not fs or fs[0] in ("entries", "extended_entries") or fs[0] in seenf:
                    continue
                seenf.add(fs[0])
                nfield += 1
                key = "merge:field:%s:first-writer-wins" % fs[0]
                w = CF.must_pass(fn, [b], [], guard_edges=vac_edges, start=header) if vac_edges else [header, b]
                if w is None:
                    ctx.ok("R2", key, "assigned only on the vacancy edge of an is_none() test on the merged table", fn.where(b))
                else:
                    ctx.violation("R2", key, "merged.%s is assigned on every iteration of the newest-first chain loop: the value of the "
                                  "*oldest* revision wins (for xref_offset: incremental writers then chain their /Prev to the original "
                                  "section and every revision in between is orphaned)" % fs[0], fn.where(b),
                                  {"path_lines": [fn.line(x) for x in w][:10]})
    ctx.floor("R2", "scalar fields of the merged table assigned in the chain loop", nfield, 2)
    # R3 one key space
    ext_writes = [(b, c, a, d) for b, c, a, d in writes if (L.recv_of(fn, a)[1] or ["?"])[0] == "extended_entries"
                  and L.short(c["p"]) in ("insert", "entry", "extend")]
    ctx.floor("R3", "writes to the merged compressed-object map", len(ext_writes), 1)
    # switches depending on the value of a lookup in merged.entries
    plain_guards = []
    for sb in body:
        t = fn.term(sb)
        if t[0] != "sw":
            continue
        calls = L.value_slice_calls(fn, FL.op_locals(t[1]))
        for cb, cc, aa in calls:
            if L.is_call_to(cc, [HM + "contains_key", HM + "get", HM + "entry", HM + "keys", HS + "contains", HM + "get_mut"]):
                r = L.recv_of(fn, aa)
                if r and r[0] in merged and r[1] and r[1][0] == "entries":
                    plain_guards.append(sb)
                elif L.is_call_to(cc, [HS + "contains"]):
                    # a key set: accepted when the set was filled from merged.entries keys
                    rr = L.recv_of(fn, aa)
                    if rr:
                        for kb, kc in L.slice_calls(fn, [rr[0]]):
                            if L.is_call_to(kc, [HM + "keys", HM + "iter"]):
                                r2 = L.recv_of(fn, fn.blocks[kb][1][2])
                                if r2 and r2[0] in merged and r2[1] and r2[1][0] == "entries":
                                    plain_guards.append(sb)
    for b, c, a, d in ext_writes:
        key = "merge:extended_entries-guarded-by-entries"
        w = CF.must_pass(fn, [b], plain_guards, start=header)
        if w is not None:
            ctx.violation("R3", key, "an older revision's compressed-object entry is merged without consulting the merged plain map: "
                          "when a newer revision redefined (or freed) that object number as a plain entry, the stale compressed entry "
                          "survives in merged.extended_entries, and the object loader consults that map first — the reference "
                          "resolves to the old definition inside the object stream", fn.where(b),
                          {"loader": "PdfReader::load_object_from_disk checks get_extended_entry before get_entry",
                           "path_lines": [fn.line(x) for x in w][:12]})
        else:
            ctx.ok("R3", key, "guarded by a lookup in merged.entries", fn.where(b))


def run(ctx):
    r6_cache_fill(ctx)
    facts = ctx.facts
    fid = X + "parse_with_incremental_updates_options"
    fn = ctx.fn(fid, "anchor")
    g = CF.cfg(fn)
    fl = FL.flow(fn)
    loops = g.loops()
    pp = L.calls_to(fn, [X + "parse_primary_with_options"])
    if not ctx.floor("R1", "section parse call in the chain walk", len(pp), 1):
        return
    pb = pp[0][0]
    inl = [(h, body) for h, body in loops.items() if pb in body]
    if not ctx.floor("R1", "chain loop around the section parse", len(inl), 1):
        return
    header, body = max(inl, key=lambda x: len(x[1]))
    # R1 start offset
    fx = L.calls_to(fn, [X + "find_xref_offset"])
    if fx:
        ctx.ok("R1", "chain:start=find_xref_offset", "", fn.where(fx[0][0]))
    else:
        ctx.violation("R1", "chain:start=find_xref_offset", "the chain walk does not start at the startxref offset", fn.where())
    # Prev key read (in a closure)
    prev = [s for f in L.group(facts, fid) for b, s, c in L.str_args(f, ["PdfDictionary::get"]) if s == "Prev"]
    if prev:
        ctx.ok("R1", "chain:next=/Prev", "")
    else:
        ctx.violation("R1", "chain:next=/Prev", "the /Prev key of the parsed section is never read: older revisions are not merged", fn.where())
    # the seek target inside the loop must not be a constant and must depend on the loop-carried offset
    seeks = [(b, c, a, d) for b, c, a, d in L.calls_to(fn, ["std::io::Seek::seek"]) if b in body]
    ctx.floor("R1", "seek inside the chain loop", len(seeks), 1)
    # visited guard
    vis = [(b, c, a, d) for b, c, a, d in L.calls_to(fn, [HS + "contains", HS + "insert"]) if b in body]
    guard_ok = False
    for b, c, a, d in vis:
        te, fe = L.bool_edges(fn, d[0])
        for (s, t) in te + fe:
            # one edge of the test leaves the loop
            if t not in body or (g.reachable_from(t, avoid_blocks=[header]) and pb not in g.reachable_from(t, avoid_blocks=[header])):
                guard_ok = True
    if guard_ok:
        ctx.ok("R1", "chain:visited-guard", "a visited-offset test controls an exit of the loop", fn.where(header))
    else:
        ctx.violation("R1", "chain:visited-guard", "no visited-offset test leaves the chain loop: a /Prev cycle never terminates",
                      fn.where(header))
    # merged local: the XRefTable local that is moved into the function's Ok(..) result
    merged = []
    for b, blk in enumerate(fn.blocks):
        for st in blk[0]:
            rv = st[2]
            if st[1] == [0, []] and rv[0] == "agg" and rv[1][0] == "adt" and rv[1][2] == "Ok":
                for o in rv[2]:
                    p = FL.op_place(o)
                    if p and not p[1] and fn.locals[p[0]] == "parser::xref::XRefTable":
                        merged.append(p[0])
    # follow plain moves backwards (`_225 = move _12`)
    changed = True
    while changed:
        changed = False
        for b, blk in enumerate(fn.blocks):
            for st in blk[0]:
                if st[1][0] in merged and not st[1][1] and st[2][0] == "use":
                    p = FL.op_place(st[2][1])
                    if p and not p[1] and p[0] not in merged and fn.locals[p[0]] == "parser::xref::XRefTable":
                        merged.append(p[0])
                        changed = True
    if not ctx.floor("R2", "merged table local", len(merged), 1):
        return
    merged = set(merged)

    # R2/R2b/R3 are decided where the merge is written: in the chain loop itself, or — when the loop body hands the merged table
    # to a crate-local helper (`merged.merge_older_revision(table)`) — in that helper, whose whole body then runs once per revision
    site = (fn, body, header, merged)
    direct = [1 for b, c, a, d in L.calls_to(fn, [HM + "insert", HM + "entry", HM + "extend"])
              if b in body and (L.recv_of(fn, a) or [None])[0] in merged]
    if not direct:
        for b, c, a, d, t, u in fn.calls():
            f2 = facts.fns.get(c.get("r")) if isinstance(c, dict) else None
            r = L.recv_of(fn, a) if a else None
            if b in body and f2 is not None and r and r[0] in merged and not r[1] and f2.params and "XRefTable" in f2.params[0] \
                    and L.calls_to(f2, [HM + "insert", HM + "entry", HM + "extend"]):
                site = (f2, set(range(len(f2.blocks))), 0, {1})
                ctx.note("the per-revision merge is delegated to %s: R2/R3 are decided on its body" % L.short(f2.id))
                break
    merge_rules(ctx, *site)
    # R4 loader
    lf = ctx.fn("parser::reader::PdfReader::<R>::load_object_from_disk", "R4")
    gl = CF.cfg(lf)
    inuse_sw = []
    for b, blk in enumerate(lf.blocks):
        for st in blk[0]:
            rv = st[2]
            ops = FL.rvalue_operands(rv)
            for o in ops:
                p = FL.op_place(o)
                if p and any(isinstance(x, list) and x[0] == "f" and x[2] == "in_use" for x in p[1]) and not st[1][1]:
                    te, fe = L.bool_edges(lf, st[1][0])
                    neg = rv[0] == "un" and rv[1] == "Not"
                    inuse_sw.append((b, fe if not neg else te))
    # switch directly on the field place
    for b, blk in enumerate(lf.blocks):
        t = blk[1]
        if t[0] == "sw":
            p = FL.op_place(t[1])
            if p and any(isinstance(x, list) and x[0] == "f" and x[2] == "in_use" for x in p[1]):
                fe = [(b, tg) for v, tg in t[2] if v == 0]
                inuse_sw.append((b, fe))
    seeks = [b for b, c, a, d in L.calls_to(lf, ["std::io::Seek::seek"])]
    if ctx.floor("R4", "in_use test in load_object_from_disk", len(inuse_sw), 1):
        for b, free_edges in inuse_sw:
            bad = False
            for (s, t) in free_edges:
                if set(seeks) & gl.reachable_from(t):
                    bad = True
            if not free_edges:
                ctx.undecided_site("R4", "loader:free-entry-null", "no free edge found", lf.where(b))
            elif bad:
                ctx.violation("R4", "loader:free-entry-null", "the free-entry edge can reach the seek/parse of the object: a freed object "
                              "does not read as null", lf.where(b))
            else:
                ctx.ok("R4", "loader:free-entry-null", "free entry returns without seeking", lf.where(b))
    ext = L.calls_to(lf, ["XRefTable::get_extended_entry"])
    plain = L.calls_to(lf, ["XRefTable::get_entry"])
    comp = L.calls_to(lf, ["get_compressed_object"])
    if ctx.floor("R4", "extended/plain lookups in loader", len(ext) + len(plain), 2) and comp:
        order = "extended-first" if gl.dominates(ext[0][0], plain[0][0]) else "plain-first"
        ctx.note("loader lookup order: %s" % order)
        ctx.counts["loader_order"] = order
        # the compressed dispatch must depend on the extended entry
        ok = all(L.slice_has_call(lf, [l for op in a for l in FL.op_locals(op)], ["XRefTable::get_extended_entry"]) is not None
                 for b, c, a, d in comp)
        if ok:
            ctx.ok("R4", "loader:compressed-from-extended", order, lf.where(comp[0][0]))
        else:
            ctx.violation("R4", "loader:compressed-from-extended", "the compressed dispatch does not take its stream/index from the "
                          "extended entry", lf.where(comp[0][0]))
    # R5 recovery
    sc = ctx.fn("parser::xref::scan_object_headers_chunked", "R5")
    sorts = [b for b, c, a, d in L.calls_matching(sc, lambda c: any(k in (c.get("p") or "") for k in ("::sort", "sort_by", "sort_unstable")))]
    gs = CF.cfg(sc)
    ok_returns = []
    for b, blk in enumerate(sc.blocks):
        for st in blk[0]:
            rv = st[2]
            if st[1] == [0, []] and rv[0] == "agg" and rv[1][0] == "adt" and rv[1][2] == "Ok":
                ok_returns.append(b)
    if ctx.floor("R5", "Ok returns of scan_object_headers_chunked", len(ok_returns), 1):
        w = CF.must_pass(sc, ok_returns, sorts)
        if w is not None:
            ctx.violation("R5", "scan:sorted-before-ok", "a successful return of the header scan is not preceded by a sort by offset: "
                          "latest-wins over the header list is then order-dependent", sc.where(w[-1]))
        else:
            ctx.ok("R5", "scan:sorted-before-ok", "%d Ok return(s) all after sort" % len(ok_returns), sc.where(ok_returns[0]))
    lw = ctx.fn(X + "add_headers_latest_wins", "R5")
    revs = [c for b, c, a, d in L.calls_matching(lw, lambda c: "Rev<" in (c.get("self") or "") or (c.get("p") or "").endswith("Iterator::rev"))]
    if revs:
        ctx.violation("R5", "latest-wins:forward", "add_headers_latest_wins iterates the offset-sorted headers in reverse: the earliest "
                      "definition wins", lw.where())
    else:
        ctx.ok("R5", "latest-wins:forward", "forward iteration", lw.where())
    ins = [(b, c, a, d) for b, c, a, d in L.calls_to(lw, [HM + "insert", HM + "entry"])]
    if ctx.floor("R5", "latest-map insert", len(ins), 1):
        for b, c, a, d in ins:
            if L.short(c["p"]) == "entry":
                ctx.violation("R5", "latest-wins:unconditional-insert", "the per-number map is filled through entry(): with ascending "
                              "offsets first-writer-wins keeps the OLDEST definition", lw.where(b))
            else:
                ctx.ok("R5", "latest-wins:unconditional-insert", "insert overwrites (ascending => last wins)", lw.where(b))
    adds = L.calls_to(lw, [X + "add_entry", HM + "insert"])
    adds = [(b, c, a, d) for b, c, a, d in adds if L.short(c["p"]) == "add_entry" or (L.recv_of(lw, a) and L.recv_of(lw, a)[1][:1] == ["entries"])]
    occ = []
    partial = []
    for b, c, a, d in L.calls_to(lw, [HM + "contains_key"]):
        r = L.recv_of(lw, a)
        if r and r[1][:1] == ["entries"]:
            te, fe = L.bool_edges(lw, d[0])
            occ += fe
    # get(..).is_some() / is_none() are full occupancy tests; is_some_and / map_or / filter look at the
    # entry's content and therefore treat some present entries (e.g. free ones) as vacant
    flw = FL.flow(lw)
    for b, c, a, d in L.calls_to(lw, [HM + "get", HM + "get_mut"]):
        r = L.recv_of(lw, a)
        if not (r and r[1][:1] == ["entries"]):
            continue
        fw = flw.fwd_slice([d[0]])
        for bb, cc, aa, dd in L.calls_matching(lw, lambda x: (x.get("p") or "").startswith("std::option::Option::<T>::")):
            if not any(l in fw for l in FL.op_locals(aa[0])):
                continue
            nm = L.short(cc["p"])
            if nm == "is_some":
                te, fe = L.bool_edges(lw, dd[0])
                occ += fe
            elif nm == "is_none":
                te, fe = L.bool_edges(lw, dd[0])
                occ += te
            elif nm in ("is_some_and", "map_or", "filter", "is_none_or", "and_then", "map"):
                partial.append((bb, nm))
    for bb, nm in partial:
        ctx.violation("R5", "latest-wins:occupancy-test-looks-at-content", "the occupancy test of the header scan goes through `%s`: a slot "
                      "whose cross-reference entry exists but does not satisfy the predicate (e.g. a free entry written by a later "
                      "update) counts as vacant, so the scan re-fills it with the stale object body still present in the file" % nm,
                      lw.where(bb))
    if ctx.floor("R5", "add_entry in latest-wins helper", len(adds), 1):
        for b, c, a, d in adds:
            w = CF.must_pass(lw, [b], [], guard_edges=occ) if occ else [0]
            if w is not None:
                ctx.violation("R5", "latest-wins:never-overrides", "a scanned header can override a slot already resolved from a valid "
                              "cross-reference section", lw.where(b))
            else:
                ctx.ok("R5", "latest-wins:never-overrides", "add dominated by !entries.contains_key", lw.where(b))


CACHE_SYNTH_ALLOW = {
    "catalog": "recovery: caches the catalog found by scanning when /Root cannot be resolved",
    "create_hierarchical_pages_tree": "recovery: synthetic /Pages nodes under reserved object numbers",
    "create_synthetic_pages_dict": "recovery: synthetic /Pages dictionary under a reserved object number",
}


def r6_cache_fill(ctx):
    from .. import flow as FL
    facts = ctx.facts
    n = 0

    def value_roots(fn, fl, op, depth=8):
        """locals an operand's *value* comes from, following copies, tuple construction and derefs of plain refs only"""
        out, work, seen = set(), [l for l in FL.op_locals(op)], set()
        while work and depth > 0:
            depth -= 1
            nxt = []
            for l in work:
                if l in seen:
                    continue
                seen.add(l)
                ds = [d for d in fl.defs.get(l, ()) if d[0] == "stmt"]
                if not ds or any(d[0] in ("call", "arg") for d in fl.defs.get(l, ())):
                    out.add(l)
                    continue
                for d in ds:
                    rv = fn.blocks[d[1]][0][d[2]][2]
                    if rv[0] in ("use", "cast", "agg", "ref"):
                        ls = FL.rvalue_locals(rv)
                        if ls:
                            nxt += ls
                        else:
                            out.add(l)
                    else:
                        out.add(l)
            work = nxt
        return out | set(work)
    ords = {}
    for k, fn in sorted(facts.fns.items()):
        if not k.startswith("parser::reader::"):
            continue
        fl = None
        for b, c, a, d, t, u in fn.calls():
            if not (isinstance(c, dict) and L.is_call_to(c, ["insert", "entry"]) and "HashMap" in (c.get("p") or "")):
                continue
            r = L.recv_of(fn, a)
            if not r or r[1][-1:] != ["object_cache"]:
                continue
            fl = fl or FL.flow(fn)
            n += 1
            owner = L.short(fn.parent or fn.id)
            ords[owner] = ords.get(owner, 0) + 1
            key = "object_cache-write:%s#%d" % (owner, ords[owner])
            roots = value_roots(fn, fl, a[1])
            params = [x for x in roots if 2 <= x <= fn.nargs and fn.locals[x] in ("u32", "u16")]
            foreign = [x for x in roots if not (1 <= x <= fn.nargs) and fn.locals[x] not in ("u32", "u16", "(u32, u16)")]
            if params and not foreign:
                ctx.ok("R6", key, "key = the (number, generation) this function was asked to load", fn.where(b))
            elif owner in CACHE_SYNTH_ALLOW:
                ctx.ok("R6", key, "reviewed: " + CACHE_SYNTH_ALLOW[owner], fn.where(b))
            else:
                ctx.violation("R6", key, "%s inserts into the object cache under a key that is not the (number, generation) it was asked "
                              "to load (the key comes from %s): objects are published without going through the merged cross-reference "
                              "table, so an object-stream member that a newer revision redefined or freed is served from the cache as "
                              "if it were current" % (owner, sorted(set(fn.locals[x][:40] for x in foreign)) or "elsewhere"), fn.where(b))
    ctx.floor("R6", "writes to the reader's object cache", n, 10)
