"""C05 — encryption round-trips for every strength, configuration and password.

 R1 trailer agreement: the two trailer emitters (classic trailer; cross-reference-stream
    dictionary) write the same key set on {Size, Root, Info} and both carry /Encrypt and /ID.
 R2 every object body passes the encryptor: in `write_object` every path from entry to either sink
    (buffering for an object stream, direct emission) passes `encrypt_object` on the
    encryption-active edge.
 R3 layering (ISO 32000-1 §7.5.7, §7.6.1): (a) an object destined for an object stream is not
    encrypted individually; (b) the object-stream payload is encrypted as a stream before it is
    written; (c) the /Encrypt dictionary can never enter the object-stream buffer.
 R4 reader: `get_object` is dominated by the unlocked test; on the regular load path the cached
    object comes out of `decrypt_object_if_needed`.
 R5 strength table: the `match` on the encryption strength yields the four distinct
    (method, key length) pairs V2/5, V2/16, AESV2/16, AESV3/32.
 R6 unlock: the user check, then the owner check; success iff one of them succeeded.
 R7 sibling agreement of the password padding (Algorithm 2 step a): every function that pads a
    password to 32 bytes — the writer/user-side helper and the inline copy on the reader's owner
    path — applies the same truncation discipline (same set of string operations); a difference
    means a password that one side accepts is refused by the other.
 R8 the decryption walker reaches every string: the recursive `decrypt_object_if_needed` handles String, Stream, Dictionary and
    Array itself, and any variant filter it applies to the elements of a container (a `matches!`/`match` predicate that decides
    whether a container needs walking) names all four of those variants if it names any — a filter that forgets Array leaves
    the strings of nested arrays (`/Opt [[(CA)(California)] ..]`) as ciphertext.
Not decided: equality of decrypted content with the plaintext; permission bit values.
"""
from .. import lib as L
from .. import flow as FL
from .. import cfg as CF
from .. import tables as T

EXPLANATION = __doc__
W = "writer::pdf_writer::PdfWriter::<W>::"
R = "parser::reader::PdfReader::<R>::"


def keys_set_in(facts, fid, depth=1):
    out = {}
    fns = [fid]
    if depth:
        for c in facts.callees.get(fid, ()):
            f2 = facts.fns.get(c)
            if f2 is None or not c.startswith("writer::"):
                continue
            # callees that build the dictionary (return it) or fill one they are handed (`&mut Dictionary` parameter)
            if (f2.ret and "Dictionary" in f2.ret) or any("&mut" in p_ and "Dictionary" in p_ for p_ in (f2.params or [])):
                fns.append(c)
    for f in fns:
        for fn in L.group(facts, f):
            for b, s, c in L.str_args(fn, ["Dictionary::set"]):
                out.setdefault(s, fn.where(b))
    return out


def run(ctx):
    r8_walker_variants(ctx)
    facts = ctx.facts
    wt = ctx.fn(W + "write_trailer", "anchor")
    wxs = ctx.fn(W + "write_xref_stream", "anchor")
    wo = ctx.fn(W + "write_object", "anchor")
    # R1
    kt = keys_set_in(facts, wt.id)
    kx = keys_set_in(facts, wxs.id)
    ctx.floor("R1", "keys set by the classic trailer", len(kt), 4)
    ctx.floor("R1", "keys set by the cross-reference stream dictionary", len(kx), 4)
    for k in ("Size", "Root", "Info", "Encrypt", "ID"):
        key = "trailer-key:%s" % k
        a, b = k in kt, k in kx
        if a and b:
            ctx.ok("R1", key, "both emitters", kt[k])
        elif a and not b:
            ctx.violation("R1", key, "the classic trailer writes /%s but the cross-reference-stream dictionary (write_xref_stream + "
                          "create_dictionary) never does: with `use_xref_streams` an encrypted document has no /%s in its trailer "
                          "dictionary%s" % (k, k, ", so no reader — this library included — knows it is encrypted and every string "
                                                   "and stream is returned as ciphertext" if k == "Encrypt" else ""), wxs.where())
        elif b and not a:
            ctx.violation("R1", key, "only the cross-reference-stream dictionary writes /%s" % k, wt.where())
        else:
            ctx.violation("R1", key, "neither trailer emitter writes /%s" % k, wt.where())
    # R2 / R3a
    g = CF.cfg(wo)
    enc = [b for b, c, a, d in L.calls_to(wo, ["ObjectEncryptor::encrypt_object"])]
    buf = [b for b, c, a, d in L.calls_to(wo, ["std::collections::HashMap::<K, V, S, A>::insert"])
           if (L.recv_of(wo, a) or (None, []))[1][:1] == ["buffered_objects"]]
    direct = [b for b, c, a, d in L.calls_to(wo, [W + "write_object_value"])]
    ctx.floor("R2", "encrypt_object call in write_object", len(enc), 1)
    ctx.floor("R2", "emission sinks in write_object", len(buf) + len(direct), 2)
    # the None edge of the encryption_state test
    none_edges = []
    for b, blk in enumerate(wo.blocks):
        for st in blk[0]:
            rv = st[2]
            if rv[0] == "discr" and any(isinstance(p, list) and p[0] == "f" and p[2] == "encryption_state" for p in rv[1][1]):
                y, n = L.discr_edges(wo, rv[1][0], 0)
                # discr_edges keys on the local; recompute directly
    for b, blk in enumerate(wo.blocks):
        t = blk[1]
        if t[0] == "sw":
            for st in blk[0]:
                rv = st[2]
                if rv[0] == "discr" and any(isinstance(p, list) and p[0] == "f" and p[2] == "encryption_state" for p in rv[1][1]) \
                        and FL.op_place(t[1]) and FL.op_place(t[1])[0] == st[1][0]:
                    for v, tgt in t[2]:
                        if v == 0:
                            none_edges.append((b, tgt))
                    if 0 not in [v for v, _ in t[2]]:
                        none_edges.append((b, t[3]))
    # R3 alternative: nothing can be buffered for an object stream while the document is encrypted.
    # The buffering branch must be infeasible under `encrypt_obj_id is Some` (path-sensitive, P9b), and
    # `encrypt_obj_id` must be Some whenever `encryption_state` is (both set together, never reset).
    no_buffer_when_encrypted = None
    if buf:
        def assume(b, t, _wo=wo):
            c = t[1]
            if not isinstance(c, dict) or not L.is_call_to(c, ["is_none", "is_some"]):
                return None
            r = L.recv_of(_wo, t[2])
            if not r or r[1][-1:] != ["encrypt_obj_id"]:
                return None
            return (c.get("p") or "").endswith("is_some")
        excluded = not (set(buf) & CF.reachable_assuming(wo, assume))
        if excluded:
            from .C03 import field_writes
            st_w = field_writes(facts, "writer::pdf_writer::PdfWriter<", "encryption_state")
            id_w = field_writes(facts, "writer::pdf_writer::PdfWriter<", "encrypt_obj_id")
            id_owners = set(L.short(f.parent or f.id) for f, b, ln in id_w)
            bad = []
            for f, b, ln in st_w:
                o = L.short(f.parent or f.id)
                if o == "write_encryption_dict":
                    continue        # take()/restore of the same value around the /Encrypt dictionary
                if o not in id_owners:
                    bad.append(o)
            # encrypt_obj_id is only ever assigned Some(..) outside constructors
            for f, b, ln in id_w:
                st = [x for x in f.blocks[b][0] if x[0] == ln]
                if not any(x[2][0] == "agg" and "Some" in str(x[2][1]) for x in st):
                    bad.append(L.short(f.parent or f.id) + ":encrypt_obj_id-reset")
            if st_w and id_w and not bad:
                no_buffer_when_encrypted = "the buffering branch of write_object is infeasible once encrypt_obj_id is set, and " \
                    "encrypt_obj_id is set wherever encryption_state is (%s)" % ", ".join(sorted(id_owners))
    if no_buffer_when_encrypted:
        for k in ("write_object:object-stream-members-not-individually-encrypted", "flush_object_streams:payload-encrypted",
                  "write_encryption_dict:never-buffered"):
            ctx.ok("R3", k, no_buffer_when_encrypted, wo.where(buf[0]))
    for sink_name, sinks in (("direct-emission", direct), ("object-stream-buffer", buf)):
        if not sinks:
            continue
        w = CF.must_pass(wo, sinks, enc, guard_edges=none_edges)
        key = "write_object:%s:passes-encryptor" % sink_name
        if sink_name == "direct-emission":
            if w is not None:
                ctx.violation("R2", key, "a path reaches the direct emission of an object body without `encrypt_object` although "
                              "encryption is active: that object is written as plaintext", wo.where(sinks[0]),
                              {"path_lines": [wo.line(x) for x in w][:10]})
            else:
                ctx.ok("R2", key, "encrypt_object on every encryption-active path", wo.where(sinks[0]))
        elif no_buffer_when_encrypted:
            pass
        else:
            # R3a: objects that go into an object stream must NOT be individually encrypted
            reach_from_enc = set()
            for e in enc:
                reach_from_enc |= g.reachable_from(e)
            if any(s in reach_from_enc for s in sinks):
                ctx.violation("R3", "write_object:object-stream-members-not-individually-encrypted", "an object is passed through "
                              "`encrypt_object` and then buffered for an object stream: ISO 32000-1 §7.6.1 encrypts the object "
                              "stream as a whole and forbids encrypting the strings inside it separately — an independent reader "
                              "that decrypts the container sees doubly/wrongly encrypted strings", wo.where(sinks[0]))
            else:
                ctx.ok("R3", "write_object:object-stream-members-not-individually-encrypted", "buffering path avoids encrypt_object",
                       wo.where(sinks[0]))
    # R3b payload of object streams encrypted as a stream
    fo = ctx.fn(W + "flush_object_streams", "R3")
    enc_calls = L.calls_matching(fo, lambda c: "encrypt" in (c.get("p") or "").lower())
    via_write_object = L.calls_to(fo, [W + "write_object"])
    if no_buffer_when_encrypted:
        pass
    elif enc_calls or via_write_object:
        ctx.ok("R3", "flush_object_streams:payload-encrypted", "payload passes %s" %
               (L.short((enc_calls or via_write_object)[0][1]["p"])), fo.where())
    else:
        ctx.violation("R3", "flush_object_streams:payload-encrypted", "the object-stream payload is written with write_bytes and never "
                      "passes the encryptor (nor `write_object`): with encryption and object streams enabled the container is "
                      "plaintext, while every reader — this library's `get_object` included — decrypts a stream it loads from an "
                      "encrypted file, turning the container into garbage", fo.where())
    # R3c /Encrypt dict never buffered
    we = ctx.fn(W + "write_encryption_dict", "R3")
    calls_wo = L.calls_to(we, [W + "write_object"])
    if no_buffer_when_encrypted:
        pass
    elif calls_wo and buf:
        # is the buffering branch of write_object conditioned on anything that excludes the /Encrypt dict?
        conds = set()
        for sb in g.dominators(buf[0]):
            t = wo.term(sb)
            if t[0] == "sw":
                conds |= L.cond_atoms(wo, t[1])
        excl = [c for c in conds if any(k in c for k in ("encrypt_obj_id", "pending_encrypt", "param:id", "is_encrypt"))]
        if excl:
            ctx.ok("R3", "write_encryption_dict:never-buffered", "buffering is conditioned on %s" % excl, we.where())
        else:
            ctx.violation("R3", "write_encryption_dict:never-buffered", "the /Encrypt dictionary is written through `write_object`, "
                          "whose object-stream branch depends only on %s: with object streams enabled the /Encrypt dictionary is "
                          "compressed into an object stream, which ISO 32000-1 §7.5.7 forbids and which no reader can resolve "
                          "before decryption" % sorted(c for c in conds if not c.startswith("call:Try"))[:4], we.where(calls_wo[0][0]))
    elif calls_wo:
        ctx.ok("R3", "write_encryption_dict:never-buffered", "write_object has no buffering branch", we.where())
    else:
        ctx.ok("R3", "write_encryption_dict:never-buffered", "written without write_object", we.where())
    # R4 reader
    go = ctx.fn(R + "get_object", "R4")
    gg = CF.cfg(go)
    eu = L.calls_to(go, [R + "ensure_unlocked"])
    ld = L.calls_to(go, [R + "load_object_from_disk"])
    if eu and ld and all(gg.dominates(eu[0][0], b) for b, c, a, d in ld):
        ctx.ok("R4", "get_object:unlocked-first", "ensure_unlocked dominates the load", go.where(eu[0][0]))
    else:
        ctx.violation("R4", "get_object:unlocked-first", "objects can be loaded from a locked (encrypted, not yet unlocked) document: "
                      "ciphertext is handed out as content", go.where())
    lo = ctx.fn(R + "load_object_from_disk", "R4")
    fl = FL.flow(lo)
    dec = L.calls_to(lo, [R + "decrypt_object_if_needed"])
    ins = [(b, c, a, d) for b, c, a, d in L.calls_to(lo, ["std::collections::HashMap::<K, V, S, A>::insert"])
           if (L.recv_of(lo, a) or (None, []))[1][:1] == ["object_cache"]]
    parsed = L.calls_to(lo, ["PdfObject::parse_with_options", "PdfObject::parse"])
    n = 0
    for b, c, a, d in ins:
        seen, drecs = fl.back_slice(FL.op_locals(a[2]))
        from_parse = any(dd[0] == "call" and dd[1] in [x[0] for x in parsed] for dd in drecs)
        if not from_parse:
            continue
        n += 1
        from_dec = any(dd[0] == "call" and dd[1] in [x[0] for x in dec] for dd in drecs)
        key = "load_object_from_disk:cache-insert-decrypted#%d" % n
        if from_dec:
            ctx.ok("R4", key, "cached value <- decrypt_object_if_needed", lo.where(b))
        else:
            ctx.violation("R4", key, "a parsed object is cached without passing decrypt_object_if_needed: ciphertext is silently "
                          "returned as content", lo.where(b))
    ctx.floor("R4", "cache insertions of parsed objects on the regular load path", n, 1)
    # R5 strength table
    ie = ctx.fn(W + "init_encryption", "R5")
    ms = [m for m in facts.matches.get(ie.id, []) if "EncryptionStrength" in m["sty"]]
    if ctx.floor("R5", "strength match in init_encryption", len(ms), 1):
        m = ms[0]
        byv = T.arms_by_variant(m)
        want = {"Rc4_40bit": ("V2", 5), "Rc4_128bit": ("V2", 16), "Aes128": ("AESV2", 16), "Aes256": ("AESV3", 32)}
        for v, (meth, klen) in want.items():
            arms = [i for k, idx in byv.items() if k.endswith("::" + v) for i in idx]
            key = "strength:%s" % v
            if not arms:
                ctx.violation("R5", key, "strength %s has no arm" % v, "%s:%d" % (m["file"], m["line"]))
                continue
            body = m["arms"][arms[0]]["body"]
            paths, lits = [], []
            T.walk_expr(body, lambda e: paths.append(e[1].get("def", "")) if e[0] == "path" else (lits.append(e[1]) if e[0] == "lit" else None))
            gm = [p.split("::")[-1] for p in paths if "CryptFilterMethod::" in p]
            gl = [x for x in lits if isinstance(x, int)]
            if gm[:1] != [meth] or gl[:1] != [klen]:
                ctx.violation("R5", key, "strength %s selects (%s, %s), expected (%s, %d)" % (v, gm[:1], gl[:1], meth, klen),
                              "%s:%d" % (m["file"], m["arms"][arms[0]]["line"]))
            else:
                ctx.ok("R5", key, "(%s, %d)" % (meth, klen))
    # R6 unlock order
    ul = ctx.fn(R + "unlock_with_password", "R6")
    u = L.calls_to(ul, ["EncryptionHandler::unlock_with_user_password"])
    o = L.calls_to(ul, ["EncryptionHandler::unlock_with_owner_password"])
    if u and o:
        ctx.ok("R6", "unlock:user-and-owner", "both checks attempted", ul.where())
    else:
        ctx.violation("R6", "unlock:user-and-owner", "unlock_with_password does not try both the user and the owner password", ul.where())

    # R7 padding siblings
    padders = []
    for fid, fn in facts.fns.items():
        if fn.kind == "Closure" or not (fid.startswith("encryption::") or fid.startswith("parser::encryption_handler")):
            continue
        mins = [1 for b, c, a, d in L.calls_to(fn, ["Ord::min", "std::cmp::min"]) if any(FL.op_const(x) == 32 for x in a)]
        if mins and L.calls_to(fn, ["copy_from_slice"]) and L.calls_to(fn, ["as_bytes"]):
            padders.append(fn)
    if ctx.floor("R7", "password padding implementations", len(padders), 1):
        VOC = ("is_char_boundary", "floor_char_boundary", "ceil_char_boundary", "chars", "char_indices", "to_lowercase", "to_uppercase",
               "trim", "trim_end", "trim_start", "nfkc", "nfc", "encode_utf16", "truncate", "take", "take_while", "is_ascii", "from_utf8_lossy",
               "to_ascii_lowercase", "replace", "filter")
        prof = {}
        for fn in padders:
            names = set()
            for f in L.group(facts, fn.id):
                for b, c, a, d, t, u in f.calls():
                    nm = L.short(c.get("p") or "")
                    if nm in VOC:
                        names.add(nm)
            prof[fn.id] = names
        ref = None
        for fid_, names in sorted(prof.items()):
            if ref is None:
                ref = (fid_, names)
                continue
            key = "padding-siblings:%s~%s" % (L.short(ref[0]), L.short(fid_))
            if names != ref[1]:
                ctx.violation("R7", key, "the two implementations of the 32-byte password padding disagree: %s uses %s, %s uses %s — a "
                              "password longer than 32 bytes (or non-ASCII) is padded differently by the writer/user path and by the "
                              "reader's owner path, so the correct owner password is refused" %
                              (L.short(ref[0]), sorted(ref[1]) or "plain byte truncation", L.short(fid_), sorted(names) or "plain byte truncation"),
                              facts.fns[fid_].where())
            else:
                ctx.ok("R7", key, "same truncation discipline (%s)" % (sorted(names) or "plain byte truncation"))
        if len(prof) == 1:
            ctx.ok("R7", "padding-siblings:single-implementation", sorted(prof)[0])


def r8_walker_variants(ctx):
    from .. import tables as T
    facts = ctx.facts
    fid = R + "decrypt_object_if_needed"
    fn = ctx.fn(fid, "R8")
    NEED = {"String", "Stream", "Dictionary", "Array"}

    def variants(p):
        out = set()
        if p[0] == "ts" and isinstance(p[1], dict):
            out.add(p[1].get("def", "").split("::")[-1])
        elif p[0] == "or":
            for q in p[1]:
                out |= variants(q)
        elif p[0] in ("ref",):
            for q in p[1]:
                out |= variants(q)
        return out
    n = 0
    # the walker = decrypt_object_if_needed, its closures, and the crate-local helpers of the same impl it delegates to
    # (a refactoring may move the per-variant dispatch into a helper such as `decrypt_object_with`)
    walker = list(L.group(facts, fid))
    for c in sorted(facts.callees.get(fid, ())):
        f2 = facts.fns.get(c)
        if f2 is not None and c.startswith(fid.rsplit("::", 1)[0] + "::") and c != fid and "PdfObject" in " ".join(f2.params or []) + (f2.ret or ""):
            walker += list(L.group(facts, c))
    for f in walker:
        for i, m in enumerate(facts.matches.get(f.id, [])):
            if "PdfObject" not in m["sty"]:
                continue
            for a in m["arms"]:
                vs = variants(a["pat"]) & NEED
                if not vs:
                    continue
                n += 1
                is_main = len(m["arms"]) >= 4 and not f.id.endswith("}")
                if is_main:
                    continue
                key = "%s:element-filter:%s" % (L.short(f.parent or f.id), "+".join(sorted(vs)))
                if vs == NEED:
                    ctx.ok("R8", key, "the filter names all four string-bearing variants", "%s:%d" % (m["file"], a["line"]))
                else:
                    ctx.violation("R8", key, "a predicate over container elements in the decryption walker matches %s but not %s: a "
                                  "container whose direct elements are only of the missing kind is returned without being walked, so "
                                  "the strings inside it stay encrypted (e.g. an array of arrays of strings such as a choice field's "
                                  "/Opt with export values)" % (sorted(vs), sorted(NEED - vs)), "%s:%d" % (m["file"], a["line"]))
    # the dispatch itself has an arm for each of the four
    mains = [m for f in walker for m in facts.matches.get(f.id, []) if "PdfObject" in m["sty"] and len(m["arms"]) >= 4]
    got = set()
    for m in mains:
        for a in m["arms"]:
            got |= variants(a["pat"])
    if NEED <= got:
        ctx.ok("R8", "decrypt_object_if_needed:dispatch-arms", "String, Stream, Dictionary and Array each have an arm", fn.where())
    else:
        ctx.violation("R8", "decrypt_object_if_needed:dispatch-arms", "the decryption dispatch has no arm for %s" % sorted(NEED - got), fn.where())
    ctx.floor("R8", "variant patterns in the decryption walker", n, 4)
