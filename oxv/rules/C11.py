"""C11 — text extraction conserves every drawn character.

 R1 operator exhaustiveness: the extractor's dispatch over content operations has an explicit,
    non-empty arm (not the wildcard) for every text-showing, text-positioning, text-state,
    graphics-state-stack, form-XObject and marked-content operator (ISO 32000-1 §9.3-9.4, §14.6).
 R2 sibling agreement of the four show-text arms (Tj, TJ, ', "): each reaches the single glyph
    emission routine, the decoder and the pen advance; ' and " additionally perform the next-line
    move before showing.
 R3 state-stack pairing: `q` pushes and `Q` pops a snapshot; every field of the snapshot struct is
    captured from the text-state field of the same name and restored into that same field; the
    implicit save around `Do` uses the same capture/restore pair.
 R4 parser side: the content parser's keyword dispatch has an arm for each of the text operators.
 R5 the form-XObject recursion carries a depth counter compared against a constant.
 R6 determinism: no unordered (hash) iteration and no clock/RNG in the extractor's emission path.
 R7 resource scoping: the routine that installs a font under its resource name (called for the page's fonts and again for
    the /Resources of every Form XObject entered) overwrites: every path through it reaches the insert into the name-keyed
    font cache, and no presence test on that cache (`contains_key`, `get`, `entry`) can skip it — a "skip if already cached"
    guard makes a form's /F1 decode with the page's /F1.
Not decided: character counts, reading-order heuristics, ToUnicode arithmetic.
"""
from .. import lib as L
from .. import tables as T
from .. import flow as FL
from .. import cfg as CF

EXPLANATION = __doc__
PO = "text::extraction::TextExtractor::process_operations"
CO = "parser::content::ContentOperation::"
REQUIRED = ["ShowText", "ShowTextArray", "NextLineShowText", "SetSpacingNextLineShowText", "MoveText",
            "MoveTextSetLeading", "SetTextMatrix", "NextLine", "SetCharSpacing", "SetWordSpacing",
            "SetHorizontalScaling", "SetLeading", "SetFont", "SetTextRise", "SetTextRenderMode",
            "SetTransformMatrix", "SaveGraphicsState", "RestoreGraphicsState", "PaintXObject", "BeginText", "EndText",
            "BeginMarkedContent", "BeginMarkedContentWithProps", "EndMarkedContent"]
SHOW = ["ShowText", "ShowTextArray", "NextLineShowText", "SetSpacingNextLineShowText"]
TEXT_KEYWORDS = ["BT", "ET", "Tc", "Tw", "Tz", "TL", "Tf", "Tr", "Ts", "Td", "TD", "Tm", "T*", "Tj", "TJ", "'", "\"",
                 "q", "Q", "cm", "Do", "BMC", "BDC", "EMC"]


def run(ctx):
    r7_font_scoping(ctx)
    facts = ctx.facts
    fn = ctx.fn(PO, "anchor")
    ms = [m for m in facts.matches.get(PO, []) if m["sty"].endswith("parser::content::ContentOperation")]
    if not ctx.floor("R1", "operator dispatch match in the extractor", len(ms), 1):
        return
    m = max(ms, key=lambda x: len(x["arms"]))
    arms = m["arms"]
    wild = T.wildcard_arm(m)
    byv = T.arms_by_variant(m)
    where = "%s:%d" % (m["file"], m["line"])
    arm_range = {}
    for i, a in enumerate(arms):
        lo = a["line"]
        hi = arms[i + 1]["line"] if i + 1 < len(arms) else fn.hi + 1
        arm_range[i] = (lo, hi)

    def arm_calls(i):
        lo, hi = arm_range[i]
        out = set()
        for f in L.group(facts, PO):
            for b, c, args, d, t, u in f.calls():
                if lo <= f.line(b) < hi:
                    out.add(c.get("r") or c.get("p") or "?")
        return out

    def arm_field_writes(i):
        lo, hi = arm_range[i]
        out = set()
        for f in L.group(facts, PO):
            for b, blk in enumerate(f.blocks):
                for st in blk[0]:
                    if lo <= st[0] < hi and st[1][1]:
                        for p in st[1][1]:
                            if isinstance(p, list) and p[0] == "f" and p[2]:
                                out.add(p[2])
        return out

    for v in REQUIRED:
        key = "extract-arm:" + v
        idx = byv.get(CO + v, [])
        if not idx or idx[0] == wild:
            ctx.violation("R1", key, "content operator %s has no arm of its own in the extractor's dispatch (it falls into `_ => {}`): "
                          "text shown or state changed by it is ignored" % v, where)
            continue
        a = arms[idx[0]]
        if T.expr_is_trivial_unit(a["body"]):
            ctx.violation("R1", key, "the arm for %s is empty" % v, "%s:%d" % (m["file"], a["line"]))
            continue
        calls = arm_calls(idx[0])
        writes = arm_field_writes(idx[0])
        lo_, hi_ = arm_range[idx[0]]
        nstm = sum(1 for f in L.group(facts, PO) for blk in f.blocks for st in blk[0] if lo_ <= st[0] < hi_ and len(st) < 4)
        if not calls and not writes and nstm == 0:
            ctx.violation("R1", key, "the arm for %s neither calls anything nor writes any state" % v, "%s:%d" % (m["file"], a["line"]))
        else:
            ctx.ok("R1", key, "%d call(s), writes %s" % (len(calls), sorted(writes)[:4]), "%s:%d" % (m["file"], a["line"]))
    # R2 show-text siblings
    need = ["text::extraction::emit_text_fragment", "text::extraction::advance_pen"]
    for v in SHOW:
        idx = byv.get(CO + v, [])
        if not idx:
            continue
        calls = arm_calls(idx[0])
        for n in need:
            key = "show-arm:%s:%s" % (v, L.short(n))
            if n not in calls:
                ctx.violation("R2", key, "the %s arm does not reach %s while its sibling show-text arms do: characters shown by this "
                              "operator are %s" % (v, L.short(n), "not emitted" if "emit" in n else "placed without advancing the pen"),
                              "%s:%d" % (m["file"], arms[idx[0]]["line"]))
            else:
                ctx.ok("R2", key, "reaches " + L.short(n), "%s:%d" % (m["file"], arms[idx[0]]["line"]))
        key = "show-arm:%s:decode" % v
        if not any(L.short(c) == "decode_text" for c in calls):
            ctx.violation("R2", key, "the %s arm does not decode its string operand" % v, "%s:%d" % (m["file"], arms[idx[0]]["line"]))
        else:
            ctx.ok("R2", key, "decodes operand")
        if v in ("NextLineShowText", "SetSpacingNextLineShowText"):
            key = "show-arm:%s:next-line" % v
            if "text::extraction::multiply_matrix" not in calls and "text_line_matrix" not in arm_field_writes(idx[0]):
                ctx.violation("R2", key, "the %s arm does not move to the next line before showing" % v,
                              "%s:%d" % (m["file"], arms[idx[0]]["line"]))
            else:
                ctx.ok("R2", key, "moves to next line")
        if v == "SetSpacingNextLineShowText":
            w = arm_field_writes(idx[0])
            key = "show-arm:%s:sets-spacing" % v
            if not {"word_space", "char_space"} <= w:
                ctx.violation("R2", key, "the \" operator arm does not set both word and character spacing (writes %s)" % sorted(w),
                              "%s:%d" % (m["file"], arms[idx[0]]["line"]))
            else:
                ctx.ok("R2", key, "sets word_space and char_space")
    # R2b sibling cross-check of the emission guards: a condition atom (option flag / state field)
    # that guards the glyph emission in at least three of the four show-text arms must guard it in
    # the fourth as well (deviant-sibling rule)
    g = CF.cfg(fn)
    fl = FL.flow(fn)
    sig = {}
    for v in SHOW:
        idx = byv.get(CO + v, [])
        if not idx:
            continue
        lo, hi = arm_range[idx[0]]
        atoms = set()
        outside = [b for b in range(len(fn.blocks)) if not (lo <= fn.line(b) < hi) and b in g.live()]
        for b, c, args, d in L.calls_to(fn, ["text::extraction::emit_text_fragment"]):
            if not (lo <= fn.line(b) < hi):
                continue
            # immediate guards: walk predecessors of the call through straight-line blocks until switches
            seenb = set()
            work = [b]
            while work:
                x = work.pop()
                for pb in g.pred[x]:
                    if pb in seenb or not (lo <= fn.line(pb) < hi):
                        continue
                    seenb.add(pb)
                    t = fn.term(pb)
                    if t[0] == "sw":
                        atoms |= set(a for a in L.cond_atoms(fn, t[1]) if not a.startswith("param:"))
                    else:
                        work.append(pb)
        sig[v] = atoms
    if ctx.floor("R2", "show-text arms with an emission guard signature", len([v for v in sig if sig[v]]), 4):
        allatoms = set().union(*sig.values())
        for atom in sorted(allatoms):
            have = [v for v in sig if atom in sig[v]]
            miss = [v for v in sig if atom not in sig[v]]
            if len(have) >= 3 and len(miss) == 1:
                v = miss[0]
                ctx.violation("R2", "show-arm:%s:guard-atom:%s" % (v, atom), "the glyph emission in the %s arm is not conditioned on `%s` "
                              "while its three sibling show-text arms are: text shown with this operator is handled differently "
                              "(dropped or duplicated) in the situations that flag distinguishes" % (v, atom),
                              "%s:%d" % (m["file"], arms[byv[CO + v][0]]["line"]), {"siblings_with_atom": have})
            elif len(have) == 4:
                ctx.ok("R2", "show-arms:guard-atom:%s" % atom, "all four arms agree")
    # R3 snapshot pairing
    adt = facts.adts.get("text::extraction::SavedGraphicsState")
    cap = ctx.fn("text::extraction::SavedGraphicsState::capture", "R3")
    res = ctx.fn("text::extraction::SavedGraphicsState::restore_into", "R3")
    if adt is None:
        ctx.violation("R3", "anchor-missing:SavedGraphicsState", "snapshot struct not found", "text::extraction")
    else:
        fields = [f[0] for f in adt["variants"][0]["fields"]]
        ctx.floor("R3", "fields of the graphics-state snapshot", len(fields), 10)
        # capture: aggregate operands
        cap_src = {}
        fl = FL.flow(cap)
        for b, blk in enumerate(cap.blocks):
            for st in blk[0]:
                rv = st[2]
                if rv[0] == "agg" and rv[1][0] == "adt" and rv[1][1].endswith("SavedGraphicsState"):
                    for i, o in enumerate(rv[2]):
                        srcs = set()
                        pl = FL.op_place(o)
                        if pl is not None:
                            srcs.update(p[2] for p in pl[1] if isinstance(p, list) and p[0] == "f")
                            seen, drecs = fl.back_slice([pl[0]])
                            for d in drecs:
                                if d[0] == "stmt":
                                    s2 = cap.blocks[d[1]][0][d[2]]
                                    for pp in FL.rvalue_places(s2[2]) + [FL.op_place(x) for x in FL.rvalue_operands(s2[2]) if FL.op_place(x)]:
                                        srcs.update(p[2] for p in pp[1] if isinstance(p, list) and p[0] == "f")
                        if i < len(fields):
                            cap_src[fields[i]] = srcs
        for f in fields:
            key = "snapshot:capture:" + f
            if f not in cap_src:
                ctx.violation("R3", key, "snapshot field %s is not initialised in capture()" % f, cap.where())
            elif f not in cap_src[f]:
                ctx.violation("R3", key, "snapshot field %s is captured from %s instead of the text-state field of the same name"
                              % (f, sorted(cap_src[f]) or "a constant"), cap.where())
            else:
                ctx.ok("R3", key, "captured from state." + f, cap.where())
        # restore: (*state).X = move self.Y
        pairs = {}
        for b, blk in enumerate(res.blocks):
            for st in blk[0]:
                pl = st[1]
                if pl[0] == 2 and pl[1] and pl[1][0] == "*":
                    dst = [p[2] for p in pl[1] if isinstance(p, list) and p[0] == "f"]
                    src = []
                    for o in FL.rvalue_operands(st[2]):
                        p2 = FL.op_place(o)
                        if p2 and p2[0] == 1:
                            src += [p[2] for p in p2[1] if isinstance(p, list) and p[0] == "f"]
                        elif p2 and not p2[1]:
                            # through a temporary: _t = copy self.X ; (*state).Y = move _t
                            for dd in FL.flow(res).defs.get(p2[0], ()):
                                if dd[0] == "stmt":
                                    for o2 in FL.rvalue_operands(res.blocks[dd[1]][0][dd[2]][2]):
                                        p3 = FL.op_place(o2)
                                        if p3 and p3[0] == 1:
                                            src += [p[2] for p in p3[1] if isinstance(p, list) and p[0] == "f"]
                    if dst:
                        pairs.setdefault(dst[0], set()).update(src)
        for f in fields:
            key = "snapshot:restore:" + f
            if f not in pairs:
                ctx.violation("R3", key, "restore_into() does not put snapshot field %s back: a value of %s set between q and Q "
                              "(or inside a form XObject) leaks into the text that follows" % (f, f), res.where())
            elif f not in pairs[f]:
                ctx.violation("R3", key, "restore_into() stores %s into state.%s" % (sorted(pairs[f]), f), res.where())
            else:
                ctx.ok("R3", key, "state.%s <- snapshot.%s" % (f, f), res.where())
    # q / Q / Do use the pair
    for v, callee in (("SaveGraphicsState", ["save_graphics_state", "capture", "push_with"]),
                      ("RestoreGraphicsState", ["restore_into"]),
                      ("PaintXObject", ["capture", "restore_into"])):
        idx = byv.get(CO + v, [])
        if not idx:
            continue
        calls = set(L.short(c) for c in arm_calls(idx[0]))
        key = "stack:%s" % v
        missing = [c for c in callee if c not in calls] if v == "PaintXObject" else ([] if calls & set(callee) else callee)
        if missing:
            ctx.violation("R3", key, "the %s arm does not use the snapshot routine(s) %s" % (v, missing),
                          "%s:%d" % (m["file"], arms[idx[0]]["line"]))
        else:
            ctx.ok("R3", key, "uses %s" % sorted(calls & set(callee)))
    sgs = facts.fns.get("text::extraction::TextState::save_graphics_state")
    if sgs is not None:
        inner = set()
        for f in L.group(facts, sgs.id):
            inner |= set(L.short(c.get("r") or c.get("p") or "") for b, c, a, d, t, u in f.calls())
        if "capture" in inner:
            ctx.ok("R3", "stack:q-uses-capture", "save_graphics_state -> capture")
        else:
            ctx.violation("R3", "stack:q-uses-capture", "save_graphics_state does not snapshot through capture()", sgs.where())
    # R4 parser keyword table
    kw = set()
    for fid, mlist in facts.matches.items():
        if not fid.startswith("parser::content::"):
            continue
        for mm in mlist:
            if "str" not in mm["sty"]:
                continue
            for a in mm["arms"]:
                def walk(p):
                    if p[0] == "lit" and isinstance(p[1], dict) and "s" in p[1]:
                        kw.add(p[1]["s"])
                    elif p[0] == "or":
                        for s in p[1]:
                            walk(s)
                    elif p[0] in ("ref",):
                        walk(p[1])
                walk(a["pat"])
    ctx.floor("R4", "string keywords in the content parser's dispatch", len(kw), 40)
    for k in TEXT_KEYWORDS:
        key = "parser-keyword:" + k
        if k not in kw:
            ctx.violation("R4", key, "the content parser has no arm for operator `%s`: its operands never reach the extractor" % k,
                          "parser::content")
        else:
            ctx.ok("R4", key, "recognised", nontrivial=True)
    # R5 recursion depth guard
    rec = [(b, c, a, d) for b, c, a, d in L.calls_to(fn, [PO]) if (c.get("r") or c.get("p")) == PO]
    if ctx.floor("R5", "recursive process_operations call (form XObjects)", len(rec), 1):
        fl = FL.flow(fn)
        depth_args = [i for i in range(1, fn.nargs + 1) if fn.locals[i] in ("u8", "u16", "u32", "usize")]
        for b, c, a, d in rec:
            key = "xobject-recursion:depth-guard"
            ok = False
            for i, op in enumerate(a):
                pl = FL.op_place(op)
                if pl is None:
                    continue
                seen, drecs = fl.back_slice([pl[0]])
                adds = [dd for dd in drecs if dd[0] == "stmt" and fn.blocks[dd[1]][0][dd[2]][2][0] == "bin"
                        and fn.blocks[dd[1]][0][dd[2]][2][1].startswith("Add")]
                if adds and (i + 1) in depth_args and (i + 1) in seen:
                    # the parameter must be compared with a constant on a branch dominating the call
                    g = CF.cfg(fn)
                    for sb in g.dominators(b):
                        for st in fn.blocks[sb][0]:
                            rv = st[2]
                            if rv[0] == "bin" and rv[1] in ("Lt", "Le", "Gt", "Ge") and (rv[2][0] == "k" or rv[3][0] == "k"):
                                cs, _ = fl.back_slice(FL.op_locals(rv[2]) + FL.op_locals(rv[3]))
                                if (i + 1) in cs:
                                    ok = True
            if ok:
                ctx.ok("R5", key, "depth parameter +1 and compared with a constant before the call", fn.where(b))
            else:
                ctx.violation("R5", key, "the recursion into form XObjects is not bounded by a depth counter compared with a constant: a "
                              "form that paints itself overflows the stack", fn.where(b))
    # R6 determinism (shared engine)
    from .. import order as OR
    OR.check_scope(ctx, "R6", [PO, "text::extraction::TextExtractor::extract_from_page", "text::extraction::emit_text_fragment"],
                   scope_prefixes=["text::extraction", "text::flat_reading_order", "text::extraction_cmap", "text::graphics_state_stack"],
                   what="extracted text")


def r7_font_scoping(ctx):
    fn = ctx.fn("text::extraction::TextExtractor::cache_page_font", "R7")
    g = CF.cfg(fn)
    ins = [b for b, c, a, d in L.calls_to(fn, ["insert"]) if (L.recv_of(fn, a) or (None, []))[1][-1:] == ["font_cache"]]
    key = "cache_page_font:installs-unconditionally"
    if not ctx.floor("R7", "insert into the name-keyed font cache", len(ins), 1):
        return
    tests = [(b, c) for b, c, a, d in L.calls_to(fn, ["contains_key", "get", "entry", "get_mut"])
             if (L.recv_of(fn, a) or (None, []))[1][-1:] == ["font_cache"]]
    rets = g.return_blocks()
    w = g.path(0, rets, avoid_blocks=ins)
    if tests:
        ctx.violation("R7", key, "cache_page_font consults the name-keyed font cache (%s) before installing the font: a name that is "
                      "already present — the enclosing page's or form's font of the same resource name — is kept, so text drawn inside a "
                      "Form XObject with its own /Font /F1 is decoded with the outer /F1 and comes out as different characters"
                      % L.short(tests[0][1]["p"]), fn.where(tests[0][0]))
    elif w is not None:
        ctx.violation("R7", key, "a path through cache_page_font returns without installing the font under its resource name "
                      "(line(s) %s)" % sorted(set(fn.line(x) for x in w))[:8], fn.where(w[-1]))
    else:
        ctx.ok("R7", key, "every path installs (overwrites) the font under its resource name; no presence test on the cache", fn.where(ins[0]))
