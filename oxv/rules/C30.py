"""C30 — page resource names chosen by the user cannot break the page.

 R1 both ends of a user-chosen name pass a name escaper: (a) the key written into the page's
    /Resources sub-dictionary goes through the object serialisers' key emission (C09-N2) and (b) the
    operand written into the content stream goes through the content serialiser's `/{name}` sites
    (C03-R6); the same escaper must serve both so the two cannot disagree.
 R2 entry points: every public registration / drawing method that takes a resource name stores it
    into a name-bearing content operator or a resource map; unless the method validates the name
    (rejects non-regular characters) the name reaches both ends verbatim.
 R3 the user's font wins its name: the loop of `write_page_with_fonts` that adds the document's registered fonts to the page's /Font
    dictionary sets the entry on every iteration — no `contains_key` / `get` test on that dictionary can skip it. The dictionary is
    pre-filled with the built-in Type1 stubs under their PostScript names, so "existing key wins" makes a font registered as
    `Courier` or `Helvetica-Bold` resolve to the stub while the content shows the embedded font's glyph ids.
Not decided: that the re-parsed name equals the user's string for an independent reader.
"""
from .. import lib as L
from .. import flow as FL
from .. import tokens as TK
from . import C09, C03

EXPLANATION = __doc__
NAME_OPS = {"PaintXObject", "SetFillColorSpace", "SetStrokeColorSpace", "SetGraphicsState", "SetExtGState", "PaintShading", "SetFont",
            "SetRenderingIntent", "SetFillPattern", "SetStrokePattern", "BeginMarkedContent", "BeginMarkedContentProps"}
RES_FIELDS = {"images", "xobjects", "form_xobjects", "color_spaces", "patterns", "shadings", "ext_g_states", "extgstates", "fonts",
              "custom_fonts", "states", "profiles"}


def run(ctx):
    r3_registered_font_wins(ctx)
    facts = ctx.facts
    readers = C09.check_readers(ctx)
    summary = C09.check_serializers(ctx, readers, rules=("N1", "N2"))
    C03.check_format_sites(ctx, "R1", module_filter=lambda o: o.startswith(("graphics::", "page::", "structure::marked_content", "layout::", "operations::overlay", "forms::")), floor=20)
    escaped_emission = not any(v == "raw" for k, v in summary.items() if "pdf_writer" in k or "write_object_value" in k)
    n = 0
    for fid, fn in sorted(facts.fns.items()):
        if fn.kind == "Closure" or fn.vis != "pub" or not fn.params:
            continue
        st = (fn.self_ty or "").split("<")[0]
        if fid.startswith("<page::Page as page_forms") or "fill_field" in fid:
            continue   # form-field names are text strings (/T), covered by C10, not PDF names
        if st not in ("page::Page", "graphics::GraphicsContext", "graphics::patterns::PatternManager", "graphics::shadings::ShadingManager",
                      "graphics::state::ExtGStateManager", "graphics::color_profiles::IccProfileManager", "document::Document",
                      "graphics::patterns::PatternGraphicsContext"):
            continue
        names = fn.local_names()
        cands = [i for i in range(1, fn.nargs + 1) if names.get(i) in ("name", "pattern_name", "shading_name", "xobject_name", "image_name", "font_name", "tag")
                 and (fn.params[i - 1] in ("&str", "std::string::String") or "Into<std::string::String>" in fn.params[i - 1] or fn.params[i - 1] in ("impl Into<String>", "T", "S", "N"))]
        if not cands:
            continue
        fl = FL.flow(fn)
        fw = fl.fwd_slice(cands)
        into_op = None
        into_map = None
        for b, blk in enumerate(fn.blocks):
            for stt in blk[0]:
                rv = stt[2]
                if rv[0] == "agg" and rv[1][0] == "adt" and rv[1][1] == "graphics::ops::Op" and rv[1][2] in NAME_OPS:
                    if any(l in fw for o in rv[2] for l in FL.op_locals(o)):
                        into_op = (b, rv[1][2])
        for b, c, a, d, t, u in fn.calls():
            nm = L.short(c.get("p") or "")
            if nm in ("insert", "push", "set") and len(a) >= 2:
                r = L.recv_of(fn, a)
                if r and r[1] and r[1][0] in RES_FIELDS:
                    if any(l in fw for o in a[1:] for l in FL.op_locals(o)):
                        into_map = (b, r[1][0])
            # format sites inside the method with the parameter
        if not into_op and not into_map:
            # maybe it formats the name straight into operations
            sites = [s for s, i, ph in TK.name_format_sites(facts) if TK._owner_fn(facts, s) is fn]
            if not sites:
                continue
            into_op = (0, "raw operator text")
        n += 1
        validates = any(L.is_call_to(c, ["is_valid_name", "validate_name", "validate_resource_name", "is_regular_name", "escape_name", "sanitize_name"])
                        for f in L.group(facts, fid) for b, c, a, d, t, u in f.calls())
        key = "entry:%s" % fid
        where = fn.where()
        dest = []
        if into_op:
            dest.append("operator %s" % into_op[1])
        if into_map:
            dest.append("resource map `%s`" % into_map[1])
        if validates or escaped_emission:
            ctx.ok("R2", key, "name %s (%s)" % ("validated at the entry" if validates else "escaped at emission", ", ".join(dest)), where)
        else:
            ctx.violation("R2", key, "%s takes a resource name and stores it verbatim into %s; the entry does not validate it and neither "
                          "the dictionary-key emission nor the content operand emission escapes names, so a name such as `My Image` or "
                          "`a/b` produces a page whose /Resources key and `Do`/`gs`/`cs` operand are two different (or invalid) tokens"
                          % (L.short(fid), " and ".join(dest)), where)
    ctx.floor("R2", "public entry points taking a resource name", n, 5)


def r3_registered_font_wins(ctx):
    from .. import cfg as CF
    facts = ctx.facts
    fn = ctx.fn("writer::pdf_writer::PdfWriter::<W>::write_page_with_fonts", "R3")
    g = CF.cfg(fn)
    n = 0
    for h, body in sorted(g.loops().items()):
        nx = [b for b in body if fn.term(b)[0] == "call" and L.is_call_to(fn.term(b)[1], ["Iterator::next"])
              and "ObjectId" in (fn.term(b)[1].get("self") or "") and "String" in (fn.term(b)[1].get("self") or "")]
        sets = [b for b in body if fn.term(b)[0] == "call" and L.is_call_to(fn.term(b)[1], ["Dictionary::set"])]
        if not nx or not sets or len(body) > 25:
            continue
        n += 1
        key = "write_page_with_fonts:registered-fonts-loop:sets-unconditionally"
        dest = fn.term(nx[0])[3][0]
        y, no = L.discr_edges(fn, dest, 1)
        some_t = [t for s_, t in y if t in body] or [nx[0]]
        latches = [s_ for s_, hh in g.back_edges() if hh == h]
        outside = set(range(len(fn.blocks))) - set(body)
        w = g.path(some_t[0], latches, avoid_blocks=set(sets) | outside)
        if w is None:
            ctx.ok("R3", key, "every registered font is set into the page's /Font dictionary", fn.where(h))
        else:
            ctx.violation("R3", key, "a font registered by the user can be left out of the page's /Font dictionary when its name is already "
                          "present (line(s) %s): the dictionary was pre-filled with the built-in Type1 stubs, so a font registered as "
                          "`Courier` or `Helvetica-Bold` resolves to the non-embedded stub while the content stream selects that name and "
                          "shows the embedded font's glyph ids" % sorted(set(fn.line(x) for x in w))[:8], fn.where(w[0]))
    ctx.floor("R3", "registered-fonts loop in write_page_with_fonts", n, 1)
