"""C22 — batch processing reports every job exactly once under any schedule.

The schedule quantifier is not explored. Decided are the schedule-independent obligations of
each job wrapper built in `WorkerPool::process_jobs`, the worker loop and the collector — true
on every path, hence under every interleaving:
 R1 exactly one result per wrapper run: on every non-unwinding path through each wrapper closure
    exactly one `result_sender.send`, one `start_job`, and exactly one of complete_job/fail_job.
 R2 panics are contained: the user operation is called inside `catch_unwind`, or its unwind edge
    leads to a block that still sends a result. Otherwise a panicking job produces no result.
 R3 cancellation gate: in each wrapper the operation call is dominated by the "not cancelled"
    edge of a load of the cancellation flag.
 R4 stop-on-error: in each wrapper the failure path can reach a store to the cancellation flag.
 R5 summary completeness: the collector must not silently drop empty result slots (`flatten` /
    `filter_map` over the per-index Option slots).
 R6 lock discipline: the worker drops the receiver guard before running a job.
 R6 shared counters are updated atomically: the progress counters are read and written by every worker thread, so each update is one
    read-modify-write (`fetch_add`, `fetch_sub`, `fetch_update`, `compare_exchange`): no `store` of a value computed from a `load`
    of the same atomic (two workers finishing together would lose a decrement and the tracker would report jobs still running).
Not decided: interleaving-dependent ordering; progress totals under races.
"""
from .. import lib as L
from .. import flow as FL
from .. import cfg as CF

EXPLANATION = __doc__
PJ = "batch::worker::WorkerPool::process_jobs"
WN = "batch::worker::Worker::new"


def op_calls(fn):
    """calls of the user operation inside a wrapper: indirect FnOnce call on a boxed dyn, or
    execute_job"""
    out = []
    for b, c, args, dest, tgt, uw in fn.calls():
        p = c.get("p") or ""
        if p.endswith("execute_job"):
            out.append((b, c, "execute_job"))
        elif p.endswith("FnOnce::call_once") or p.endswith("FnMut::call_mut") or p.endswith("Fn::call"):
            st = c.get("self") or ""
            if "dyn" in st and "FnOnce" in st:
                out.append((b, c, "operation()"))
    return out


def run(ctx):
    r6_atomic_updates(ctx)
    facts = ctx.facts
    pj = ctx.fn(PJ, "anchor")
    closures = [facts.fns[c] for c in sorted(facts.closures_of.get(PJ, ()))]
    wrappers = [f for f in closures if L.calls_to(f, ["BatchProgress::start_job"])]
    if not ctx.floor("anchor", "job wrapper closures in process_jobs", len(wrappers), 2):
        return
    for n, w in enumerate(wrappers):
        ops = op_calls(w)
        # the operation may be called in a nested closure handed to catch_unwind: then the
        # catch_unwind call block stands for the operation call in this wrapper
        contained_blocks = set()
        fl = FL.flow(w)
        # containers: catch_unwind itself, or a crate function that hands its (closure) parameter to catch_unwind
        containers = ["std::panic::catch_unwind"]
        for b0, c0, a0, d0, t0, u0 in w.calls():
            f2 = facts.fns.get(c0.get("r")) if isinstance(c0, dict) else None
            if f2 is None or f2.kind == "Closure" or not f2.nargs:
                continue
            fl2 = FL.flow(f2)
            for cb2, cc2, ca2, cd2 in L.calls_to(f2, ["std::panic::catch_unwind"]):
                if set(range(1, f2.nargs + 1)) & fl2.back_slice(FL.op_locals(ca2[0]))[0]:
                    containers.append(f2.id)
        # the boxed user operation handed directly to a container
        for cb, cc, cargs, cdest in L.calls_to(w, containers):
            seen0, _ = fl.back_slice([l for o in cargs for l in FL.op_locals(o)])
            if any("dyn" in w.locals[l] and "FnOnce" in w.locals[l] for l in seen0) and not any(cb == o[0] for o in ops):
                ops.append((cb, cc, "operation()"))
                contained_blocks.add(cb)
        for nid in sorted(facts.closures_of.get(PJ, ())):
            nf = facts.fns[nid]
            if not nid.startswith(w.id + "::") or not op_calls(nf):
                continue
            kind_n = op_calls(nf)[0][2]
            for cb, cc, cargs, cdest in L.calls_to(w, containers):
                seen, drecs = fl.back_slice(FL.op_locals(cargs[0]))
                for d in drecs:
                    if d[0] == "stmt":
                        rv = w.blocks[d[1]][0][d[2]][2]
                        if rv[0] == "agg" and rv[1][0] == "clo" and rv[1][1] == nid:
                            ops.append((cb, cc, kind_n))
                            contained_blocks.add(cb)
            if not contained_blocks:
                # nested closure calling the operation but not under catch_unwind: judge its creator site
                for b2, blk in enumerate(w.blocks):
                    for st in blk[0]:
                        rv = st[2]
                        if rv[0] == "agg" and rv[1][0] == "clo" and rv[1][1] == nid:
                            ops.append((b2, {"p": nid}, kind_n))
        kind = ops[0][2] if ops else "?"
        wname = "wrapper[%s]" % kind
        g = CF.cfg(w)
        send_b = set(b for b, c, a, d in L.calls_to(w, ["Sender::<T>::send", "mpsc::Sender::<T>::send", "SyncSender::<T>::send"]))
        start_b = set(b for b, c, a, d in L.calls_to(w, ["BatchProgress::start_job"]))
        end_b = set(b for b, c, a, d in L.calls_to(w, ["BatchProgress::complete_job", "BatchProgress::fail_job"]))
        fail_b = set(b for b, c, a, d in L.calls_to(w, ["BatchProgress::fail_job"]))
        # every path sends exactly one result; start_job and complete_job|fail_job are balanced on every path (a job
        # cancelled before it starts takes neither), at most one each, and the operation runs only after start_job
        op_blocks = set(o[0] for o in ops)
        for what, blocks in (("send", send_b), ("start_job", start_b), ("complete_job|fail_job", end_b)):
            rng = L.path_count_range(w, lambda b, bl=blocks: b in bl)
            key = "%s:%s-per-path" % (wname, what)
            if g.loops():
                ctx.undecided_site("R1", key, "wrapper contains a loop", w.where())
                continue
            if what == "send":
                good = rng == (1, 1)
                want = "every path must make exactly one (a path with none loses the job's result, a path with two reports it twice)"
            else:
                bal = L.path_count_range(w, lambda b: (1 if b in start_b else 0) - (1 if b in end_b else 0))
                after_start = all(any(g.dominates(sb, ob) for sb in start_b) for ob in op_blocks) if what == "start_job" else \
                    all(CF.must_pass(w, [rb for rb in g.return_blocks()], list(end_b), start=ob) is None for ob in op_blocks)
                good = rng is not None and rng[1] <= 1 and rng[0] >= 0 and bal == (0, 0) and after_start and (rng[1] == 1 or not op_blocks)
                want = "every path must pair at most one start_job with exactly one complete_job|fail_job, and the operation must run " \
                       "between them (balance start-end over paths: %s)" % (bal,)
            if not good:
                ctx.violation("R1", key, "calls of %s on the paths through the %s job wrapper range over %s; %s" % (what, kind, rng, want),
                              w.where(), {"range": rng})
            else:
                ctx.ok("R1", key, "exactly one on every path" if what == "send" else "balanced, at most one, around the operation", w.where())
        # R1b: the kind of result sent on a path agrees with the progress counter moved on that path: Success with
        # complete_job, Failed with fail_job, Cancelled with neither (the dispatcher's own Cancelled results move none)
        comp_b = set(b for b, c, a, d in L.calls_to(w, ["BatchProgress::complete_job"]))
        reach_from = {}
        def co_occurs(x, y):
            for a_, b_ in ((x, y), (y, x)):
                if a_ not in reach_from:
                    reach_from[a_] = g.reachable_from(a_)
                if b_ in reach_from[a_]:
                    return True
            return False
        for sb in sorted(send_b):
            t = w.term(sb)
            seen0, dr0 = fl.back_slice([l for o in t[2] for l in FL.op_locals(o)])
            variants = set()
            for d0 in dr0:
                if d0[0] == "stmt":
                    rv = w.blocks[d0[1]][0][d0[2]][2]
                    if rv[0] == "agg" and rv[1][0] == "adt" and rv[1][1].endswith("JobResult"):
                        variants.add(rv[1][2])
            if len(variants) != 1:
                ctx.undecided_site("R1", "%s:send-kind" % wname, "result kind of the send not determined (%s)" % sorted(variants), w.where(sb))
                continue
            v = variants.pop()
            key = "%s:send-%s:counter-agrees" % (wname, v)
            want = {"Success": comp_b, "Failed": fail_b, "Cancelled": set()}.get(v)
            if want is None:
                continue
            wrong = (end_b - want)
            bad = sorted(e for e in wrong if co_occurs(e, sb))
            missing = bool(want) and CF.must_pass(w, [sb], list(want)) is not None and \
                CF.must_pass(w, list(g.return_blocks()), list(want), start=sb) is not None
            if bad or missing:
                ctx.violation("R1", key, "the path that reports a %s result %s: the progress counters (completed/failed) end up "
                              "disagreeing with the results in the summary" % (v, ("also calls %s" % L.short(w.term(bad[0])[1]["p"])) if bad else
                                                                               "does not move the matching progress counter"), w.where(sb))
            else:
                ctx.ok("R1", key, "result kind and progress counter agree on every path through the send", w.where(sb))
        if not ctx.floor("R2", "operation call in %s" % wname, len(ops), 1):
            continue
        # R2 containment
        for b, c, k in ops:
            key = "%s:panic-contained" % wname
            t = w.term(b)
            contained = b in contained_blocks
            # unwind edge reaches a send
            if not contained and t[0] == "call" and t[5] is not None:
                gu = CF.cfg(w, unwind=True)
                if gu.reachable_from(t[5]) & send_b:
                    contained = True
            if contained:
                ctx.ok("R2", key, "operation call contained", w.where(b))
            else:
                ctx.violation("R2", key, "the %s call in the %s job wrapper is neither inside catch_unwind nor followed on its unwind "
                              "edge by a result send: a panicking job kills the worker thread and leaves its result slot empty, so "
                              "the summary holds fewer results than jobs" % (k, kind), w.where(b))
        # R3 cancellation gate
        loads = L.calls_to(w, ["AtomicBool::load", "Atomic::<bool>::load"])
        not_cancelled = []
        for b, c, args, dest in loads:
            te, fe = L.bool_edges(w, dest[0])
            not_cancelled += fe
        for b, c, k in ops:
            key = "%s:cancel-gate" % wname
            if not loads:
                ctx.violation("R3", key, "the %s job wrapper runs its operation without consulting the cancellation flag: with "
                              "stop-on-error set, a job still queued when the first failure is recorded runs anyway" % kind, w.where(b))
                continue
            wit = CF.must_pass(w, [b], [], guard_edges=not_cancelled)
            if wit is not None:
                ctx.violation("R3", key, "a path reaches the operation call without passing the not-cancelled edge of the flag load",
                              w.where(b), {"path_lines": [w.line(x) for x in wit]})
            else:
                ctx.ok("R3", key, "operation dominated by !cancelled", w.where(b))
        # R4 stop-on-error
        stores = set(b for b, c, a, d in L.calls_to(w, ["AtomicBool::store", "Atomic::<bool>::store"]))
        key = "%s:stop-on-error" % wname
        if not ctx.floor("R4", "fail_job call in %s" % wname, len(fail_b), 1):
            continue
        ok = False
        for fb in fail_b:
            if g.reachable_from(fb) & stores:
                ok = True
        if ok:
            ctx.ok("R4", key, "failure path reaches cancelled.store", w.where(min(fail_b)))
        else:
            ctx.violation("R4", key, "the failure path of the %s job wrapper never sets the cancellation flag: stop-on-error has no "
                          "effect when a job of this kind fails (its sibling wrapper does set it)" % kind, w.where(min(fail_b)))
    # R5 collector
    drops = []
    for b, c, args, dest in L.calls_to(pj, ["Iterator::flatten", "Iterator::filter_map", "Iterator::flat_map"]):
        st = c.get("self") or c.get("a") or ""
        if "Option<batch::result::JobResult>" in st or "Option<batch::JobResult>" in st or "JobResult" in st:
            drops.append((b, c))
    if drops:
        for b, c in drops:
            ctx.violation("R5", "collector:%s" % L.short(c["p"]), "the collector turns the per-index Option<JobResult> slots into the "
                          "summary with %s: a job that produced no result (worker died, dispatch loop broke off) silently disappears, "
                          "so the summary does not hold one result per submitted job" % L.short(c["p"]), pj.where(b))
    else:
        ctx.ok("R5", "collector:no-silent-drop", "no flatten/filter_map over result slots", pj.where())
    # dispatcher: leaving the submit loop early must still answer the remaining jobs
    g = CF.cfg(pj)
    loops = g.loops()
    send_blocks = [b for b, c, a, d in L.calls_to(pj, ["Sender::<T>::send"])]
    ctx.floor("R5", "send calls in dispatcher", len(send_blocks), 2)
    # R6 worker guard
    wclos = [facts.fns[c] for c in sorted(facts.closures_of.get(WN, ())) if c in facts.fns]
    loopfn = [f for f in wclos if L.calls_to(f, ["Receiver::<T>::recv"])]
    if ctx.floor("R6", "worker loop closure", len(loopfn), 1):
        f = loopfn[0]
        recv = L.calls_to(f, ["Receiver::<T>::recv"])
        locks = L.calls_to(f, ["Mutex::<T>::lock"])
        opsw = [(b, c) for b, c, a, d, t, u in f.calls()
                if (c.get("p") or "").endswith("FnOnce::call_once") and "dyn" in (c.get("self") or "")]
        ctx.floor("R6", "operation calls in worker loop", len(opsw), 1)
        guard_drops = [b for b in range(len(f.blocks)) if f.term(b)[0] == "drop" and "MutexGuard" in f.locals[f.term(b)[1][0]]]
        for b, c in opsw:
            key = "worker:guard-dropped-before-job"
            if not locks:
                ctx.ok("R6", key, "no mutex in the worker loop", f.where(b))
                continue
            bad = None
            for rb, rc, ra, rd in recv:
                g = CF.cfg(f)
                p = g.path(rb, [b], avoid_blocks=guard_drops)
                if p is not None:
                    bad = p
            if bad:
                ctx.violation("R6", key, "the receiver guard is still held while the job runs: jobs are serialised and a panicking job "
                              "poisons the queue for every other worker", f.where(b), {"path_lines": [f.line(x) for x in bad]})
            else:
                ctx.ok("R6", key, "MutexGuard dropped between recv and the job call", f.where(b))


def r6_atomic_updates(ctx):
    facts = ctx.facts
    n = 0
    for k, fn in sorted(facts.fns.items()):
        if not k.startswith("batch::progress::BatchProgress::") and not k.startswith("batch::"):
            continue
        fl = None
        for b, c, a, d, t, u in fn.calls():
            if not (isinstance(c, dict) and L.short(c.get("p") or "") == "store" and "atomic" in (c.get("p") or "").lower()):
                continue
            n += 1
            r = L.recv_of(fn, a)
            field = (r[1][-1] if r and r[1] else "?")
            key = "%s:store:%s" % (L.short(fn.parent or fn.id), field)
            fl = fl or FL.flow(fn)
            seen, drecs = fl.back_slice(FL.op_locals(a[1])) if len(a) > 1 else (set(), set())
            loads = [fn.term(dd[1]) for dd in drecs if dd[0] == "call" and L.short(fn.term(dd[1])[1].get("p") or "") == "load"
                     and "atomic" in (fn.term(dd[1])[1].get("p") or "").lower()]
            same = [tt for tt in loads if (L.recv_of(fn, tt[2]) or (None, ["?"]))[1][-1:] == [field]]
            if same:
                ctx.violation("R6", key, "%s stores into the shared atomic `%s` a value computed from a `load` of the same atomic: the "
                              "update is not one read-modify-write, so two threads doing it at the same time lose one of the updates "
                              "(two workers finishing together leave `running_jobs` above 0 after the batch)" % (L.short(fn.parent or fn.id), field), fn.where(b))
            else:
                ctx.ok("R6", key, "store of a value that does not depend on the atomic's own previous value", fn.where(b))
    ctx.counts["R6:atomic stores in batch::"] = n
