"""C27 — page labels follow the numbering styles of ISO 32000-1 §12.4.2 (Table 159).

 R1 letter style: a label in the letter styles is one letter repeated (A..Z, AA..ZZ, AAA..), so
    every character appended by the letter routine must be loop-invariant: its data dependence
    must not include a variable that is updated from itself inside the appending loop (a
    positional base-26 rendering recomputes the letter from a loop-carried quotient).
 R2 style-name tables: writer (`to_pdf_name`) and reader (`from_dict`) agree on D R r A a and on
    "no /S" for the style without numeric portion; `format` has an arm for all six styles.
 R3 range lookup: the range map is an ordered map (the early `break` in the lookup is a choice
    over iteration order) and the formatted offset is a difference of page index and range start.
 R4 the numeric portion `start + offset` must not be an unchecked addition on the user-supplied
    start value (arithmetic-overflow panic in debug builds).
 R5 every range is written: in a number tree each /Nums entry restarts the numbering at its /St, so
    an entry is never redundant; the loop of `PageLabelTree::to_dict` over the ranges reaches, on
    every iteration, the two pushes (page index, label dictionary) onto the /Nums array.
 R6 every range is kept: `PageLabelTree::add_range` reaches its map insert on every path (no "same as the previous range" early return):
    a range equal to its predecessor still restarts the numbering at its /St.
Not decided: roman numerals; agreement with an independent reader.
"""
from .. import lib as L
from .. import tables as T
from .. import flow as FL
from .. import cfg as CF

EXPLANATION = __doc__
P = "page_labels::page_label::"
PT = "page_labels::page_label_tree::"
STYLES = {"DecimalArabic": "D", "UppercaseRoman": "R", "LowercaseRoman": "r", "UppercaseLetters": "A",
          "LowercaseLetters": "a"}


def r1(ctx):
    fn = ctx.fn(P + "to_letters", "R1")
    g = CF.cfg(fn)
    fl = FL.flow(fn)
    loops = g.loops()
    appends = L.calls_to(fn, ["String::insert", "String::push", "String::push_str", "String::insert_str",
                              "Vec::<T, A>::push", "Vec::<T, A>::insert", "std::iter::repeat", "str::repeat",
                              "std::iter::repeat_n", "Iterator::collect", "Extend::extend"])
    if not ctx.floor("R1", "character-append / repeat sites in to_letters", len(appends), 1):
        return
    for b, c, args, dest in appends:
        key = "to_letters:append:%s" % L.short(c["p"])
        inloops = [(h, body) for h, body in loops.items() if b in body]
        if not inloops:
            ctx.ok("R1", key, "append outside any loop", fn.where(b))
            continue
        h, body = max(inloops, key=lambda x: len(x[1]))
        # the appended value: last argument
        val = args[-1]
        roots = FL.op_locals(val)
        # backward slice through definitions located inside the loop only
        inloop_defs = {}
        for l, ds in fl.defs.items():
            for d in ds:
                if d[0] in ("stmt", "call", "out") and d[1] in body:
                    inloop_defs.setdefault(l, []).append(d)

        def deps(l):
            out = set()
            for d in inloop_defs.get(l, ()):
                out.update(fl.def_inputs(d))
            return out
        seen = set()
        work = list(roots)
        while work:
            l = work.pop()
            if l in seen:
                continue
            seen.add(l)
            work.extend(deps(l))
        carried = []
        for x in seen:
            # x is loop-carried if it reaches itself through in-loop definitions
            s2 = set()
            w2 = list(deps(x))
            while w2:
                y = w2.pop()
                if y in s2:
                    continue
                s2.add(y)
                w2.extend(deps(y))
            if x in s2 and fn.locals[x] not in ("std::string::String", "&mut std::string::String"):
                carried.append(x)
        # the iterator/range of a `for` loop is loop carried but only counts; exclude pure iterator state
        carried = [x for x in carried if "Range" not in fn.locals[x] and "Iter" not in fn.locals[x]]
        if carried:
            names = sorted(set(fn.name_of(x) for x in carried))
            ctx.violation("R1", key, "the character appended in the loop depends on loop-carried variable(s) %s that are updated "
                          "inside the loop: the routine renders positional (spreadsheet) lettering — 28 gives `AB` — where "
                          "Table 159 requires one letter repeated (`BB`)" % names, fn.where(b),
                          {"loop_header": fn.where(h), "carried": names})
        else:
            ctx.ok("R1", key, "appended value is loop-invariant", fn.where(b))


def r2(ctx):
    facts = ctx.facts
    f = ctx.fn(P + "PageLabelStyle::to_pdf_name", "R2")
    ms = facts.matches.get(f.id, [])
    wmap = {}
    if ctx.floor("R2", "style match in to_pdf_name", len(ms), 1):
        m = ms[0]
        byv = T.arms_by_variant(m)
        for v, name in list(STYLES.items()) + [("None", None)]:
            arms = byv.get(P + "PageLabelStyle::" + v, [])
            key = "to_pdf_name:" + v
            where = "%s:%d" % (m["file"], m["line"])
            if not arms:
                ctx.violation("R2", key, "style %s has no arm in to_pdf_name" % v, where)
                continue
            body = m["arms"][arms[0]]["body"]
            lits = []
            T.walk_expr(body, lambda e: lits.append(e[1]["s"]) if e[0] == "lit" and isinstance(e[1], dict) and "s" in e[1] else None)
            got = lits[0] if lits else None
            wmap[v] = got
            if got != name:
                ctx.violation("R2", key, "style %s is written as /S %r, Table 159 says %r" % (v, got, name), where)
            else:
                ctx.ok("R2", key, "/S %r" % got, where)
    f = ctx.fn(P + "PageLabelStyle::format", "R2")
    ms = facts.matches.get(f.id, [])
    if ctx.floor("R2", "style match in format", len(ms), 1):
        m = ms[0]
        byv = T.arms_by_variant(m)
        for v in list(STYLES) + ["None"]:
            key = "format:" + v
            if not byv.get(P + "PageLabelStyle::" + v):
                ctx.violation("R2", key, "style %s has no arm of its own in format()" % v, "%s:%d" % (m["file"], m["line"]))
            else:
                ctx.ok("R2", key, L.arm_src(m["arms"][byv[P + "PageLabelStyle::" + v][0]]))
    f = ctx.fn(PT + "PageLabelTree::from_dict", "R2")
    ms = [m for m in facts.matches.get(f.id, []) if m["sty"].startswith("std::option::Option<&str>")]
    if ctx.floor("R2", "style-name match in from_dict", len(ms), 1):
        m = ms[-1]
        for v, name in STYLES.items():
            key = "from_dict:" + name
            sel = None
            for i, a in enumerate(m["arms"]):
                p = a["pat"]
                if p[0] == "ts" and p[2] and T.pat_matches(p[2][0], name) is True:
                    sel = a
                    break
            where = "%s:%d" % (m["file"], m["line"])
            if sel is None:
                ctx.violation("R2", key, "/S /%s is not recognised by the reader" % name, where)
                continue
            paths = []
            T.walk_expr(sel["body"], lambda e: paths.append(e[1].get("def", "")) if e[0] == "path" else None)
            if not any(p.endswith("PageLabelStyle::" + v) for p in paths):
                ctx.violation("R2", key, "/S /%s is read back as `%s`, the writer uses it for %s" % (name, L.arm_src(sel), v), where)
            else:
                ctx.ok("R2", key, "-> " + v, where)


def r3(ctx):
    adt = ctx.facts.adts.get(PT + "PageLabelTree")
    if adt is None:
        ctx.violation("R3", "anchor-missing:PageLabelTree", "struct PageLabelTree not found", PT)
        return
    ty = None
    for name, t, vis in adt["variants"][0]["fields"]:
        if name == "ranges":
            ty = t
    if ty is None:
        ctx.violation("R3", "anchor-missing:PageLabelTree.ranges", "field `ranges` not found", PT)
    elif not ty.startswith("std::collections::BTreeMap"):
        ctx.violation("R3", "PageLabelTree.ranges:ordered", "the range map has type `%s`: get_label's first-greater `break` is a choice "
                      "over iteration order and is only sound for an ordered map" % ty[:80], "%s:%d" % (adt["file"], adt["line"]))
    else:
        ctx.ok("R3", "PageLabelTree.ranges:ordered", ty[:80])
    fid = PT + "PageLabelTree::get_label"
    ctx.fn(fid, "R3")
    found = 0
    for fn in L.group(ctx.facts, fid):
        for b, c, args, dest in L.calls_to(fn, ["PageLabel::format_label"]):
            found += 1
            fl = FL.flow(fn)
            seen, drecs = fl.back_slice(FL.op_locals(args[1]))
            subs = [d for d in drecs if d[0] == "stmt" and fn.blocks[d[1]][0][d[2]][2][0] == "bin"
                    and fn.blocks[d[1]][0][d[2]][2][1].startswith("Sub")]
            if args[1][0] == "k" or not subs:
                ctx.violation("R3", "get_label:offset", "the offset given to format_label is not a difference (page index minus range start)",
                              fn.where(b))
            else:
                ctx.ok("R3", "get_label:offset", "offset = a - b", fn.where(b))
    ctx.floor("R3", "format_label call in get_label", found, 1)


def r4(ctx):
    fn = ctx.fn(P + "PageLabel::format_label", "R4")
    n = 0
    for b, blk in enumerate(fn.blocks):
        t = blk[1]
        if t[0] == "assert" and t[3].startswith("Overflow:Add"):
            ops = t[4]
            fields = []
            fl = FL.flow(fn)
            for op in ops:
                for l in FL.op_locals(op):
                    for d in fl.defs.get(l, ()):
                        if d[0] == "stmt":
                            rv = fn.blocks[d[1]][0][d[2]][2]
                            for o in FL.rvalue_operands(rv):
                                pl = FL.op_place(o)
                                if pl:
                                    fields += [p[2] for p in pl[1] if isinstance(p, list) and p[0] == "f"]
            n += 1
            if "start" in fields:
                ctx.violation("R4", "format_label:start+offset", "`start + offset` is an unchecked u32 addition on the user-supplied "
                              "starting value: PageLabel{start: u32::MAX} panics with an arithmetic overflow for the second page "
                              "of its range in debug builds (and wraps to 0 in release)", fn.where(b))
            else:
                ctx.undecided_site("R4", "format_label:add", "overflow-checked addition of unknown operands", fn.where(b))
    if n == 0:
        ctx.ok("R4", "format_label:start+offset", "no unchecked addition in format_label")


def r5(ctx):
    fn = ctx.fn("page_labels::page_label_tree::PageLabelTree::to_dict", "R5")
    g = CF.cfg(fn)
    n = 0
    for h, body in sorted(g.loops().items()):
        nexts = [b for b in body if fn.term(b)[0] == "call" and L.is_call_to(fn.term(b)[1], ["Iterator::next"])
                 and "btree_map" in (fn.term(b)[1].get("self") or "")]
        if not nexts:
            continue
        n += 1
        pushes = [b for b in body if fn.term(b)[0] == "call" and L.is_call_to(fn.term(b)[1], ["Array::push"])]
        latches = [s for s, hh in g.back_edges() if hh == h]
        dest = fn.term(nexts[0])[3][0]
        y, no = L.discr_edges(fn, dest, 1)
        some_t = [t for s_, t in y if t in body] or [nexts[0]]
        outside = set(range(len(fn.blocks))) - set(body)
        key = "to_dict:every-range-written"
        if len(pushes) < 2:
            ctx.violation("R5", key, "the loop over the label ranges pushes %d value(s) per range onto /Nums (expected the page index "
                          "and the label dictionary)" % len(pushes), fn.where(h))
            continue
        w = None
        for pb in pushes:
            p = g.path(some_t[0], latches, avoid_blocks=set([pb]) | outside)
            if p is not None:
                w = p
        if w is not None:
            ctx.violation("R5", key, "an iteration of the loop over the label ranges can reach the next range without writing its "
                          "/Nums entry (through line(s) %s): every entry of a number tree restarts the numbering at its /St, so a "
                          "skipped range — even one whose label dictionary repeats the previous one — changes the labels of its pages "
                          "(1,2,3,1,2,3 becomes 1,2,3,4,5,6)" % sorted(set(fn.line(x) for x in w))[:8], fn.where(w[0]))
        else:
            ctx.ok("R5", key, "both pushes lie on every path round the loop", fn.where(h))
    ctx.floor("R5", "range loop in PageLabelTree::to_dict", n, 1)


def r6(ctx):
    fn = ctx.fn("page_labels::page_label_tree::PageLabelTree::add_range", "R6")
    g = CF.cfg(fn)
    ins = [b for b, c, a, d in L.calls_to(fn, ["insert"])]
    key = "add_range:inserts-unconditionally"
    if not ctx.floor("R6", "insert in add_range", len(ins), 1):
        return
    w = g.path(0, g.return_blocks(), avoid_blocks=ins)
    if w is None:
        ctx.ok("R6", key, "every path inserts the range", fn.where(ins[0]))
    else:
        ctx.violation("R6", key, "add_range can return without inserting the range (line(s) %s): a range whose label repeats the "
                      "preceding one is dropped, yet it restarts the numbering at its /St — 1,2,3,1,2,3 becomes 1,2,3,4,5,6 both in "
                      "the labels the library computes and in the /Nums it writes" % sorted(set(fn.line(x) for x in w))[:8], fn.where(w[-1]))


def run(ctx):
    from ..run import AnchorMissing
    for r in (r1, r2, r3, r4, r5, r6):
        try:
            r(ctx)
        except AnchorMissing:
            pass
