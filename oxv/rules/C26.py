"""C26 — CMaps map every code to the Unicode they define.

 R1 builder/parser vocabulary agreement: every keyword the ToUnicode builder emits is a keyword the
    CMap parser/tokeniser recognises; the builder writes hex with two digits per byte.
 R2 the builder's output order is sorted (its mapping table is a hash map) and bfchar sections are
    chunked by at most 100 entries.
 R3 carry arithmetic: the big-endian increment and the range-offset addition walk the bytes from the
    last to the first and propagate `sum >> 8`.
 R4 code-space gate: the identity / inherited-identity pass-throughs of `map` are dominated by the
    code-space validity test.
 R5 the positional accumulator that turns a code into an offset must not be an unchecked
    `acc * 256 + b` over an input-length loop (arithmetic-overflow panic for codes of 9+ bytes).
 R6 length gate of range lookups: byte-string codes are compared with range bounds by slice order
    (lexicographic), which equals big-endian numeric order only for equal lengths; every such
    comparison in the lookup routines is reached only through the equal-length edge of a
    `len() == len()` test — otherwise a 1-byte prefix of a 2-byte code matches a 2-byte range.
 R7 complete search: the loops of the lookup routines that scan the mapping list (kept in file
    order, never sorted) leave the loop only when the list is exhausted or with a match; an early
    `break`/fall-out that rejoins the not-found continuation skips later entries, so a range listed
    after a higher one (legal: bfrange entries need not be sorted) becomes unreachable.
 R8 destinations are UTF-16: the builder's text-to-bytes helpers never narrow a `char` to `u16`/`u8` by a cast (that keeps only the low
    bits: U+1F600 would be written <F600>); code units come from `encode_utf16`.
Not decided: the mapped values themselves.
"""
from .. import lib as L
from .. import flow as FL
from .. import cfg as CF
from .. import order as OR

EXPLANATION = __doc__
M = "text::cmap::"
KW = ["begincodespacerange", "endcodespacerange", "beginbfchar", "endbfchar"]


def strings_in(facts, fid):
    out = set()
    for f in L.group(facts, fid):
        for b, ty, v in FL.fn_consts(f):
            if isinstance(v, dict) and "s" in v:
                out.add(v["s"])
        for m in facts.matches.get(f.id, []):
            for a in m["arms"]:
                def walk(p):
                    if p[0] == "lit" and isinstance(p[1], dict) and "s" in p[1]:
                        out.add(p[1]["s"])
                    elif p[0] == "or":
                        for s in p[1]:
                            walk(s)
                    elif p[0] in ("ref", "ts"):
                        for s in (p[1] if p[0] == "ref" else p[2]):
                            if isinstance(s, list):
                                walk(s)
                walk(a["pat"])
        for s in facts.fmt_sites_in(f):
            for p in s["tpl"]:
                if isinstance(p, str):
                    out.add(p)
        h = facts.hirfns.get(f.id)
        if h is not None:
            from .. import bytepred as BP
            for l in BP.find_all(h["body"], lambda y: y[0] == "lit" and isinstance(y[1], dict) and "s" in y[1]):
                out.add(l[1]["s"])
    return out


def check_range_length_gate(ctx, rule):
    """R6 (shared with C13): slice-order comparisons in the CMap lookup routines are length-gated"""
    n = 0
    for fid in (M + "CMap::map", M + "CMap::source_code_for_unicode", M + "CodeRange::contains"):
        fn = ctx.fn(fid, rule)
        cmps = [(b, c) for b, c, a, d in L.calls_matching(fn, lambda c: (c.get("p") or "").startswith("std::cmp::PartialOrd::")
                                                           and "[u8]" in (c.get("self") or ""))]
        # equal-length edges: switches on `len() == len()` / `len() != len()`
        edges = []
        for b, blk in enumerate(fn.blocks):
            for st in blk[0]:
                rv = st[2]
                if rv[0] == "bin" and rv[1] in ("Eq", "Ne") and not st[1][1]:
                    both = all(any(L.is_call_to(cc, ["len"]) for cb, cc, aa in L.value_slice_calls(fn, FL.op_locals(o))) for o in (rv[2], rv[3]))
                    if both:
                        te, fe = L.bool_edges(fn, st[1][0])
                        edges += te if rv[1] == "Eq" else fe
        for k, (b, c) in enumerate(cmps):
            n += 1
            key = "%s:slice-order-cmp#%d:length-gated" % (L.short(fid), k + 1)
            w = CF.must_pass(fn, [b], [], guard_edges=edges) if edges else [0, b]
            if w is None:
                ctx.ok(rule, key, "reached only through an equal-length edge", fn.where(b))
            else:
                ctx.violation(rule, key, "%s compares a looked-up code with a range bound by slice order (%s on [u8]) without first "
                              "establishing that both have the same length: slice order is lexicographic, so a 1-byte prefix such as "
                              "<01> falls inside the 2-byte range <00FF>..<0101> and the decoder emits the wrong character and consumes "
                              "one byte too few" % (L.short(fid), L.short(c["p"])), fn.where(b), {"path_lines": [fn.line(x) for x in w][:10]})
    ctx.floor(rule, "slice-order comparisons in CMap lookups", n, 5)


def check_complete_search(ctx, rule):
    facts = ctx.facts
    from .. import cycles as CY
    n = 0
    sorted_at_build = False
    for f in facts.fns.values():
        if f.id.startswith(M):
            for b, c, a, d in L.calls_matching(f, lambda c: "sort" in L.short(c.get("p") or "")):
                r = L.recv_of(f, a)
                if r and "mappings" in r[1]:
                    sorted_at_build = True
    for fid in (M + "CMap::map", M + "CMap::source_code_for_unicode"):
        fn = ctx.fn(fid, rule)
        g = CF.cfg(fn)
        k = 0
        for h, body in sorted(g.loops().items()):
            nexts = [b for b in body if fn.term(b)[0] == "call" and L.is_call_to(fn.term(b)[1], ["Iterator::next"])
                     and "CMapEntry" in (fn.term(b)[1].get("self") or "")]
            if not nexts:
                continue
            k += 1
            n += 1
            key = "%s:mapping-scan#%d:complete" % (L.short(fid), k)
            # the exhausted edge: switch on the discriminant of the next() result, edge to outside the loop
            dest = fn.term(nexts[0])[3][0]
            y, no = L.discr_edges(fn, dest, 0)
            exhausted = [t for s_, t in y if t not in body]
            exits = [(b, s2) for b in body for s2 in g.succ[b] if s2 not in body]
            if not exhausted:
                ctx.undecided_site(rule, key, "exhausted edge of the scan not identified", fn.where(h))
                continue
            E = exhausted[0]
            # an exit "rejoins the not-found continuation" when it shares with the exhausted edge some block that still does
            # work (a call or a branch); a match exit shares only the return / drop epilogue
            reach_e = g.reachable_from(E)

            def rejoins(s2):
                common = g.reachable_from(s2) & reach_e
                return any(fn.term(x)[0] in ("call", "sw") and not fn.is_cleanup(x) for x in common)
            early = [(b, s2) for b, s2 in exits if s2 != E and fn.term(s2)[0] != "unr" and rejoins(s2)] + \
                    [(b, s2) for b, s2 in exits if s2 == E and not any(b == s_ for s_, t in y)]
            if early and not sorted_at_build:
                ctx.violation(rule, key, "the scan over the mapping list in %s can be left early (at %s) into the not-found continuation "
                              "without a match: the list is kept in file order and never sorted, so an entry listed after a higher "
                              "one is skipped and its codes map to nothing (or to the identity fallback)" % (L.short(fid), fn.where(early[0][0])),
                              fn.where(early[0][0]))
            else:
                ctx.ok(rule, key, "left only when exhausted or with a match" + (" (list sorted at build time)" if early else ""), fn.where(h))
    ctx.floor(rule, "mapping-list scans in CMap lookups", n, 2)


def check_no_char_narrowing(ctx, rule):
    facts = ctx.facts
    n = 0
    bad = 0
    for k, fn in sorted(facts.fns.items()):
        if not k.startswith(M) or "::tests::" in k:
            continue
        for b, blk in enumerate(fn.blocks):
            for st in blk[0]:
                rv = st[2]
                if rv[0] == "cast" and rv[4] == "char" and rv[3] in ("u16", "u8", "i16"):
                    bad += 1
                    ctx.violation(rule, "char-narrowed:%s" % L.short(fn.parent or fn.id), "%s casts a `char` to `%s`: only the low bits of the "
                                  "code point survive, so a character above U+FFFF is written to the CMap as a different BMP character "
                                  "(U+1F600 -> <F600>) instead of its UTF-16 surrogate pair" % (L.short(fn.parent or fn.id), rv[3]), fn.where(b))
        for b, c, a, d, t, u in fn.calls():
            if isinstance(c, dict) and L.short(c.get("p") or "") == "encode_utf16":
                n += 1
    if not bad:
        ctx.ok(rule, "cmap:utf16-by-encode_utf16", "%d encode_utf16 call(s), no narrowing cast of a char" % n)
    ctx.floor(rule, "encode_utf16 calls in text::cmap", n, 1)


def run(ctx):
    facts = ctx.facts
    check_range_length_gate(ctx, "R6")
    check_no_char_narrowing(ctx, "R8")
    check_complete_search(ctx, "R7")
    bld = ctx.fn(M + "ToUnicodeCMapBuilder::build", "anchor")
    prs = ctx.fn(M + "CMap::parse", "anchor")
    emitted = strings_in(facts, bld.id)
    recog = set()
    for fid in (prs.id, M + "tokenize_cmap"):
        if fid in facts.fns:
            recog |= strings_in(facts, fid)
    # keyword tokens inside the emitted literals
    em_tokens = set()
    for s in emitted:
        for t in s.replace("\n", " ").split():
            em_tokens.add(t)
    for k in KW:
        key = "keyword:%s" % k
        if k not in em_tokens:
            ctx.violation("R1", key, "the builder no longer emits `%s`" % k, bld.where())
        elif not any(k in r for r in recog):
            ctx.violation("R1", key, "the builder emits `%s` but the CMap parser has no such keyword: generated ToUnicode maps do not "
                          "parse back" % k, prs.where())
        else:
            ctx.ok("R1", key, "emitted and recognised")
    hx = ctx.fn(M + "hex_string", "R1")
    two = any(isinstance(p, dict) and p["tr"] in ("UpperHex", "LowerHex") and p["w"] == 2 and p["zero"] for s in facts.fmt_sites_in(hx) for p in s["tpl"])
    if two:
        ctx.ok("R1", "hex_string:two-digits-per-byte", "{:02X}")
    else:
        ctx.violation("R1", "hex_string:two-digits-per-byte", "hex_string does not format every byte as exactly two hex digits: codes "
                      "below 0x10 lose their leading zero and shift the rest of the string", hx.where())
    # R2 sorted + chunked
    OR.check_scope(ctx, "R2", [bld.id], scope_prefixes=["text::cmap::ToUnicodeCMapBuilder"], prims=["String::push_str"], what="generated CMap",
                   nondeterminism=False)
    ch = L.calls_to(bld, ["chunks", "slice::<impl [T]>::chunks"])
    vals = [FL.op_const(a[1]) for b, c, a, d in ch if len(a) > 1]
    if vals and all(isinstance(v, int) and v <= 100 for v in vals):
        ctx.ok("R2", "build:bfchar-chunks<=100", "chunks(%s)" % vals)
    else:
        ctx.violation("R2", "build:bfchar-chunks<=100", "bfchar sections are not chunked by at most 100 entries (chunk sizes: %s); the CMap "
                      "specification limits a section to 100 entries" % vals, bld.where())
    # R3 carry
    for fid, what in ((M + "increment_be", "big-endian increment"), (M + "CMap::map", "range offset addition")):
        fn = ctx.fn(fid, "R3")
        revs = [c for b, c, a, d in L.calls_to(fn, ["Iterator::next"]) if "Rev<" in (c.get("self") or "") and "IterMut" in (c.get("self") or "")]
        shr = []
        for b, blk in enumerate(fn.blocks):
            for st in blk[0]:
                rv = st[2]
                if rv[0] == "bin" and rv[1].startswith("Shr") and FL.op_const(rv[3]) == 8:
                    shr.append(b)
        key = "%s:carry-from-last-byte" % L.short(fid)
        if revs and shr:
            ctx.ok("R3", key, "%s: iter_mut().rev() with carry = sum >> 8" % what, fn.where(shr[0]))
        else:
            ctx.violation("R3", key, "the %s does not walk the bytes from the last to the first (rev: %s) with `sum >> 8` as carry (%s): "
                          "multi-byte codes carry in the wrong direction" % (what, bool(revs), bool(shr)), fn.where())
    # R4 gate
    mp = facts.fns[M + "CMap::map"]
    vc = L.calls_to(mp, [M + "CMap::is_valid_code"])
    if ctx.floor("R4", "is_valid_code call in map", len(vc), 1):
        te, fe = L.bool_edges(mp, vc[0][3][0])
        fl = FL.flow(mp)
        passthrough = []
        for b, c, a, d in L.calls_to(mp, ["slice::<impl [T]>::to_vec"]):
            seen, _ = fl.back_slice(FL.op_locals(a[0]))
            if 2 in seen and not any(L.is_call_to(cc, ["Clone::clone"]) for _, cc in L.slice_calls(mp, FL.op_locals(a[0]))):
                passthrough.append(b)
        ctx.floor("R4", "identity pass-throughs in map", len(passthrough), 2)
        for i, b in enumerate(passthrough):
            w = CF.must_pass(mp, [b], [], guard_edges=te)
            key = "map:passthrough#%d-gated" % i
            if w is not None:
                ctx.violation("R4", key, "an identity pass-through of `map` is reachable without the code-space validity test: codes outside "
                              "the declared code space are mapped instead of rejected", mp.where(b))
            else:
                ctx.ok("R4", key, "dominated by is_valid_code", mp.where(b))
    # R5 accumulator
    co = ctx.fn(M + "calculate_offset", "R5")
    ov = []
    for f in L.group(facts, co.id):
        for b in range(len(f.blocks)):
            t = f.term(b)
            if t[0] == "assert" and t[3].startswith("Overflow:Mul"):
                ov.append(f.where(b))
    if ov:
        ctx.violation("R5", "calculate_offset:unchecked-accumulator", "`acc * 256 + b` is folded over a code of input-chosen length with "
                      "overflow checks on: a bfrange whose codes are 9 or more bytes long makes `map` panic with an arithmetic overflow "
                      "in debug builds (and silently wraps the offset in release)", ov[0])
    else:
        ctx.ok("R5", "calculate_offset:unchecked-accumulator", "no unchecked multiply in the accumulator")
