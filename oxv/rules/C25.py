"""C25 — single-byte text encodings match the normative tables.

The finite maps denoted by the `match` tables of text/encoding.rs are extracted by set semantics
of their patterns (no code is run) and compared, exhaustively over 256 bytes and over every
code point named in an arm, with ISO 32000-1 Annex D.2 (tables/annex_d.json):
 R1 every defined cell of each decode table equals Annex D; every defined cell of each encode
    table equals Annex D.
 R2 encode and decode tables of one encoding are mutual inverses on the encoding's repertoire
    (every code point the decoder can produce from a defined byte is encodable back to that byte).
 R3 sibling tables agree (inline tables of TextEncoding::{encode,decode} vs the *_char helpers).
 R4 strictness: encode_strict turns every `None` of the helper tables into `Err`; the `?`
    substitution exists only in the lossy `encode`.
 R5 the Standard and PDFDoc arms of encode/decode must denote a byte table at all.
Bytes Annex D leaves undefined are unconstrained.
"""
import json
import os
from .. import lib as L
from .. import tables as T

EXPLANATION = __doc__
M = "text::encoding::"
HERE = os.path.dirname(os.path.dirname(os.path.dirname(os.path.abspath(__file__))))


def payload(e):
    """('const', n) | ('id',) | ('none',) | ('other',)"""
    if not isinstance(e, list) or not e:
        return ("other",)
    k = e[0]
    if k == "lit":
        v = e[1]
        return ("const", v) if isinstance(v, int) else ("other",)
    if k == "cast":
        inner = e[1]
        if inner[0] == "path" and "local" in inner[1]:
            return ("id",)
        p = payload(inner)
        return p
    if k == "path":
        d = e[1]
        if d.get("def", "").endswith("::None"):
            return ("none",)
        if "local" in d:
            return ("id",)
        return ("other",)
    if k == "call":
        f = e[1]
        if f[0] == "path":
            name = f[1].get("def", "")
            if name.endswith("::Some") and len(e[2]) == 1:
                return payload(e[2][0])
            if name.endswith("char::from_u32") or name.endswith("char::methods::<impl char>::from_u32"):
                return payload(e[2][0])
        return ("other",)
    if k == "mcall":
        name = e[1]
        if name in ("push", "push_str", "extend_from_slice") and len(e[4]) == 1:
            return payload(e[4][0])
        if name in ("unwrap_or", "unwrap_or_default", "unwrap"):
            return payload(e[3])
        return ("other",)
    if k == "block":
        if not e[1] and e[2] is not None:
            return payload(e[2])
        if len(e[1]) == 1 and e[2] is None:
            return payload(e[1][0])
        return ("other",)
    if k == "ret":
        return ("ret",)
    return ("other",)


def table_of(m, domain):
    """value -> ('const', n) | ('id',) | ('none',) | ('other',) for each domain element"""
    out = {}
    for v in domain:
        arm, certain = T.arm_for(m, v)
        if arm is None or not certain:
            out[v] = ("other",)
            continue
        p = payload(m["arms"][arm]["body"])
        out[v] = p
    return out


def named_points(m):
    """every integer literal named in the patterns of a match (arms' own code points)"""
    pts = set()

    def walk(p):
        if p[0] == "lit" and isinstance(p[1], int):
            pts.add(p[1])
        elif p[0] == "range":
            lo, hi = T.lit_value(p[1]), T.lit_value(p[2])
            if isinstance(lo, int) and isinstance(hi, int) and hi - lo <= 0x200:
                pts.update(range(lo, hi + (1 if p[3] else 0)))
        elif p[0] == "or":
            for s in p[1]:
                walk(s)
    for a in m["arms"]:
        walk(a["pat"])
    return pts


def resolve(p, v):
    if p[0] == "const":
        return p[1]
    if p[0] == "id":
        return v
    return None


def run(ctx):
    r7_byte_ranges_inclusive(ctx)
    ref = json.load(open(os.path.join(HERE, "tables", "annex_d.json")))
    facts = ctx.facts
    enc_fn = ctx.fn(M + "TextEncoding::encode", "anchor")
    dec_fn = ctx.fn(M + "TextEncoding::decode", "anchor")
    tables = {}   # name -> (match, kind, encoding)

    def inner_tables(fid, sty_pred):
        outer = [m for m in facts.matches.get(fid, []) if "TextEncoding" in m["sty"]]
        inner = [m for m in facts.matches.get(fid, []) if sty_pred(m["sty"])]
        res = {}
        if not outer:
            return res, None
        o = outer[0]
        for m in inner:
            owner = None
            for a in o["arms"]:
                if a["line"] <= m["line"]:
                    owner = a
            if owner is None:
                continue
            vs = [v.split("::")[-1] for v in T.variant_of_pat(owner["pat"])]
            for v in vs:
                res[v] = m
        return res, o

    enc_inline, enc_outer = inner_tables(enc_fn.id, lambda s: s == "u32")
    dec_inline, dec_outer = inner_tables(dec_fn.id, lambda s: s == "u8")
    helpers = {}
    for name, sty in (("winansi_encode_char", "u32"), ("winansi_decode_char", "u8"), ("macroman_encode_char", "u32")):
        f = ctx.fn(M + name, "anchor")
        ms = [m for m in facts.matches.get(f.id, []) if m["sty"] == sty]
        if not ms and sty == "u32":
            # R6: an encode table keyed by a *narrowed* code point (`ch as u16` / `as u8`): characters above the key's range
            # are folded onto the repertoire (U+200A2 -> 0xA2) instead of being reported as unencodable
            narrow = [m for m in facts.matches.get(f.id, []) if m["sty"] in ("u16", "u8", "i16", "i8")]
            if narrow:
                ctx.violation("R6", "%s:table-keyed-by-full-code-point" % name, "%s looks its character up in a table keyed by `%s`: the "
                              "cast from `char` drops the high bits, so a supplementary-plane character whose low bits fall in the "
                              "repertoire (U+200A2, U+10041) is encoded as a different character instead of being rejected — strict "
                              "encoding no longer reports unencodable text" % (name, narrow[0]["sty"]),
                              "%s:%d" % (narrow[0]["file"], narrow[0]["line"]))
                helpers[name] = narrow[0]
                continue
        if ctx.floor("anchor", "table match in " + name, len(ms), 1):
            helpers[name] = ms[0]
            if sty == "u32":
                ctx.ok("R6", "%s:table-keyed-by-full-code-point" % name, "match on `char as u32`", f.where())
    ctx.floor("anchor", "inline encode tables (WinAnsi, MacRoman)", len([k for k in enc_inline if k in ("WinAnsiEncoding", "MacRomanEncoding")]), 2)
    ctx.floor("anchor", "inline decode tables (WinAnsi, MacRoman)", len([k for k in dec_inline if k in ("WinAnsiEncoding", "MacRomanEncoding")]), 2)

    encs = {"WinAnsi": {"enc": [], "dec": []}, "MacRoman": {"enc": [], "dec": []}}
    if "WinAnsiEncoding" in enc_inline:
        encs["WinAnsi"]["enc"].append(("TextEncoding::encode[WinAnsi]", enc_inline["WinAnsiEncoding"]))
    if "MacRomanEncoding" in enc_inline:
        encs["MacRoman"]["enc"].append(("TextEncoding::encode[MacRoman]", enc_inline["MacRomanEncoding"]))
    if "WinAnsiEncoding" in dec_inline:
        encs["WinAnsi"]["dec"].append(("TextEncoding::decode[WinAnsi]", dec_inline["WinAnsiEncoding"]))
    if "MacRomanEncoding" in dec_inline:
        encs["MacRoman"]["dec"].append(("TextEncoding::decode[MacRoman]", dec_inline["MacRomanEncoding"]))
    if "winansi_encode_char" in helpers:
        encs["WinAnsi"]["enc"].append(("winansi_encode_char", helpers["winansi_encode_char"]))
    if "winansi_decode_char" in helpers:
        encs["WinAnsi"]["dec"].append(("winansi_decode_char", helpers["winansi_decode_char"]))
    if "macroman_encode_char" in helpers:
        encs["MacRoman"]["enc"].append(("macroman_encode_char", helpers["macroman_encode_char"]))

    for encname, tabs in encs.items():
        refmap = {int(k): v for k, v in ref[encname].items()}
        # R1 decode
        dec_tabs = {}
        for tname, m in tabs["dec"]:
            t = table_of(m, range(256))
            dec_tabs[tname] = t
            where = "%s:%d" % (m["file"], m["line"])
            bad = 0
            for b, u in sorted(refmap.items()):
                got = resolve(t[b], b)
                key = "%s:byte=0x%02X" % (tname, b)
                if got is None:
                    if t[b][0] == "other":
                        ctx.undecided_site("R1", key, "arm body not table-shaped", where)
                    continue
                if got != u:
                    # a '?' (0x3F) default for a defined byte is a wrong cell too
                    ctx.violation("R1", key, "%s decodes byte 0x%02X to U+%04X, Annex D.2 says U+%04X" % (tname, b, got, u), where)
                    bad += 1
                else:
                    ctx.ok("R1", key, "U+%04X" % u, where, nontrivial=(b >= 0x80))
        # R1 encode
        enc_tabs = {}
        for tname, m in tabs["enc"]:
            pts = set(refmap.values()) | named_points(m)
            t = table_of(m, sorted(pts))
            enc_tabs[tname] = (t, m)
            where = "%s:%d" % (m["file"], m["line"])
            for b, u in sorted(refmap.items()):
                key = "%s:U+%04X" % (tname, u)
                p = t[u]
                got = resolve(p, u)
                wild = T.wildcard_arm(m)
                arm, _ = T.arm_for(m, u)
                if arm == wild or p[0] == "none":
                    # handled by R2 (inverse/repertoire): an unencodable repertoire character
                    continue
                if got is None:
                    ctx.undecided_site("R1", key, "arm body not table-shaped", where)
                elif got != b:
                    ctx.violation("R1", key, "%s encodes U+%04X as 0x%02X, Annex D.2 says 0x%02X" % (tname, u, got, b), where)
                else:
                    ctx.ok("R1", key, "0x%02X" % b, where, nontrivial=(u >= 0x80))
            # cells outside the repertoire must not claim a byte that Annex D gives to another character
            for u in sorted(named_points(m)):
                p = t[u]
                got = resolve(p, u)
                arm, _ = T.arm_for(m, u)
                if arm == T.wildcard_arm(m) or got is None:
                    continue
                if got in refmap and refmap[got] != u and u not in refmap.values():
                    ctx.violation("R1", "%s:U+%04X" % (tname, u), "%s maps U+%04X to byte 0x%02X which Annex D assigns to U+%04X"
                                  % (tname, u, got, refmap[got]), where)
        # R2 inverse on the repertoire: decode(b)=u defined  =>  every encode table maps u to b
        for dname, dt in dec_tabs.items():
            for ename, (et, em) in enc_tabs.items():
                wild = T.wildcard_arm(em)
                where = "%s:%d" % (em["file"], em["line"])
                missing = []
                for b, u in sorted(refmap.items()):
                    du = resolve(dt[b], b)
                    if du is None or du != u:
                        continue
                    arm, _ = T.arm_for(em, u)
                    p = et.get(u, ("other",))
                    key = "%s~%s:0x%02X" % (ename, dname, b)
                    if arm == wild or p[0] == "none":
                        missing.append((b, u))
                        ctx.violation("R2", key, "%s decodes 0x%02X to U+%04X (Annex D.2 %s) but %s has no entry for U+%04X: "
                                      "encode and decode are not mutual inverses on the repertoire (the character is %s)"
                                      % (dname, b, u, encname, ename, u,
                                         "replaced by '?'" if p[0] == "const" else "reported unencodable"), where,
                                      {"byte": b, "codepoint": u})
                    else:
                        got = resolve(p, u)
                        if got is not None and got != b:
                            ctx.violation("R2", key, "%s(U+%04X)=0x%02X but %s(0x%02X)=U+%04X" % (ename, u, got, dname, b, u), where)
                        elif got is not None:
                            ctx.ok("R2", key, "U+%04X <-> 0x%02X" % (u, b), where, nontrivial=(b >= 0x80))
        # R3 siblings
        names = list(enc_tabs)
        for i in range(len(names)):
            for j in range(i + 1, len(names)):
                a, b_ = names[i], names[j]
                ta, ma = enc_tabs[a]
                tb, mb = enc_tabs[b_]
                for u in sorted(set(ta) & set(tb)):
                    pa, pb = ta[u], tb[u]
                    wa = T.arm_for(ma, u)[0] == T.wildcard_arm(ma)
                    wb = T.arm_for(mb, u)[0] == T.wildcard_arm(mb)
                    key = "%s~%s:U+%04X" % (a, b_, u)
                    if wa != wb:
                        ctx.violation("R3", key, "sibling encode tables disagree on U+%04X: %s %s it, %s %s it" %
                                      (u, a, "rejects" if wa else "encodes", b_, "rejects" if wb else "encodes"),
                                      "%s:%d" % (ma["file"], ma["line"]))
                    elif not wa and resolve(pa, u) != resolve(pb, u):
                        ctx.violation("R3", key, "sibling encode tables disagree on U+%04X: %r vs %r" % (u, resolve(pa, u), resolve(pb, u)),
                                      "%s:%d" % (ma["file"], ma["line"]))
                    else:
                        ctx.ok("R3", key, "agree", nontrivial=(u >= 0x80))
        dn = list(dec_tabs)
        for i in range(len(dn)):
            for j in range(i + 1, len(dn)):
                for b in range(256):
                    if b not in refmap:
                        continue
                    x, y = resolve(dec_tabs[dn[i]][b], b), resolve(dec_tabs[dn[j]][b], b)
                    key = "%s~%s:0x%02X" % (dn[i], dn[j], b)
                    if x is not None and y is not None and x != y:
                        ctx.violation("R3", key, "sibling decode tables disagree on byte 0x%02X: U+%04X vs U+%04X" % (b, x, y), M)
                    else:
                        ctx.ok("R3", key, "agree", nontrivial=(b >= 0x80))

    # R4 strictness: in encode_strict every inner match on Option has a None arm that returns Err
    sf = ctx.fn(M + "TextEncoding::encode_strict", "anchor")
    oms = [m for m in facts.matches.get(sf.id, []) if m["sty"].startswith("std::option::Option<u8>")]
    if ctx.floor("R4", "Option<u8> matches in encode_strict", len(oms), 2):
        for m in oms:
            callee = [c for c in T.expr_calls(m["scrut"])]
            key = "encode_strict:%s" % (L.short(callee[0]) if callee else "?")
            none_arm = None
            for a in m["arms"]:
                vs = T.variant_of_pat(a["pat"])
                if any(v.endswith("::None") for v in vs) or T.is_catch_all(a["pat"]):
                    none_arm = a
            src = L.arm_src(none_arm) if none_arm else ""
            if none_arm is None or "Err" not in json.dumps(none_arm["body"]) or none_arm["body"][0] != "ret":
                ctx.violation("R4", key, "the unencodable case of %s is not reported as Err in encode_strict (`%s`)" % (key, src),
                              "%s:%d" % (m["file"], m["line"]))
            else:
                ctx.ok("R4", key, "None => %s" % src, "%s:%d" % (m["file"], m["line"]))
    # '?' substitution only in the lossy encode: wildcard arms of helper encode tables must be None
    for name in ("winansi_encode_char", "macroman_encode_char"):
        m = helpers.get(name)
        if not m:
            continue
        w = T.wildcard_arm(m)
        p = payload(m["arms"][w]["body"]) if w is not None else ("other",)
        if p[0] != "none":
            ctx.violation("R4", name + ":default", "%s substitutes %r for unencodable characters instead of reporting them" % (name, p),
                          "%s:%d" % (m["file"], m["line"]))
        else:
            ctx.ok("R4", name + ":default", "_ => None")

    # R5 Standard / PDFDoc arms denote a table
    for fn_, outer, inline, what in ((enc_fn, enc_outer, enc_inline, "encode"), (dec_fn, dec_outer, dec_inline, "decode")):
        if outer is None:
            ctx.violation("R5", what + ":outer-match", "no match over TextEncoding in TextEncoding::%s" % what, fn_.where())
            continue
        for enc in ("StandardEncoding", "PdfDocEncoding"):
            key = "TextEncoding::%s[%s]" % (what, enc)
            if enc in inline:
                ctx.ok("R5", key, "has a byte table")
                continue
            arm = None
            for a in outer["arms"]:
                if any(v.endswith("::" + enc) for v in T.variant_of_pat(a["pat"])):
                    arm = a
            src = L.arm_src(arm) if arm else "<no arm>"
            ctx.violation("R5", key, "the %s arm of TextEncoding::%s denotes no Annex D table (body: `%s`): bytes pass through as "
                          "UTF-8, so codes 0x80..0xFF and the Standard/PDFDoc specials are not mapped as specified"
                          % (enc, what, src), "%s:%d" % (outer["file"], arm["line"] if arm else outer["line"]))


def r7_byte_ranges_inclusive(ctx):
    facts = ctx.facts
    n = 0
    for k, fn in sorted(facts.fns.items()):
        if not (k.startswith("parser::encoding::") or k.startswith("text::encoding::")):
            continue
        owner = fn.parent or fn.id
        for b, blk in enumerate(fn.blocks):
            for st in blk[0]:
                rv = st[2]
                if rv[0] == "agg" and rv[1][0] == "adt" and rv[1][1] == "std::ops::Range" and len(rv[2]) == 2 \
                        and all(o[0] == "k" and o[1] == "u8" for o in rv[2]):
                    n += 1
                    key = "u8-range:%s:%s..%s" % (L.short(owner), rv[2][0][2], rv[2][1][2])
                    if rv[2][1][2] == 255:
                        ctx.violation("R7", key, "%s iterates the exclusive byte range %d..255: byte 0xFF is never visited, so the table it "
                                      "fills has no entry for `ÿ` (U+00FF) and that byte decodes to U+FFFD (lenient) or an error (strict)"
                                      % (L.short(owner), rv[2][0][2]), fn.where(b))
                    else:
                        ctx.ok("R7", key, "exclusive range not ending at 0xFF", fn.where(b))
            t = blk[1]
            if t[0] == "call" and isinstance(t[1], dict) and (t[1].get("p") or "").startswith("std::ops::RangeInclusive") and \
                    len(t[2]) == 2 and all(o[0] == "k" and o[1] == "u8" for o in t[2]):
                n += 1
                ctx.ok("R7", "u8-range:%s:%s..=%s" % (L.short(owner), t[2][0][2], t[2][1][2]), "inclusive byte range", fn.where(b))
    ctx.floor("R7", "u8 ranges filling encoding tables", n, 1)
