"""C03 — written files are structurally valid PDF.

 R1 byte accounting: the output position counter is assigned, and the underlying writer is written,
    only in the single byte-emission routine (plus the base-copy sites of the incremental entry
    points); every cross-reference position recorded is the counter's value.
 R2 /Length: each emission of the `stream` keyword is preceded by a /Length whose value is the
    length of the very buffer written next; a /Filter /FlateDecode entry is present exactly when the
    data went through the compressor (no unconditional filter on conditionally compressed data).
 R3 startxref: the operand written after `startxref` is the position captured before the
    cross-reference section was written.
 R4 /Size and cross-reference completeness: both cross-reference writers account for both object
    location maps (directly written objects and objects inside object streams), or the
    configuration that buffers objects is unreachable for the classic writer.
 R5 single allocator: object numbers come from the writer's allocator; no second counter seeds
    fresh ObjectIds.
 R6 token validity (shared with C09): name, key, string and real emission of every object
    serialiser, plus every `/{name}` format site that feeds a content or dictionary buffer.
 R7 the /Encrypt dictionary is never stored in an object stream and no individually encrypted object is (rule C05 R3).
Not decided: an independent checker's verdict; numeric correctness of offsets beyond "is the
recorded position".
"""
from .. import lib as L
from .. import flow as FL
from .. import cfg as CF
from .. import tokens as TK
from . import C09

EXPLANATION = __doc__
W = "writer::pdf_writer::PdfWriter::<W>::"
NON_EMISSION_MODULES = {
    "verification::": "builds search patterns over PDF text, not output",
    "batch::": "progress display",
    "pdfa::": "XMP regex patterns",
    "metadata::xmp": "XML closing tags",
}


def field_writes(facts, ty_sub, field):
    """(fn, block, line) of statements assigning base.<field> where base's type contains ty_sub"""
    out = []
    for fn in facts.fns.values():
        for b, blk in enumerate(fn.blocks):
            for st in blk[0]:
                pl = st[1]
                if not pl[1]:
                    continue
                fs = [p[2] for p in pl[1] if isinstance(p, list) and p[0] == "f"]
                if fs and fs[-1] == field and ty_sub in fn.locals[pl[0]]:
                    out.append((fn, b, st[0]))
    return out


def run(ctx):
    facts = ctx.facts
    wb = ctx.fn(W + "write_bytes", "anchor")
    # R1
    writes = field_writes(facts, "writer::pdf_writer::PdfWriter<", "current_position")
    ctx.floor("R1", "assignments to PdfWriter.current_position", len(writes), 2)
    allowed_base_copy = (W + "write_incremental_update", W + "write_incremental_with_page_replacement", W + "write_incremental_with_overlay")
    for fn, b, line in writes:
        owner = fn.parent or fn.id
        key = "position-write:" + L.short(owner)
        if owner == wb.id:
            ctx.ok("R1", key, "in write_bytes", fn.where(b))
        elif owner.startswith(W + "new") or owner.startswith(W + "with_config") or L.short(owner) in ("new", "with_config", "new_with_writer"):
            ctx.ok("R1", key, "constructor", fn.where(b), nontrivial=False)
        elif owner in allowed_base_copy:
            # value must be the number of bytes copied: depends on a len()/copy result
            st = [s for s in fn.blocks[b][0] if s[0] == line and s[1][1]][0]
            calls = L.slice_calls(fn, [l for o in FL.rvalue_operands(st[2]) for l in FL.op_locals(o)])
            if any(L.is_call_to(c, ["len", "std::io::copy", "read_to_end", "metadata"]) for _, c in calls):
                ctx.ok("R1", key, "base copy: position <- bytes copied", fn.where(b))
            else:
                ctx.violation("R1", key, "the position counter is set in %s from a value that is not the number of bytes copied" % L.short(owner), fn.where(b))
        else:
            ctx.violation("R1", key, "the output position counter is assigned outside write_bytes (in %s): recorded cross-reference "
                          "offsets no longer equal the bytes actually written" % L.short(owner), fn.where(b))
    # who writes to the underlying writer
    n = 0
    for fn in facts.fns.values():
        if not (fn.parent or fn.id).startswith("writer::pdf_writer::PdfWriter::<W>::"):
            continue
        for b, c, a, d, t, u in fn.calls():
            if not L.is_call_to(c, ["std::io::Write::write_all", "std::io::Write::write", "std::io::Write::write_fmt", "std::io::copy"]):
                continue
            r = L.recv_of(fn, a)
            if not r or r[1][:1] != ["writer"]:
                continue
            n += 1
            owner = fn.parent or fn.id
            key = "raw-write:" + L.short(owner)
            if owner == wb.id or owner in allowed_base_copy:
                ctx.ok("R1", key, "byte emission site", fn.where(b))
            else:
                ctx.violation("R1", key, "%s writes to the underlying writer without going through write_bytes: the bytes are not "
                              "counted, every later offset is wrong" % L.short(owner), fn.where(b))
    ctx.floor("R1", "raw writes to PdfWriter.writer", n, 1)
    # xref_positions.insert(id, X): X from current_position
    ins = 0
    for fn in facts.fns.values():
        if not (fn.parent or fn.id).startswith(W):
            continue
        for b, c, a, d in L.calls_to(fn, ["std::collections::HashMap::<K, V, S, A>::insert"]):
            r = L.recv_of(fn, a)
            if not r or r[1][:1] != ["xref_positions"]:
                continue
            ins += 1
            fl = FL.flow(fn)
            seen, drecs = fl.back_slice(FL.op_locals(a[2]))
            reads = False
            for dd in drecs:
                if dd[0] == "stmt":
                    for o in FL.rvalue_operands(fn.blocks[dd[1]][0][dd[2]][2]):
                        p = FL.op_place(o)
                        if p and any(isinstance(x, list) and x[0] == "f" and x[2] == "current_position" for x in p[1]):
                            reads = True
            key = "xref-position:%s#%d" % (L.short(fn.parent or fn.id), ins)
            if a[2][0] == "k" or not reads:
                ctx.violation("R1", "xref-position:%s" % L.short(fn.parent or fn.id), "an object's cross-reference position is recorded "
                              "from a value that is not the writer's position counter", fn.where(b))
            else:
                ctx.ok("R1", "xref-position:%s:%d" % (L.short(fn.parent or fn.id), fn.line(b) - (facts.fns.get(fn.parent or fn.id) or fn).lo),
                       "position <- current_position", fn.where(b))
    ctx.floor("R1", "xref_positions.insert sites", ins, 3)
    # R2 /Length and /Filter pairing
    stream_sites = 0
    # the anchored emitters plus any other method of the writer that emits the keyword (a helper extracted from one of them)
    r2_fids = [W + "write_object_value", W + "flush_object_streams", W + "write_xref_stream"]
    for k in sorted(facts.fns):
        if k.startswith(W) and k not in r2_fids and facts.fns[k].kind != "Closure":
            for b, c, a, d in L.calls_to(facts.fns[k], [W + "write_bytes"]):
                s0 = L.resolve_str_operand(facts.fns[k], a[1])
                if s0 is not None and "stream" in s0 and "endstream" not in s0 and s0.strip() == "stream":
                    r2_fids.append(k)
                    break
    for fid in r2_fids:
        fn = ctx.fn(fid, "R2")
        fl = FL.flow(fn)
        g = CF.cfg(fn)
        kw = []
        for b, c, a, d in L.calls_to(fn, [W + "write_bytes"]):
            s = L.resolve_str_operand(fn, a[1])
            if s is not None and "stream\n" in s and "endstream" not in s.replace("\nendstream", "X") and not s.startswith("\nendstream"):
                kw.append(b)
            elif s is not None and s.strip() == "stream":
                kw.append(b)
        for b in kw:
            stream_sites += 1
            key = "%s:stream-length" % L.short(fid)
            # next write_bytes after the keyword
            nxt = None
            reach = g.reachable_from(b)
            for bb, c, a, d in L.calls_to(fn, [W + "write_bytes"]):
                if bb != b and bb in reach and g.dominates(b, bb):
                    if nxt is None or g.dominates(bb, nxt[0]):
                        nxt = (bb, a)
            if nxt is None:
                ctx.undecided_site("R2", key, "no data write after the stream keyword", fn.where(b))
                continue
            data_base = set(fl.back_slice(FL.op_locals(nxt[1][1]))[0])
            ok = False
            for bb, s, c in L.str_args(fn, ["Dictionary::set"]):
                if s != "Length":
                    continue
                t = fn.term(bb)
                val = t[2][2] if len(t[2]) > 2 else None
                if val is None:
                    continue
                for cb, cc in L.slice_calls(fn, FL.op_locals(val)):
                    if L.is_call_to(cc, ["len"]):
                        r = L.recv_of(fn, fn.term(cb)[2])
                        p = FL.op_place(fn.term(cb)[2][0])
                        base = set([r[0]] if r else []) | (set(fl.back_slice([p[0]])[0]) if p else set())
                        if base & data_base:
                            ok = True
            if not ok:
                # the dictionary may come from a callee that is handed the buffer and sets /Length from its len()
                for bb, c, a, d, t, u in fn.calls():
                    f2 = facts.fns.get(c.get("r"))
                    if f2 is None or not f2.ret or "Dictionary" not in f2.ret:
                        continue
                    if not any(set(fl.back_slice(FL.op_locals(x))[0]) & data_base for x in a):
                        continue
                    for b2, s2, c2 in L.str_args(f2, ["Dictionary::set"]):
                        if s2 == "Length":
                            val = f2.term(b2)[2][2]
                            if any(L.is_call_to(cc, ["len"]) for _, cc in L.slice_calls(f2, FL.op_locals(val))):
                                ok = True
            if ok:
                ctx.ok("R2", key, "/Length <- len() of the buffer written after `stream`", fn.where(b))
            else:
                ctx.violation("R2", key, "the /Length written before the `stream` keyword is not the length of the buffer emitted after "
                              "it", fn.where(b))
        # Filter pairing
        comp = L.calls_to(fn, ["compression::compress"])
        if comp:
            cb = comp[0][0]
            # conditional?
            # conditional compression: the compress call does not dominate the write of the stream data
            data_writes = [bb for bb, c2, a2, d2 in L.calls_to(fn, [W + "write_bytes"]) if any(g.dominates(k, bb) for k in kw) and L.resolve_str_operand(fn, a2[1]) is None]
            conditional = bool(data_writes) and not all(g.dominates(cb, bb) for bb in data_writes)
            filt_sets = [bb for bb, s, c in L.str_args(fn, ["Dictionary::set"]) if s == "Filter"]
            callee_sets = []
            for bb, c, a, d, t, u in fn.calls():
                r = c.get("r")
                f2 = facts.fns.get(r)
                if f2 is not None and f2.ret and "Dictionary" in f2.ret:
                    for b2, s2, c2 in L.str_args(f2, ["Dictionary::set"]):
                        if s2 == "Filter":
                            # unconditional in the callee?
                            g2 = CF.cfg(f2)
                            if all(g2.dominates(b2, rb) for rb in g2.return_blocks()):
                                callee_sets.append((r, bb))
            key = "%s:filter-iff-compressed" % L.short(fid)
            # a path that skips compression is fine if it removes the callee's /Filter entry before the data is written
            removes = [bb for bb, s, c in L.str_args(fn, ["Dictionary::remove"]) if s == "Filter"]
            removed_when_skipped = False
            if conditional and callee_sets and removes:
                # correlated branches on one configuration field: evaluate both valuations path-sensitively (P9b)
                cfg_fields = set()
                for b0, blk in enumerate(fn.blocks):
                    if blk[1][0] == "sw":
                        for st in blk[0]:
                            for o in FL.rvalue_operands(st[2]):
                                pl = FL.op_place(o)
                                if pl and pl[1] and any(isinstance(x, list) and x[0] == "f" and x[2] == "config" for x in pl[1]):
                                    cfg_fields.add(pl[1][-1][2] if isinstance(pl[1][-1], list) and pl[1][-1][0] == "f" else None)
                cfg_fields.discard(None)
                for fld in sorted(cfg_fields):
                    for v in (False, True):
                        pv = (lambda pl, _f=fld, _v=v: _v if isinstance(pl[1][-1], list) and pl[1][-1][0] == "f" and pl[1][-1][2] == _f else None)
                        if cb in CF.reachable_assuming(fn, place_value=pv):
                            continue
                        # this valuation skips compression: the data must not be written before the removal
                        if not (set(data_writes) & CF.reachable_assuming(fn, place_value=pv, avoid=removes)):
                            removed_when_skipped = True
            if removed_when_skipped:
                ctx.ok("R2", key, "every path that skips compression removes the /Filter entry the dictionary was created with",
                       fn.where(cb))
            elif conditional and callee_sets:
                ctx.violation("R2", key, "the stream data is compressed only on one branch (configuration `compress_streams`), but the "
                              "dictionary comes from %s which sets /Filter /FlateDecode unconditionally: with compression off the "
                              "cross-reference stream declares a filter its data does not have, and no reader can open the file"
                              % L.short(callee_sets[0][0]), fn.where(cb))
            elif conditional and any(all(g.dominates(fb, rb) for rb in g.return_blocks()) for fb in filt_sets):
                ctx.violation("R2", key, "/Filter is set unconditionally while the data is compressed conditionally", fn.where(cb))
            else:
                ctx.ok("R2", key, "filter entry and compression are paired", fn.where(cb))
    ctx.floor("R2", "`stream` keyword emission sites", stream_sites, 3)
    # R3 startxref
    for fid in (W + "write_trailer", W + "write_xref_stream"):
        fn = ctx.fn(fid, "R3")
        g = CF.cfg(fn)
        fl = FL.flow(fn)
        sx = [b for b, c, a, d in L.calls_to(fn, [W + "write_bytes"]) if (L.resolve_str_operand(fn, a[1]) or "").find("startxref") >= 0]
        key = "%s:startxref-operand" % L.short(fid)
        if not sx:
            ctx.violation("R3", key, "no `startxref` emission in %s" % L.short(fid), fn.where())
            continue
        nxt = None
        for bb, c, a, d in L.calls_to(fn, [W + "write_bytes"]):
            if bb != sx[0] and g.dominates(sx[0], bb) and (nxt is None or g.dominates(bb, nxt[0])):
                nxt = (bb, a)
        seen, drecs = fl.back_slice(FL.op_locals(nxt[1][1])) if nxt else (set(), set())
        if fid.endswith("write_trailer"):
            ok = 2 in seen      # the xref_position parameter
        else:
            # a local captured from current_position before the first write_bytes of the function
            ok = False
            for dd in drecs:
                if dd[0] == "stmt":
                    st = fn.blocks[dd[1]][0][dd[2]]
                    for o in FL.rvalue_operands(st[2]):
                        p = FL.op_place(o)
                        if p and any(isinstance(x, list) and x[0] == "f" and x[2] == "current_position" for x in p[1]):
                            first_wb = [bb for bb, c, a, d in L.calls_to(fn, [W + "write_bytes"])]
                            if all(g.dominates(dd[1], bb) for bb in first_wb):
                                ok = True
        if ok:
            ctx.ok("R3", key, "operand is the position captured before the section", fn.where(sx[0]))
        else:
            ctx.violation("R3", key, "the number written after `startxref` is not the position captured before the cross-reference "
                          "section was written", fn.where(sx[0]))
    wd = ctx.fn(W + "write_document", "R3")
    g = CF.cfg(wd)
    wt = L.calls_to(wd, [W + "write_trailer"])
    wx = L.calls_to(wd, [W + "write_xref", W + "write_xref_stream"])
    if ctx.floor("R3", "write_trailer call in write_document", len(wt), 1):
        fl = FL.flow(wd)
        seen, drecs = fl.back_slice(FL.op_locals(wt[0][2][1]))
        cap = [dd for dd in drecs if dd[0] == "stmt" and any(
            FL.op_place(o) and any(isinstance(x, list) and x[0] == "f" and x[2] == "current_position" for x in FL.op_place(o)[1])
            for o in FL.rvalue_operands(wd.blocks[dd[1]][0][dd[2]][2]))]
        if cap and all(g.dominates(cap[0][1], b) for b, c, a, d in wx):
            ctx.ok("R3", "write_document:xref-position-captured-first", "captured before write_xref*", wd.where(cap[0][1]))
        else:
            ctx.violation("R3", "write_document:xref-position-captured-first", "the position handed to write_trailer is not captured "
                          "before the cross-reference section is written", wd.where(wt[0][0]))
    # R4 both location maps
    for fid in (W + "write_xref", W + "write_xref_stream"):
        fn = ctx.fn(fid, "R4")
        reads = set()
        for f in L.group(facts, fid):
            for b, blk in enumerate(f.blocks):
                for st in blk[0]:
                    for pl in FL.rvalue_places(st[2]) + [FL.op_place(o) for o in FL.rvalue_operands(st[2]) if FL.op_place(o)]:
                        reads.update(p[2] for p in pl[1] if isinstance(p, list) and p[0] == "f")
        key = "%s:reads-both-location-maps" % L.short(fid)
        if {"xref_positions", "compressed_object_map"} <= reads:
            ctx.ok("R4", key, "reads xref_positions and compressed_object_map", fn.where())
        else:
            # acceptable only if write_document cannot reach this writer after buffering objects
            guarded = False
            sw_cfg = []
            for b, blk in enumerate(wd.blocks):
                for st in blk[0]:
                    for o in FL.rvalue_operands(st[2]):
                        p = FL.op_place(o)
                        if p and any(isinstance(x, list) and x[0] == "f" and x[2] == "use_object_streams" for x in p[1]):
                            sw_cfg.append(b)
            calls = [b for b, c, a, d in L.calls_to(wd, [fid])]
            flush = [b for b, c, a, d in L.calls_to(wd, [W + "flush_object_streams"])]
            if calls and flush and not any(calls[0] in g.reachable_from(fb) for fb in flush):
                guarded = True
            # also a normalisation `use_xref_streams |= use_object_streams` would be a write to config
            norm = [1 for f2, b2, ln in field_writes(facts, "WriterConfig", "use_xref_streams")] + \
                   [1 for f2, b2, ln in field_writes(facts, "WriterConfig", "use_object_streams") if (f2.parent or f2.id).startswith(W)]
            # or: the call is infeasible once compressed_object_map is non-empty (path-sensitive, P9b)
            if not guarded and calls:
                def assume(b, t, _wd=wd):
                    c = t[1]
                    if not isinstance(c, dict) or not L.is_call_to(c, ["is_empty", "len"]):
                        return None
                    r = L.recv_of(_wd, t[2])
                    if not r or "compressed_object_map" not in r[1]:
                        return None
                    # the map is filled by flush_object_streams: only a test made *after* the flush sees it non-empty
                    # (the flush itself is conditional on use_object_streams, so "after" = no flush can still follow the test)
                    if any(fb in g.reachable_from(b) for fb in flush) or not any(b in g.reachable_from(fb) for fb in flush):
                        return None
                    return False if (c.get("p") or "").endswith("is_empty") else "nz"
                if not (set(calls) & CF.reachable_assuming(wd, assume)):
                    guarded = True
            if guarded:
                ctx.ok("R4", key, "writer unreachable once objects were packed into object streams", fn.where())
            else:
                ctx.violation("R4", key, "%s never looks at compressed_object_map, and write_document reaches it after "
                              "flush_object_streams when `use_object_streams && !use_xref_streams` (both public WriterConfig fields, "
                              "nothing normalises them): every buffered object — catalog and page tree included — is missing from the "
                              "cross-reference table and /Size is too small" % L.short(fid), fn.where(),
                              {"fields_read": sorted(reads & {"xref_positions", "compressed_object_map", "buffered_objects"})})
    # R5 single allocator
    al = ctx.fn(W + "allocate_object_id", "R5")
    seeds = []
    for fn in facts.fns.values():
        if not fn.id.startswith("writer::"):
            continue
        for b, blk in enumerate(fn.blocks):
            for st in blk[0]:
                rv = st[2]
                pl = st[1]
                fs = [p[2] for p in pl[1] if isinstance(p, list) and p[0] == "f"]
                if fs and fs[-1] in ("next_stream_id", "next_object_id", "next_id") and rv[0] == "use" and rv[1][0] == "k" and isinstance(rv[1][2], int) and rv[1][2] > 1:
                    seeds.append((fn, b, fs[-1], rv[1][2]))
            for st in blk[0]:
                rv = st[2]
                if rv[0] == "agg" and rv[1][0] == "adt" and rv[1][1].startswith("writer::"):
                    adt = facts.adts.get(rv[1][1])
                    if adt:
                        names = [f[0] for f in adt["variants"][0]["fields"]]
                        for i, o in enumerate(rv[2]):
                            if i < len(names) and names[i] in ("next_stream_id", "next_object_id", "next_id") and o[0] == "k" and isinstance(o[2], int) and o[2] > 1:
                                seeds.append((fn, b, names[i], o[2]))
    # a constant-seeded counter is harmless when the ids it hands out are placeholders: nothing outside its own module
    # reads them back (the consumer overwrites the id from the writer's allocator before using it)
    live_seeds = []
    for fn, b, field, val in seeds:
        mod = (fn.parent or fn.id).rsplit("::", 2)[0]
        adt_fields = set()
        for an, a in facts.adts.items():
            if an.startswith(mod + "::") and a.get("variants"):
                for f in a["variants"][0]["fields"]:
                    if f[1].endswith("ObjectId") or f[1] == "u32":
                        adt_fields.add((an, f[0]))
        readers = []
        alloc_overwrites = []
        for f2 in facts.fns.values():
            owner2 = f2.parent or f2.id
            if owner2.startswith(mod + "::") or owner2.startswith("<" + mod + "::"):
                continue
            for b2, blk in enumerate(f2.blocks):
                for st in blk[0]:
                    for o in FL.rvalue_operands(st[2]):
                        pl = FL.op_place(o)
                        if pl and pl[1] and isinstance(pl[1][-1], list) and pl[1][-1][0] == "f" and pl[1][-1][2] == "stream_id" \
                                and mod.split("::")[-1] in f2.locals[pl[0]]:
                            readers.append(f2.where(b2))
                    pl = st[1]
                    if pl[1] and isinstance(pl[1][-1], list) and pl[1][-1][0] == "f" and pl[1][-1][2] == "stream_id" \
                            and mod.split("::")[-1] in f2.locals[pl[0]]:
                        srcs = L.slice_calls(f2, [l for o in FL.rvalue_operands(st[2]) for l in FL.op_locals(o)])
                        if any(L.is_call_to(cc, ["allocate_object_id"]) for _, cc in srcs):
                            alloc_overwrites.append(f2.where(b2))
                t2 = blk[1]
                if t2[0] == "call":
                    for o in t2[2]:
                        pl = FL.op_place(o)
                        if pl and pl[1] and isinstance(pl[1][-1], list) and pl[1][-1][0] == "f" and pl[1][-1][2] == "stream_id" \
                                and mod.split("::")[-1] in f2.locals[pl[0]]:
                            readers.append(f2.where(b2))
        if field == "next_stream_id" and alloc_overwrites and not readers:
            ctx.ok("R5", "allocator-seed:%s.%s" % (L.short(fn.parent or fn.id), field), "placeholder ids: the consumer overwrites "
                   "stream_id from allocate_object_id (%s) and never reads the seeded value" % alloc_overwrites[0], fn.where(b))
        else:
            live_seeds.append((fn, b, field, val))
    seeds_found = len(seeds)
    seeds = live_seeds
    if seeds:
        for fn, b, field, val in seeds:
            ctx.violation("R5", "allocator-seed:%s.%s" % (L.short(fn.parent or fn.id), field), "a second object-number counter `%s` is "
                          "seeded with the constant %d instead of the writer's allocator: its numbers collide with ordinary objects "
                          "once a document reaches that many objects, and until then force a cross-reference section of that size"
                          % (field, val), fn.where(b))
    elif not seeds_found:
        ctx.ok("R5", "allocator-seeds", "no constant-seeded second counter in writer::")
    # R7 objects that must not live in an object stream (ISO 32000-1 §7.5.7): the /Encrypt dictionary (and, under encryption,
    # individually encrypted members): the layering rule C05 R3, reported here for structural validity
    from . import C05
    sub = type(ctx)(ctx.prop, ctx.tier, ctx.facts, ctx.config)
    try:
        C05.run(sub)
    except Exception:
        pass
    r3 = [v for v in sub.violations if v["rule"] == "R3"]
    for v in r3:
        ctx.violation("R7", "objstm:" + v["key"], v["msg"], v["where"], v["witness"])
    if not r3:
        ctx.ok("R7", "objstm:encrypt-dictionary-and-encrypted-members-stay-out", "C05 R3 holds (nothing is buffered for an object stream "
               "while the document is encrypted)", wd.where())
    # R6 tokens
    readers = C09.check_readers(ctx)
    C09.check_serializers(ctx, readers)
    check_format_sites(ctx, "R6")


def check_format_sites(ctx, rule, module_filter=None, floor=30):
    facts = ctx.facts
    n = 0
    for s, i, ph in TK.name_format_sites(facts):
        fn = TK._owner_fn(facts, s)
        if fn is None:
            continue
        owner = fn.parent or fn.id
        if module_filter and not module_filter(owner):
            continue
        skip = [r for m, r in NON_EMISSION_MODULES.items() if owner.startswith(m) or owner.startswith("<" + m)]
        dest = TK.format_site_dest(facts, fn, s)
        if skip or dest in ("error", "trace", "formatter"):
            continue
        cl = TK.classify_format_arg(facts, fn, s, ph)
        n += 1
        arg = s["args"][ph["arg"]]["src"] if ph["arg"] >= 0 else "?"
        key = "name-site:%s:/{%s}" % (owner, " ".join(arg.split())[:40])
        where = "%s:%d" % (s["file"], s["line"])
        if cl["kind"] in ("int",):
            continue
        if cl["kind"] in ("static", "escaped"):
            ctx.ok(rule, key, "%s (%s)" % (cl["kind"], L.short(cl["via"])), where)
        elif cl["kind"] == "unknown":
            ctx.undecided_site(rule, key, cl["via"], where)
        else:
            ctx.violation(rule, key, "run-time text `%s` (%s) is formatted directly after `/` into a content/dictionary buffer without a name "
                          "escaper: a value containing whitespace, a delimiter or `#` yields an invalid or different name token"
                          % (arg, cl["type"]), where, {"via": cl["via"]})
    # names emitted through a name-escaping helper instead of a format site count towards the same population
    escs = getattr(facts, "_name_escapers", None)
    if escs is None:
        escs = set(k for k, f in facts.fns.items() if f.kind != "Closure" and len(f.blocks) < 80 and
                   any(p in ("&str", "&[u8]", "&std::string::String") for p in (f.params or [])) and
                   TK.is_name_escaper_by_constants(facts, k))
        # thin wrappers that hand their own text parameter to an escaper (`write_name(out, name)` -> `escape_pdf_name(name)`)
        for k, f in facts.fns.items():
            if k in escs or f.kind == "Closure" or len(f.blocks) > 40 or not any(p in ("&str", "&[u8]", "&std::string::String") for p in (f.params or [])):
                continue
            flw = FL.flow(f)
            for b, c, a, d, t, u in f.calls():
                if isinstance(c, dict) and c.get("r") in escs:
                    seen, _ = flw.back_slice([l for o in a for l in FL.op_locals(o)])
                    if any(1 <= x <= f.nargs and f.locals[x] in ("&str", "&[u8]", "&std::string::String") for x in seen):
                        escs = escs | {k}
        facts._name_escapers = escs
    # a name escaper works on the UTF-8 *bytes* of the name (ISO 32000-1 §7.3.5 / the writers' and readers' convention here):
    # a `char as u8` cast inside one, not dominated by the true edge of an `is_ascii*` test, truncates the code point of a
    # non-ASCII character to its low byte (`é` -> #E9, `图` -> #FE) — a different name, or an undecodable one
    # every name escaper's pass-through table: only regular characters other than `#` may be written as themselves
    for k in sorted(escs):
        if not TK.is_name_escaper_by_constants(facts, k):
            continue
        ps = TK.name_pass_set_hir(facts, k)
        if ps is None:
            ps = TK.name_pass_set_match(facts, k)
        key = "name-escaper:%s:pass-through-table" % k
        if ps is None:
            ctx.undecided_site(rule, key, "escaper recognised by its constants ('#', hex) but its table is not extractable", facts.fns[k].where())
            continue
        bad = ps - TK.REGULAR
        if bad:
            ctx.violation(rule, key, "the name escaper %s can write %s as themselves: inside a name `#` introduces an escape and the "
                          "others end the token, so a name containing them reads back as a different name (e.g. `scan#20a` -> `scan a`) "
                          "or breaks the object" % (L.short(k), ", ".join("0x%02X" % b for b in sorted(bad)[:8])), facts.fns[k].where(),
                          {"passed_non_regular": sorted(bad)[:40]})
        else:
            ctx.ok(rule, key, "passes only %d regular bytes" % len(ps), facts.fns[k].where())
    for k in sorted(escs):
        f = facts.fns[k]
        for g_ in L.group(facts, k):
            gg = CF.cfg(g_)
            guards = []
            for b, c, a, d in L.calls_matching(g_, lambda c: "is_ascii" in L.short(c.get("p") or "")):
                te, fe = L.bool_edges(g_, d[0])
                guards += te
            j = 0
            for b, blk in enumerate(g_.blocks):
                for st in blk[0]:
                    rv = st[2]
                    if rv[0] == "cast" and rv[1] == "IntToInt" and rv[3] == "u8" and rv[4] == "char":
                        j += 1
                        key = "name-escaper:%s:char-as-u8#%d" % (k, j)
                        w = CF.must_pass(g_, [b], [], guard_edges=guards) if guards else [0, b]
                        if w is None:
                            ctx.ok(rule, key, "cast reached only for ASCII characters", g_.where(b))
                        else:
                            ctx.violation(rule, key, "the name escaper %s casts a `char` to `u8` on a path not restricted to ASCII "
                                          "characters: a non-ASCII character of the name is truncated to the low byte of its code point "
                                          "(`é` -> #E9 instead of #C3#A9) instead of being escaped byte by byte in UTF-8 — the name "
                                          "written is not the name the reader (UTF-8) gets back" % L.short(k), g_.where(b))
    for fn in facts.fns.values():
        owner = fn.parent or fn.id
        if owner in escs or (module_filter and not module_filter(owner)):
            continue
        if [r for m, r in NON_EMISSION_MODULES.items() if owner.startswith(m) or owner.startswith("<" + m)]:
            continue
        k = 0
        for b, c, a, d, t, u in fn.calls():
            if isinstance(c, dict) and c.get("r") in escs:
                k += 1
                n += 1
                ctx.ok(rule, "name-site:%s:%s()#%d" % (owner, L.short(c["r"]), k), "name written through the escaper %s" % L.short(c["r"]),
                       fn.where(b))
    ctx.floor(rule, "name emission sites (`/{name}` format sites + name-escaper calls) feeding buffers", n, floor)
