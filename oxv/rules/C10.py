"""C10 — text given through the API reads back unchanged.

 R1 text-string typing: at every site that stores `Object::String(x)` under a dictionary key that
    ISO 32000-1 types as *text string* (Title, Author, Subject, Keywords, Creator, Producer, Contents,
    T, TU, TM, NM, RC, Subj, Alt, ActualText, E, V/DV of text fields), `x` is either a compile-time literal or the
    result of a text-string encoder — a function that can emit the UTF-16BE byte-order mark FE FF, the
    necessary constant of any encoder able to represent arbitrary Unicode. A run-time Rust `String`
    stored directly is later emitted as raw UTF-8 bytes, which no reader decodes as text strings are
    defined (PDFDocEncoding or BOM-prefixed UTF-16BE).
 R2 the incremental writers route field values / note contents through an encoder of that kind.
 R3 the reader's text-string decoder recognises the FE FF mark the encoders emit.
Not decided: equality of the decoded text; PDFDocEncoding fidelity of the non-BOM branch (C25).
"""
from .. import lib as L
from .. import flow as FL

EXPLANATION = __doc__
TEXT_KEYS = {"Title", "Author", "Subject", "Keywords", "Creator", "Producer", "Contents", "T", "TU", "TM", "NM", "RC", "Subj",
             "Alt", "ActualText", "E", "V", "DV"}


def encoders(facts):
    """functions that mention both 0xFE and 0xFF byte constants next to each other (BOM emitters)"""
    out = set()
    for fid, fn in facts.fns.items():
        vals = [v for b, ty, v in FL.fn_consts(fn) if ty == "u8" and isinstance(v, int)]
        if 0xFE in vals and 0xFF in vals:
            out.add(fn.parent or fid)
        for b, ty, v in FL.fn_consts(fn):
            if isinstance(v, dict) and "b" in v and len(v["b"]) >= 2 and v["b"][0] == 0xFE and v["b"][1] == 0xFF:
                out.add(fn.parent or fid)
    return out


def run(ctx):
    facts = ctx.facts
    enc = encoders(facts)
    ctx.counts["bom_emitting_functions"] = len(enc)
    n = 0
    for fid, fn in sorted(facts.fns.items()):
        owner = fn.parent or fid
        if owner.startswith("parser::") or owner.startswith("verification::") or owner.startswith("<parser::"):
            continue
        sets = L.str_args(fn, ["objects::dictionary::Dictionary::set", "Dictionary::set"], argidx=1)
        if not sets:
            continue
        fl = FL.flow(fn)
        for b, key, c in sets:
            if key not in TEXT_KEYS:
                continue
            t = fn.term(b)
            val = t[2][2] if len(t[2]) > 2 else None
            if val is None:
                continue
            # the value must be an Object::String aggregate
            seen, drecs = fl.back_slice(FL.op_locals(val))
            is_string = False
            payload = []
            for d in drecs:
                if d[0] == "stmt":
                    rv = fn.blocks[d[1]][0][d[2]][2]
                    if rv[0] == "agg" and rv[1][0] == "adt" and rv[1][1].endswith("objects::primitive::Object") and rv[1][2] == "String":
                        is_string = True
                        payload = [l for o in rv[2] for l in FL.op_locals(o)]
                        lit_payload = [o for o in rv[2] if o[0] == "k"]
            if not is_string:
                continue
            n += 1
            k = "%s:/%s" % (owner, key)
            where = fn.where(b)
            ps, pd = fl.back_slice(payload) if payload else (set(), set())
            calls = fl.calls_in_slice(pd)
            from_encoder = [cc for bb, cc in calls if (cc.get("r") or "") in enc or (cc.get("r") or "").split("::{")[0] in enc]
            dynamic = [cc for bb, cc in calls if not L.is_call_to(cc, ["to_string", "into", "from", "to_owned", "clone", "as_str", "deref", "format", "new_display", "new", "as_ref", "borrow"])
                       and not (cc.get("p") or "").startswith("core::fmt::rt::") and not (cc.get("p") or "").startswith("std::fmt::Arguments")]
            reads_state = any(d[0] == "arg" for d in pd) or any(
                d[0] == "stmt" and any(FL.op_place(o) and FL.op_place(o)[1] for o in FL.rvalue_operands(fn.blocks[d[1]][0][d[2]][2])) for d in pd)
            if from_encoder or owner in enc:
                ctx.ok("R1", k, "value passes a text-string encoder (%s)" % L.short((from_encoder[0].get("r") if from_encoder else owner)), where)
            elif not reads_state and not dynamic:
                ctx.ok("R1", k, "compile-time literal", where, nontrivial=False)
            elif key in ("CreationDate", "ModDate"):
                continue
            else:
                ctx.violation("R1", k, "a run-time string is stored raw under the text-string key /%s: it is emitted as its UTF-8 bytes "
                              "between parentheses, so any non-ASCII text (e.g. `Résumé`, `日本語`) is read back as mojibake by conforming "
                              "readers — a text string must be PDFDocEncoded or FE FF + UTF-16BE" % key, where)
    ctx.floor("R1", "text-string `set` sites", n, 20)
    # R2 incremental writers
    for fid, what in (("writer::incremental_text_notes::pdf_text", "note contents"),):
        fn = ctx.fn(fid, "R2")
        if fid in enc:
            ctx.ok("R2", "%s:encoder" % L.short(fid), "emits FE FF + UTF-16BE", fn.where())
        else:
            ctx.violation("R2", "%s:encoder" % L.short(fid), "%s are not encoded as a text string" % what, fn.where())
    ff = [f for f in facts.fns.values() if f.id.startswith("writer::incremental_form_fill::")]
    ff_enc = [f.id for f in ff if (f.parent or f.id) in enc]
    vsets = []
    for f in ff:
        for b, s, c in L.str_args(f, ["PdfDictionary::insert"]):
            if s == "V":
                vsets.append((f, b))
    if ctx.floor("R2", "functions in incremental_form_fill", len(ff), 5):
        if ff_enc:
            ctx.ok("R2", "incremental_form_fill:value-encoder", "uses %s" % L.short(ff_enc[0]))
        else:
            ctx.violation("R2", "incremental_form_fill:value-encoder", "the incremental form filler has no text-string encoder (no FE FF "
                          "emitter in the module) although its sibling incremental_text_notes::pdf_text has one: a non-ASCII field value "
                          "is written as raw bytes", "writer::incremental_form_fill")
    # R3 decoder
    dec = [f for f in facts.fns.values() if ("decode_text_string" in f.id or "PdfString::to_text" in f.id or "decode_pdf_string" in f.id) and f.kind != "Closure"]
    if ctx.floor("R3", "text-string decoders", len(dec), 1):
        for f in dec:
            vals = set(v for g in L.group(facts, f.id) for b, ty, v in FL.fn_consts(g) if isinstance(v, int))
            bs = [v for g in L.group(facts, f.id) for b, ty, v in FL.fn_consts(g) if isinstance(v, dict) and "b" in v]
            if (0xFE in vals and 0xFF in vals) or any(x["b"][:2] == [0xFE, 0xFF] for x in bs):
                ctx.ok("R3", "%s:recognises-BOM" % L.short(f.id), "tests FE FF", f.where())
            else:
                ctx.undecided_site("R3", "%s:recognises-BOM" % L.short(f.id), "no FE FF constant in the decoder (may delegate)", f.where())
