"""C10 — text given through the API reads back unchanged.

 R0 central encoding: when every serialiser of the writer-side `Object` writes the payload of its
    String arm through a text-string encoder (one that can emit FE FF), a run-time `String` stored as
    `Object::String` is encoded at write time and R1 is discharged for all sites at once.

 R1 text-string typing: at every site that stores `Object::String(x)` under a dictionary key that
    ISO 32000-1 types as *text string* (Title, Author, Subject, Keywords, Creator, Producer, Contents,
    T, TU, TM, NM, RC, Subj, Alt, ActualText, E, V/DV of text fields), `x` is either a compile-time literal or the
    result of a text-string encoder — a function that can emit the UTF-16BE byte-order mark FE FF, the
    necessary constant of any encoder able to represent arbitrary Unicode. A run-time Rust `String`
    stored directly is later emitted as raw UTF-8 bytes, which no reader decodes as text strings are
    defined (PDFDocEncoding or BOM-prefixed UTF-16BE).
 R2 the incremental writers route field values / note contents through an encoder of that kind.
 R4 plain fast path: a function that encodes text either through a FE FF + UTF-16BE encoder or, on another path, returns
    it without one (the usual "ASCII stays as it is" shortcut) takes the plain path only through the true edge of an
    `is_ascii()` test: bytes 0x80..0xFF of a string without byte-order mark mean PDFDocEncoding to a reader, which is not
    Latin-1 (0xA0 is the Euro sign, 0x80..0x9F are punctuation, "þÿ" is read as a byte-order mark).
 S3 octal escapes emitted by the string escapers are three digits (rule C09 S3).
 R3 the reader's text-string decoder recognises the FE FF mark the encoders emit.
Not decided: equality of the decoded text; PDFDocEncoding fidelity of the non-BOM branch (C25).
"""
from .. import lib as L
from .. import flow as FL

EXPLANATION = __doc__
TEXT_KEYS = {"Title", "Author", "Subject", "Keywords", "Creator", "Producer", "Contents", "T", "TU", "TM", "NM", "RC", "Subj",
             "Alt", "ActualText", "E", "V", "DV"}


def encoders(facts):
    """functions that mention both 0xFE and 0xFF byte constants next to each other (BOM emitters)"""
    out = set()
    for fid, fn in facts.fns.items():
        byblk = {}
        for b, ty, v in FL.fn_consts(fn):
            if ty == "u8" and isinstance(v, int):
                byblk.setdefault(b, set()).add(v)
        if any({0xFE, 0xFF} <= vs for vs in byblk.values()):
            out.add(fn.parent or fid)
        for b, ty, v in FL.fn_consts(fn):
            if isinstance(v, dict) and "b" in v and len(v["b"]) >= 2 and v["b"][0] == 0xFE and v["b"][1] == 0xFF:
                out.add(fn.parent or fid)
    return out


def reaches_encoder(facts, fid, enc, depth=3):
    if fid in enc or fid.split("::{")[0] in enc:
        return True
    if depth == 0:
        return False
    return any(reaches_encoder(facts, c, enc, depth - 1) for c in facts.callees.get(fid, ()) if c in facts.fns)


def central_string_encoding(ctx, enc):
    """R0: do the serialisers of the writer-side `Object` encode the String arm as a text string?  Returns True when every one
    of them routes the String payload through a BOM-emitting encoder (then a raw `Object::String(text)` is encoded at write
    time and the per-site obligation R1 is discharged centrally)."""
    from .. import tokens as TK
    facts = ctx.facts
    sers = [(fn, m) for fn, m in TK.serializers(facts) if m["sty"].endswith("objects::primitive::Object")]
    if not ctx.floor("R0", "serialisers of objects::primitive::Object", len(sers), 3):
        return False
    allok = True
    for fn, m in sers:
        sname = "::".join(fn.id.split("::")[-2:])
        i = TK.arm_index(m, "String")
        if i is None:
            ctx.undecided_site("R0", "%s:String-arm" % sname, "no String arm found", fn.where())
            allok = False
            continue
        lo, hi = TK.arm_range(fn, m, i)
        local = TK.local_callees_in_lines(facts, fn, lo, hi)
        hit = [c for c in local if reaches_encoder(facts, c, enc)]
        if hit:
            ctx.ok("R0", "%s:String-arm" % sname, "String payload written through %s, which reaches a FE FF + UTF-16BE encoder" % L.short(hit[0]),
                   "%s:%d" % (m["file"], lo))
        else:
            allok = False
            ctx.note("serialiser %s writes Object::String payloads as raw bytes (no text-string encoder in its String arm)" % sname)
    return allok


def run(ctx):
    from . import C09
    C09.check_octal_escapes(ctx, "S3")
    facts = ctx.facts
    enc = encoders(facts)
    ctx.counts["bom_emitting_functions"] = len(enc)
    central = central_string_encoding(ctx, enc)
    n = 0
    for fid, fn in sorted(facts.fns.items()):
        owner = fn.parent or fid
        if owner.startswith("parser::") or owner.startswith("verification::") or owner.startswith("<parser::"):
            continue
        sets = L.str_args(fn, ["objects::dictionary::Dictionary::set", "Dictionary::set"], argidx=1)
        if not sets:
            continue
        fl = FL.flow(fn)
        for b, key, c in sets:
            if key not in TEXT_KEYS:
                continue
            t = fn.term(b)
            val = t[2][2] if len(t[2]) > 2 else None
            if val is None:
                continue
            # the value must be an Object::String aggregate
            seen, drecs = fl.back_slice(FL.op_locals(val))
            is_string = False
            payload = []
            for d in drecs:
                if d[0] == "stmt":
                    rv = fn.blocks[d[1]][0][d[2]][2]
                    if rv[0] == "agg" and rv[1][0] == "adt" and rv[1][1].endswith("objects::primitive::Object") and rv[1][2] == "String":
                        is_string = True
                        payload = [l for o in rv[2] for l in FL.op_locals(o)]
                        lit_payload = [o for o in rv[2] if o[0] == "k"]
            if not is_string:
                continue
            n += 1
            k = "%s:/%s" % (owner, key)
            where = fn.where(b)
            ps, pd = fl.back_slice(payload) if payload else (set(), set())
            calls = fl.calls_in_slice(pd)
            from_encoder = [cc for bb, cc in calls if (cc.get("r") or "") in enc or (cc.get("r") or "").split("::{")[0] in enc]
            dynamic = [cc for bb, cc in calls if not L.is_call_to(cc, ["to_string", "into", "from", "to_owned", "clone", "as_str", "deref", "format", "new_display", "new", "as_ref", "borrow"])
                       and not (cc.get("p") or "").startswith("core::fmt::rt::") and not (cc.get("p") or "").startswith("std::fmt::Arguments")]
            reads_state = any(d[0] == "arg" for d in pd) or any(
                d[0] == "stmt" and any(FL.op_place(o) and FL.op_place(o)[1] for o in FL.rvalue_operands(fn.blocks[d[1]][0][d[2]][2])) for d in pd)
            if central and not from_encoder:
                ctx.ok("R1", k, "stored as Object::String; every Object serialiser encodes non-ASCII String payloads as FE FF + UTF-16BE (R0)", where)
            elif from_encoder or owner in enc:
                ctx.ok("R1", k, "value passes a text-string encoder (%s)" % L.short((from_encoder[0].get("r") if from_encoder else owner)), where)
            elif not reads_state and not dynamic:
                ctx.ok("R1", k, "compile-time literal", where, nontrivial=False)
            elif key in ("CreationDate", "ModDate"):
                continue
            else:
                ctx.violation("R1", k, "a run-time string is stored raw under the text-string key /%s: it is emitted as its UTF-8 bytes "
                              "between parentheses, so any non-ASCII text (e.g. `Résumé`, `日本語`) is read back as mojibake by conforming "
                              "readers — a text string must be PDFDocEncoded or FE FF + UTF-16BE" % key, where)
    ctx.floor("R1", "text-string `set` sites", n, 20)
    # R2 incremental writers
    for fid, what in (("writer::incremental_text_notes::pdf_text", "note contents"),):
        fn = ctx.fn(fid, "R2")
        if reaches_encoder(facts, fid, enc):
            ctx.ok("R2", "%s:encoder" % L.short(fid), "emits FE FF + UTF-16BE (itself or through a shared encoder)", fn.where())
        else:
            ctx.violation("R2", "%s:encoder" % L.short(fid), "%s are not encoded as a text string" % what, fn.where())
    ff = [f for f in facts.fns.values() if f.id.startswith("writer::incremental_form_fill::")]
    ff_enc = [f.id for f in ff if (f.parent or f.id) in enc]
    # or: the value stored under /V is the result of a call that reaches an encoder
    for f in ff:
        flf = FL.flow(f)
        for b, s_, c in L.str_args(f, ["PdfDictionary::insert"]):
            if s_ != "V":
                continue
            t = f.term(b)
            seen, drecs = flf.back_slice([l for o in t[2][2:] for l in FL.op_locals(o)])
            for cb, cc in flf.calls_in_slice(drecs):
                r = cc.get("r") or ""
                if r in facts.fns and reaches_encoder(facts, r, enc):
                    ff_enc.append(r)
    vsets = []
    for f in ff:
        for b, s, c in L.str_args(f, ["PdfDictionary::insert"]):
            if s == "V":
                vsets.append((f, b))
    if ctx.floor("R2", "functions in incremental_form_fill", len(ff), 5):
        if ff_enc:
            ctx.ok("R2", "incremental_form_fill:value-encoder", "uses %s" % L.short(ff_enc[0]))
        else:
            ctx.violation("R2", "incremental_form_fill:value-encoder", "the incremental form filler has no text-string encoder (no FE FF "
                          "emitter in the module) although its sibling incremental_text_notes::pdf_text has one: a non-ASCII field value "
                          "is written as raw bytes", "writer::incremental_form_fill")
    # R4 plain fast path of encoders
    from .. import cfg as CF
    n4 = 0
    for fid, fn in sorted(facts.fns.items()):
        if fn.kind == "Closure" or not fn.ret or "Vec<u8>" not in fn.ret and "String" not in fn.ret and "PdfString" not in fn.ret:
            continue
        owner = fid
        if owner.startswith("verification::"):
            continue
        ecalls = [b for b, c, a, d, t, u in fn.calls() if isinstance(c, dict) and ((c.get("r") or "") in enc)
                  and any(p in ("&str", "&std::string::String") for p in (facts.fns[c["r"]].params or []))]
        if not ecalls or not any(p in ("&str", "&std::string::String") for p in (fn.params or [])):
            continue
        g = CF.cfg(fn)
        rets = g.return_blocks()
        if g.path(0, rets, avoid_blocks=ecalls) is None:
            continue            # every path encodes
        n4 += 1
        edges = []
        for b, c, a, d in L.calls_matching(fn, lambda c: L.short(c.get("p") or "") == "is_ascii"):
            te, fe = L.bool_edges(fn, d[0])
            edges += te
        key = "%s:plain-path-is-ascii-only" % L.short(fid)
        w = CF.must_pass(fn, rets, ecalls, guard_edges=edges)
        if w is None:
            ctx.ok("R4", key, "the path that skips the UTF-16BE encoder is taken only when is_ascii() holds", fn.where())
        else:
            ctx.violation("R4", key, "%s returns text without the FE FF + UTF-16BE encoding on a path that is not restricted to ASCII "
                          "(no `is_ascii()` true edge on it): the bytes 0x80..0xFF of a text string without byte-order mark are "
                          "PDFDocEncoding to every reader, not Latin-1 — U+00A0 reads back as the Euro sign, U+0085 as an ellipsis, "
                          "and a value starting with `þÿ` is taken for a byte-order mark" % L.short(fid), fn.where(w[-1] if w else None),
                          {"path_lines": [fn.line(x) for x in w][:10]})
    ctx.floor("R4", "text-string encoders with a plain fast path", n4, 1)
    # R3 decoder
    dec = [f for f in facts.fns.values() if ("decode_text_string" in f.id or "PdfString::to_text" in f.id or "decode_pdf_string" in f.id) and f.kind != "Closure"]
    if ctx.floor("R3", "text-string decoders", len(dec), 1):
        for f in dec:
            vals = set(v for g in L.group(facts, f.id) for b, ty, v in FL.fn_consts(g) if isinstance(v, int))
            bs = [v for g in L.group(facts, f.id) for b, ty, v in FL.fn_consts(g) if isinstance(v, dict) and "b" in v]
            if (0xFE in vals and 0xFF in vals) or any(x["b"][:2] == [0xFE, 0xFF] for x in bs):
                ctx.ok("R3", "%s:recognises-BOM" % L.short(f.id), "tests FE FF", f.where())
            else:
                ctx.undecided_site("R3", "%s:recognises-BOM" % L.short(f.id), "no FE FF constant in the decoder (may delegate)", f.where())
