"""C18 — page-tree navigation follows document order and inheritance.

 R1 cycle guards: every loop that follows /Kids or /Parent references and is not driven by a finite
    iterator (the flattening walk, the /Parent walk, the legacy index search) has a visited-set
    test or counter on every path to the object load.
 R2 document order: kids are pushed on the LIFO work stack through a reversed iterator at every
    push site (so pops come out in forward order) and leaves are only appended to the result.
 R3 nearest ancestor wins: while walking up /Parent an inheritable value is inserted only when
    neither the page nor a closer ancestor already has it; lookups read the node before the
    inherited dictionary.
 R4 the inheritable key table is exactly {Resources, MediaBox, CropBox, Rotate}.
 R5 count consistency: page count and page lookup derive from the same flat index.
 R6 indirect attribute values: each inheritable attribute is resolved before it is type-tested
    (sibling agreement: /Resources is resolved, so /MediaBox, /CropBox, /Rotate must be too).
Not decided: agreement with qpdf on malformed trees.
"""
from .. import lib as L
from .. import flow as FL
from .. import cfg as CF
from .. import cycles as CY

EXPLANATION = __doc__
PT = "parser::page_tree::PageTree::"
DOC = "parser::document::PdfDocument::<R>::"
LOADERS = ["get_object", "PdfReader::<R>::get_object", "PdfDocument::<R>::get_object", "resolve", "resolve_to_array", "resolve_kids"]
INHERITABLE = {"Resources", "MediaBox", "CropBox", "Rotate"}


def run(ctx):
    facts = ctx.facts
    flat = ctx.fn(PT + "flatten_page_tree", "anchor")
    inh = ctx.fn(DOC + "collect_inherited_attributes", "anchor")
    legacy = ctx.fn(DOC + "find_page_in_tree", "anchor")
    n = 0
    for fn in (flat, inh, legacy):
        n += CY.check_ref_loops(ctx, "R1", fn, LOADERS)
    ctx.floor("R1", "reference-following loops in page-tree walkers", n, 3)
    # R1b: on a LIFO stack filled in reverse, a node that is referenced twice must be claimed by its first occurrence in document
    # order, i.e. marked when it is popped (visited) — marking it when it is queued hands it to the occurrence pushed first, the last
    pt = [x for x in getattr(ctx, "push_time_loops", []) if x[0] == flat.id]
    if pt:
        ctx.violation("R1b", "flatten_page_tree:visited-marked-when-queued", "flatten_page_tree marks a node as visited when it is "
                      "queued (%s) rather than when it is popped: kids are queued in reverse on a LIFO stack, so a node referenced "
                      "more than once is claimed by its last occurrence and the flat page index no longer follows document order"
                      % L.short(pt[0][2]), flat.where(pt[0][1]))
    else:
        ctx.ok("R1b", "flatten_page_tree:visited-marked-when-queued", "the visited test is made when a node is popped", flat.where())
    # R2
    g = CF.cfg(flat)
    loops = g.loops()
    pops = L.calls_to(flat, ["Vec::<T, A>::pop"])
    if ctx.floor("R2", "work-stack pop in flatten_page_tree", len(pops), 1):
        stack = L.recv_of(flat, pops[0][2])
        pushes = [(b, c, a, d) for b, c, a, d in L.calls_to(flat, ["Vec::<T, A>::push"]) if L.recv_of(flat, a) and stack and L.recv_of(flat, a)[0] == stack[0]]
        ctx.floor("R2", "pushes onto the work stack", len(pushes), 2)
        for i, (b, c, a, d) in enumerate(pushes):
            key = "flatten:stack-push#%d:reversed" % i
            drv = None
            inl = [(h, body) for h, body in loops.items() if b in body]
            inl.sort(key=lambda x: len(x[1]))
            for h, body in inl:
                for bb in body:
                    t = flat.term(bb)
                    if t[0] == "call" and L.is_call_to(t[1], ["Iterator::next"]):
                        st = t[1].get("self") or ""
                        if drv is None and ("IntoIter" in st or "Iter<" in st or "Rev<" in st):
                            drv = st
                if drv:
                    break
            if drv is None:
                ctx.undecided_site("R2", key, "push not inside an iterator loop", flat.where(b))
            elif "Rev<" not in drv:
                ctx.violation("R2", key, "kids are pushed on the LIFO stack in forward order (%s): they are popped — and numbered — in "
                              "reverse document order" % drv[:80], flat.where(b))
            else:
                ctx.ok("R2", key, drv[:80], flat.where(b))
        # result vector only appended
        res = set()
        for b, blk in enumerate(flat.blocks):
            for st in blk[0]:
                rv = st[2]
                if st[1] == [0, []] and rv[0] == "agg" and rv[1][0] == "adt" and rv[1][2] == "Ok":
                    for o in rv[2]:
                        p = FL.op_place(o)
                        if p:
                            res.add(p[0])
        fl = FL.flow(flat)
        changed = True
        while changed:
            changed = False
            for b, blk in enumerate(flat.blocks):
                for st in blk[0]:
                    if st[1][0] in res and not st[1][1] and st[2][0] == "use":
                        p = FL.op_place(st[2][1])
                        if p and not p[1] and p[0] not in res:
                            res.add(p[0])
                            changed = True
        bad = []
        for b, c, a, d, t, u in flat.calls():
            p = c.get("p") or ""
            if p.startswith("std::vec::Vec::") or "slice::<impl [T]>" in p:
                r = L.recv_of(flat, a)
                if r and r[0] in res and L.short(p) in ("insert", "reverse", "sort", "sort_by", "sort_unstable", "swap", "remove", "swap_remove", "dedup", "retain", "rotate_left", "rotate_right", "truncate"):
                    bad.append((b, L.short(p)))
        if bad:
            for b, name in bad:
                ctx.violation("R2", "flatten:result:%s" % name, "the leaf list is re-ordered with %s" % name, flat.where(b))
        else:
            ctx.ok("R2", "flatten:result-append-only", "leaves only pushed")
    # R3 nearest ancestor
    ret_local = None
    for b, blk in enumerate(inh.blocks):
        for st in blk[0]:
            if st[1] == [0, []] and st[2][0] == "use":
                p = FL.op_place(st[2][1])
                if p and not p[1]:
                    ret_local = p[0]
    inserts = [(b, c, a, d) for b, c, a, d in L.calls_to(inh, ["PdfDictionary::insert"])]
    if ctx.floor("R3", "inherited.insert in collect_inherited_attributes", len(inserts), 1):
        cks = L.calls_to(inh, ["PdfDictionary::contains_key"])
        by_recv = {}
        for b, c, a, d in cks:
            r = L.recv_of(inh, a)
            te, fe = L.bool_edges(inh, d[0])
            who = "page" if (r and r[0] == 2) else ("inherited" if r and (r[0] == ret_local) else "other")
            p = FL.op_place(a[0])
            if who == "other" and p is not None:
                # receiver passed as a copy of the parameter
                seen, _ = FL.flow(inh).back_slice([p[0]])
                if 2 in seen and ret_local not in seen:
                    who = "page"
                elif ret_local in seen:
                    who = "inherited"
            by_recv.setdefault(who, []).extend(fe)
        for b, c, a, d in inserts:
            for who, msg in (("page", "the page itself already has the attribute"), ("inherited", "a closer ancestor already supplied it")):
                key = "inherit:insert-guard:%s" % who
                edges = by_recv.get(who, [])
                w = CF.must_pass(inh, [b], [], guard_edges=edges) if edges else [0]
                if w is not None:
                    ctx.violation("R3", key, "an inheritable value is inserted although %s: a farther ancestor overrides the nearer one"
                                  % msg, inh.where(b))
                else:
                    ctx.ok("R3", key, "insert dominated by !%s.contains_key" % who, inh.where(b))
    for fid in (DOC + "get_rectangle", DOC + "get_integer"):
        fn = ctx.fn(fid, "R3")
        gets = L.calls_to(fn, ["PdfDictionary::get"])
        key = "%s:node-before-inherited" % L.short(fid)
        ok = False
        for b, c, a, d in gets:
            r = L.recv_of(fn, a)
            p = FL.op_place(a[0])
            base = r[0] if r else (p[0] if p else None)
            # node is parameter 2 (after &self)
            if base == 2 or (p is not None and 2 in FL.flow(fn).back_slice([p[0]])[0] and 3 not in FL.flow(fn).back_slice([p[0]])[0]):
                # its result must be the receiver of or_else / or
                for bb, cc, aa, dd in L.calls_to(fn, ["Option::<T>::or_else", "Option::<T>::or"]):
                    if d[0] in FL.flow(fn).back_slice(FL.op_locals(aa[0]))[0]:
                        ok = True
        if ok:
            ctx.ok("R3", key, "node.get(key).or_else(inherited)", fn.where())
        else:
            ctx.violation("R3", key, "%s does not consult the node's own dictionary before the inherited one" % L.short(fid), fn.where())
    # R4 key table
    keys = set()
    for f in L.group(facts, inh.id):
        for b, ty, v in FL.fn_consts(f):
            if isinstance(v, dict) and "s" in v:
                keys.add(v["s"])
    keys = set(k for k in keys if k and k[0].isupper() and len(k) < 20 and " " not in k) - {"Parent"}
    if keys == INHERITABLE:
        ctx.ok("R4", "inheritable-keys", sorted(keys).__repr__(), inh.where())
    else:
        ctx.violation("R4", "inheritable-keys", "inheritable attribute set is %s, ISO 32000-1 Table 30 marks exactly %s as inheritable"
                      % (sorted(keys), sorted(INHERITABLE)), inh.where())
    # R5
    nf = ctx.fn(PT + "new_with_flat_index", "R5")
    gp = ctx.fn(PT + "get_page_ref", "R5")
    lens = L.calls_to(nf, ["Vec::<T, A>::len"])
    if lens:
        ctx.ok("R5", "count=len(flat index)", "page_count <- page_refs.len()", nf.where())
    else:
        ctx.violation("R5", "count=len(flat index)", "page_count is not derived from the length of the flat index", nf.where())
    reads = set()
    for b, blk in enumerate(gp.blocks):
        for st in blk[0]:
            for pl in FL.rvalue_places(st[2]):
                reads.update(p[2] for p in pl[1] if isinstance(p, list) and p[0] == "f")
    if "page_refs" in reads:
        ctx.ok("R5", "lookup-from-flat-index", "get_page_ref reads page_refs", gp.where())
    else:
        ctx.violation("R5", "lookup-from-flat-index", "get_page_ref does not read the flat index (reads %s)" % sorted(reads), gp.where())
    # R6 resolve before type test
    cp = ctx.fn(DOC + "create_parsed_page", "R6")
    resolved = {}
    for fid, attrs in ((DOC + "get_rectangle", ["MediaBox", "CropBox"]), (DOC + "get_integer", ["Rotate"])):
        fn = facts.fns[fid]
        has_resolve = any(L.calls_to(f, ["resolve", "PdfDocument::<R>::resolve", "PdfReader::<R>::resolve"]) for f in L.group(facts, fid))
        for a in attrs:
            resolved[a] = (has_resolve, fn)
    res_ok = any(L.calls_to(f, ["resolve", "PdfDocument::<R>::resolve"]) for f in L.group(facts, cp.id))
    resolved["Resources"] = (res_ok, cp)
    if any(v[0] for v in resolved.values()):
        for a, (ok, fn) in sorted(resolved.items()):
            key = "attr-resolved:" + a
            if ok:
                ctx.ok("R6", key, "value resolved before use", fn.where())
            else:
                ctx.violation("R6", key, "/%s is type-tested without being resolved while its sibling /Resources is: a page (or ancestor) "
                              "that gives /%s as an indirect reference — legal for any value — reads as if the attribute were absent"
                              % (a, a), fn.where())
