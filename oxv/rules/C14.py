"""C14 — RAG chunking is a faithful, budget-respecting partition.

 R1 budget honesty: a comparison with `max_tokens` that lets a chunk be emitted as *not oversized*
    must measure the joined text the chunk will contain (one count over the join) or be conditioned
    on the counter's additivity predicate; a sum of per-element counts in a function that never
    consults the predicate is refuted (BPE-style counters are not additive over the separator).
 R2 one separator: the literal that joins elements in the emitted chunk and the literal the budget
    path uses to build the measured text are the same constant.
 R3 heading carried: no chunk is built with a constant heading argument where a section heading is
    in scope (the heading argument is data-dependent).
 R4 determinism: no hash-ordered data reaches the returned chunk list; no clock/RNG reachable.
 R5 nearest preceding heading: in `ElementGraph::build` the loop that attaches an element to the title its heading names reads
    the heading -> title-index map that the *same* forward loop also fills, so the index it finds belongs to a title at or
    before the element (a map completed by an earlier pass yields the *last* title with that text; with repeated heading texts
    — "Notes", "Summary" — children attach to a later section and the graph chunker emits them out of order).
 R6 fragments leave in order: in `split_by_sentences` the output vector is fed through the accumulator `current`; a push of anything
    else (the sentence itself) inside the loop is reached only after the accumulator was flushed in that iteration (a push derived
    from `current`) or found empty (`current.is_empty()` true edge). Emitting a sentence past a non-empty accumulator puts it
    before the text that preceded it, and the accumulator goes on absorbing sentences that follow it.
Not decided: exactly-once coverage of elements, order, fragment concatenation (value-level).
"""
from .. import lib as L
from .. import flow as FL
from .. import cfg as CF
from .. import order as OR

EXPLANATION = __doc__
H = "pipeline::hybrid_chunking::HybridChunker::"


def run(ctx):
    r5_nearest_preceding(ctx)
    r6_fragments_in_order(ctx)
    facts = ctx.facts
    mk = ctx.fn(H + "make_chunk", "anchor")
    n = 0
    for fid in (H + "chunk", H + "chunk_with_graph"):
        fn = ctx.fn(fid, "R1")
        g = CF.cfg(fn)
        fl = FL.flow(fn)
        consults = any(L.calls_to(f, ["is_additive_over_whitespace_join"]) for f in L.group(facts, fid))
        for b, c, a, d in L.calls_to(fn, [H + "make_chunk"]):
            over = FL.op_const(a[3]) if len(a) > 3 else None
            if over is not False:
                continue
            n += 1
            key = "%s:not-oversized-chunk@budget" % L.short(fid)
            # comparisons with max_tokens that dominate the call
            summed = None
            compared = False
            for sb in g.dominators(b):
                t = fn.term(sb)
                if t[0] != "sw":
                    continue
                atoms = L.cond_atoms(fn, t[1])
                if not any("max_tokens" in x for x in atoms):
                    continue
                compared = True
                for st in fn.blocks[sb][0]:
                    rv = st[2]
                    if rv[0] == "bin" and rv[1] in ("Le", "Lt", "Gt", "Ge"):
                        for o in (rv[2], rv[3]):
                            for cb, cc, aa in L.value_slice_calls(fn, FL.op_locals(o)):
                                if L.is_call_to(cc, ["Iterator::sum", "Sum::sum", "Iterator::fold"]):
                                    summed = fn.where(cb)
            if summed and not consults:
                ctx.violation("R1", key, "%s marks a chunk as fitting the budget from a SUM of per-element token counts and never "
                              "consults `is_additive_over_whitespace_join()`: for a counter that is not additive over the `\\n` join "
                              "(every BPE tokenizer) the emitted chunk can exceed `max_tokens` while `oversized` is false"
                              % L.short(fid), summed)
            elif compared:
                ctx.ok("R1", key, "budget comparison measures the joined text / honours additivity", fn.where(b))
            else:
                ctx.ok("R1", key, "no budget comparison governs this call (decided by the caller)", fn.where(b), nontrivial=False)
    ctx.floor("R1", "make_chunk(.., oversized=false) calls", n, 2)
    # R2 separator
    sep_emit = [s for b, s, c in L.str_args(mk, ["join", "slice::<impl [S]>::join", "Join::join"])] or \
               [v["s"] for f in L.group(facts, mk.id) for b, ty, v in FL.fn_consts(f) if isinstance(v, dict) and v.get("s") in ("\n", " ", "\n\n", "")]
    ap = ctx.fn("pipeline::hybrid_chunking::append_element_text", "R2")
    seps = []
    for s in facts.fmt_sites_in(ap):
        lits = [p for p in s["tpl"] if isinstance(p, str)]
        seps += lits
    if sep_emit and seps:
        if sep_emit[0] == seps[0]:
            ctx.ok("R2", "separator-agreement", "both use %r" % sep_emit[0], ap.where())
        else:
            ctx.violation("R2", "separator-agreement", "make_chunk joins elements with %r but the budget path builds the measured text with "
                          "%r: the two measure different strings" % (sep_emit[0], seps[0]), ap.where())
    else:
        ctx.violation("R2", "separator-agreement", "separator literal not found (make_chunk: %r, append_element_text: %r)" % (sep_emit, seps), mk.where())
    # R3 heading argument
    k = 0
    for fid in (H + "chunk", H + "chunk_with_graph", H + "flush_buffer"):
        fn = facts.fns.get(fid)
        if fn is None:
            continue
        for b, c, a, d in L.calls_to(fn, [H + "make_chunk"]):
            k += 1
            key = "%s:heading-arg#%d" % (L.short(fid), k)
            if a[2][0] == "k":
                ctx.violation("R3", key, "make_chunk is called with a constant heading: the chunk loses the heading of its section", fn.where(b))
            else:
                ctx.ok("R3", key, "heading argument is data-dependent", fn.where(b))
    ctx.floor("R3", "make_chunk calls", k, 3)
    # R4 determinism
    OR.check_scope(ctx, "R4", [H + "chunk", H + "chunk_with_graph", "pipeline::graph::ElementGraph::build"],
                   scope_prefixes=["pipeline::hybrid_chunking", "pipeline::graph", "pipeline::token_counter", "pipeline::semantic_chunking"],
                   prims=["std::io::Write::write_all"], what="chunk list")


def r5_nearest_preceding(ctx):
    from .. import cfg as CF
    facts = ctx.facts
    fn = ctx.fn("pipeline::graph::ElementGraph::build", "R5")
    g = CF.cfg(fn)
    fl = FL.flow(fn)
    n = 0
    HM = "std::collections::HashMap::<K, V, S, A>::"
    for h, body in sorted(g.loops().items()):
        gets = [(b, L.recv_of(fn, fn.term(b)[2])) for b in body if fn.term(b)[0] == "call" and L.is_call_to(fn.term(b)[1], [HM + "get"])]
        stores = [b for b in body if fn.term(b)[0] == "call" and L.is_call_to(fn.term(b)[1], ["IndexMut::index_mut"])
                  and "Option<usize>" in (fn.locals[(L.recv_of(fn, fn.term(b)[2]) or (0, []))[0]])]
        if not gets or not stores:
            continue
        n += 1
        key = "build:parent-lookup-map-filled-in-same-pass"
        ok = True
        for gb, r in gets:
            if r is None:
                continue
            ins = [b for b in body if fn.term(b)[0] == "call" and L.is_call_to(fn.term(b)[1], [HM + "insert"])
                   and (L.recv_of(fn, fn.term(b)[2]) or (None,))[0] == r[0]]
            if not ins:
                ok = False
                ctx.violation("R5", key, "the loop at %s attaches each element to the title found in a heading -> index map that this loop "
                              "never writes: the map was completed by an earlier pass and holds the *last* title with each text, so with a "
                              "repeated heading text the children of the earlier section attach to the later one (a parent after its "
                              "child) and the graph chunker emits their text out of document order" % fn.where(h), fn.where(gb))
        if ok:
            ctx.ok("R5", key, "the map is filled by the same forward loop that reads it", fn.where(h))
    ctx.floor("R5", "parent-assigning loops in ElementGraph::build", n, 1)


def r6_fragments_in_order(ctx):
    from .. import cfg as CF
    fn = ctx.fn("pipeline::hybrid_chunking::split_by_sentences", "R6")
    g = CF.cfg(fn)
    fl = FL.flow(fn)
    names = fn.local_names()
    cur = [l for l, nme in names.items() if nme == "current"]
    frs = [l for l, nme in names.items() if nme == "fragments"]
    if not ctx.floor("R6", "accumulator `current` and output `fragments` in split_by_sentences", min(len(cur), len(frs)), 1):
        return
    loops = g.loops()
    pushes = []
    for b, c, a, d in L.calls_to(fn, ["Vec::<T, A>::push"]):
        r = L.recv_of(fn, a)
        if r and r[0] in frs:
            # the pushed value is `current` itself, or the result of a call handed (a reference to) `current`
            # (`mem::take(&mut current)`, `current.clone()`, `mem::replace(&mut current, ..)`)
            from_cur = False
            pl = FL.op_place(a[1])
            if pl is not None and not pl[1]:
                if pl[0] in cur:
                    from_cur = True
                for dd in fl.defs.get(pl[0], ()):
                    if dd[0] == "stmt":
                        rv = fn.blocks[dd[1]][0][dd[2]][2]
                        if rv[0] == "use" and FL.op_place(rv[1]) and FL.op_place(rv[1])[0] in cur:
                            from_cur = True
                    elif dd[0] == "call":
                        for o in fn.term(dd[1])[2]:
                            p2 = FL.op_place(o)
                            if p2 is not None and (p2[0] in cur or (set(cur) & fl.pts.get(p2[0], set()))):
                                from_cur = True
            pushes.append((b, from_cur))
    if not ctx.floor("R6", "pushes onto `fragments`", len(pushes), 2):
        return
    flush = [b for b, fc in pushes if fc]
    empt_edges = []
    for b, c, a, d in L.calls_to(fn, ["is_empty"]):
        r = L.recv_of(fn, a)
        if r and r[0] in cur and d:
            te, fe = L.bool_edges(fn, d[0])
            empt_edges += te
    n = 0
    for b, fc in pushes:
        body = [bd for h, bd in loops.items() if b in bd]
        if fc or not body:
            continue
        n += 1
        h = [h for h, bd in loops.items() if b in bd][0]
        key = "split_by_sentences:direct-push#%d:after-flush" % n
        w = CF.must_pass(fn, [b], flush, guard_edges=empt_edges, start=h)
        if w is None:
            ctx.ok("R6", key, "reached only after the accumulator was flushed or found empty", fn.where(b))
        else:
            ctx.violation("R6", key, "a value that does not come from the accumulator `current` is pushed onto the output while `current` "
                          "may still hold earlier sentences (no flush and no `current.is_empty()` on the way): it is emitted *before* the "
                          "text that preceded it, and `current` goes on absorbing the sentences that follow it — fragments no longer "
                          "concatenate back to the element in order", fn.where(b))
    if n == 0:
        ctx.ok("R6", "split_by_sentences:output-fed-through-accumulator", "every push inside the loop comes from `current`", fn.where())
