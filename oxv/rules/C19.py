"""C19 — damaged cross-reference data is reconstructed faithfully.

 R1 fallback wiring: every failure of the primary cross-reference parse reaches the recovery parser
    when recovery attempts are allowed, after a seek to the start of the file; the reader's
    constructors use that entry point.
 R2 the header scan is sorted by offset before every successful return and the latest definition of
    an object number wins without overriding slots already resolved (C04-R5).
 R3 trailer reconstruction keeps /Encrypt and /ID and sets /Root and /Size.
 R4 the header recogniser accepts a line only when its third token is exactly `obj`.
 R5 entry slots: in a classic cross-reference subsection the n-th entry *line* belongs to object `first + n` whether or not the line
    parses; the counter that is added to the subsection's first object number is incremented on every path from the entry
    parser back to the loop header (the failed-parse arm included). A counter advanced only on success files every entry after
    a damaged line one object number too low.
 R6 reconstructed entries keep the scanned generation: the cross-reference entries built from the scanned `N G obj` headers take their
    generation from the header, not from a constant (an object `5 2 obj` rebuilt as generation 0 makes `5 2 R` unresolvable).
Not decided: equality of every recovered object with the intact file.
"""
from .. import lib as L
from .. import flow as FL
from .. import cfg as CF

EXPLANATION = __doc__
X = "parser::xref::XRefTable::"


def run(ctx):
    r5_entry_slots(ctx)
    r6_generation_from_header(ctx)
    facts = ctx.facts
    po = ctx.fn(X + "parse_with_options", "anchor")
    g = CF.cfg(po)
    prim = L.calls_to(po, [X + "parse_with_incremental_updates_options"])
    rec = L.calls_to(po, [X + "parse_with_recovery_options"])
    seek = L.calls_to(po, ["std::io::Seek::seek"])
    if ctx.floor("R1", "primary parse call", len(prim), 1) and ctx.floor("R1", "recovery call", len(rec), 1):
        rb = rec[0][0]
        # recovery is reached from the Err edge of the primary result
        err_edges, ok_edges = L.discr_edges(po, prim[0][3][0], 1)
        reach_err = any(rb in g.reachable_from(t) for s, t in err_edges)
        if reach_err and not any(rb in g.reachable_from(t) for s, t in ok_edges):
            ctx.ok("R1", "fallback:on-primary-error", "recovery reachable exactly from the Err edge", po.where(rb))
        else:
            ctx.violation("R1", "fallback:on-primary-error", "the recovery parser is not wired to the failure of the primary parse", po.where(rb))
        # guard: depends on max_recovery_attempts only
        atoms = set()
        for sb in g.dominators(rb):
            t = po.term(sb)
            if t[0] == "sw":
                atoms |= L.cond_atoms(po, t[1])
        gate = [a for a in atoms if "max_recovery_attempts" in a]
        other = [a for a in atoms if ("lenient" in a or "strict" in a or "collect_warnings" in a)]
        if gate and not other:
            ctx.ok("R1", "fallback:gated-on-recovery-attempts", "gate: %s" % gate, po.where(rb))
        else:
            ctx.violation("R1", "fallback:gated-on-recovery-attempts", "recovery is gated on %s instead of the recovery-attempts setting: "
                          "a preset that allows recovery does not reconstruct a damaged cross-reference table" % sorted(other or atoms), po.where(rb))
        if seek and all(g.dominates(seek[0][0], rb) for _ in [0]) and any(FL.op_const(o) == 0 for b, blk in enumerate(po.blocks) for st in blk[0] for o in FL.rvalue_operands(st[2]) if st[2][0] == "agg" and st[2][1][0] == "adt" and "SeekFrom" in st[2][1][1]):
            ctx.ok("R1", "fallback:seek-to-start", "seek(Start(0)) before recovery", po.where(seek[0][0]))
        else:
            ctx.violation("R1", "fallback:seek-to-start", "the reader is not rewound to offset 0 before the recovery scan", po.where(rb))
    users = [f for f in facts.callers.get(po.id, ()) if f.startswith("parser::reader::PdfReader")]
    if users:
        ctx.ok("R1", "reader-uses-fallback-entry", sorted(users)[0])
    else:
        ctx.violation("R1", "reader-uses-fallback-entry", "PdfReader does not construct its cross-reference table through parse_with_options", po.where())
    # R2 via C04
    from . import C04
    sub = type(ctx)(ctx.prop, ctx.tier, ctx.facts, ctx.config)
    C04.run(sub)
    r5 = [v for v in sub.violations if v["rule"] == "R5"]
    for v in r5:
        ctx.violation("R2", v["key"], v["msg"], v["where"], v["witness"])
    ctx.counts["R2:C04-R5 instances"] = len([i for i in sub.instances if i["rule"] == "R5"])
    if not r5:
        ctx.ok("R2", "scan-sorted-latest-wins", "C04-R5 holds (%d instances)" % len([i for i in sub.instances if i["rule"] == "R5"]))
    # R3 trailer keys
    rf = ctx.fn(X + "parse_with_recovery_options", "R3")
    keys = set()
    for f in L.group(facts, rf.id):
        for b, ty, v in FL.fn_consts(f):
            if isinstance(v, dict) and "s" in v:
                keys.add(v["s"])
    for k in ("Encrypt", "ID", "Root", "Size"):
        if k in keys:
            ctx.ok("R3", "recovered-trailer:/%s" % k, "set")
        else:
            ctx.violation("R3", "recovered-trailer:/%s" % k, "the reconstructed trailer never carries /%s%s" %
                          (k, ": an encrypted file recovered from a damaged table is returned as ciphertext" if k == "Encrypt" else ""), rf.where())
    # R4 recogniser
    ph = ctx.fn("parser::xref::parse_obj_header_bytes", "R4")
    strs = [v["s"] for f in L.group(facts, ph.id) for b, ty, v in FL.fn_consts(f) if isinstance(v, dict) and "s" in v]
    from .. import bytepred as BP
    h = facts.hirfns.get(ph.id)
    if h is not None:
        # string literals compared with == in the source (promoted constants are opaque in MIR)
        for e in BP.find_all(h["body"], lambda x: x[0] == "bin" and x[1] in ("==", "!=")):
            for side in (e[2], e[3]):
                for l in BP.find_all(side, lambda y: y[0] == "lit" and isinstance(y[1], dict) and "s" in y[1]):
                    strs.append(l[1]["s"])
    eqs = [c for f in L.group(facts, ph.id) for b, c, a, d in L.calls_to(f, ["PartialEq::eq", "PartialEq::ne"])]
    if "obj" in strs and eqs:
        ctx.ok("R4", "header-recogniser:third-token==obj", "compares with \"obj\"", ph.where())
    else:
        ctx.violation("R4", "header-recogniser:third-token==obj", "the object-header recogniser does not compare the third token with `obj` "
                      "exactly (constants: %s): `endobj` lines or arbitrary text are taken for object headers" % strs[:4], ph.where())


def r5_entry_slots(ctx):
    from .. import cfg as CF
    from .. import flow as FL
    fn = ctx.fn("parser::xref::XRefTable::parse_traditional_xref_with_options", "R5")
    g = CF.cfg(fn)
    fl = FL.flow(fn)
    adds = [(b, a) for b, c, a, d in L.calls_to(fn, ["checked_add"]) if len(a) == 2]
    pe = [b for b, c, a, d in L.calls_to(fn, ["parse_xref_entry"])]
    if not ctx.floor("R5", "checked_add(first object number, slot) in the entry loop", len([x for x in adds if any(x[0] in body for body in g.loops().values())]), 1) \
            or not ctx.floor("R5", "parse_xref_entry call", len(pe), 1):
        return
    key = "entry-loop:slot-counter-advances-on-every-entry-line"
    for b, a in adds:
        loops = [(h, body) for h, body in g.loops().items() if b in body and pe[0] in body]
        if not loops:
            continue
        h, body = min(loops, key=lambda x: len(x[1]))
        # the slot operand: the argument that is not the subsection's first object number (it changes inside the loop)
        slot = None
        for o in a:
            pl = FL.op_place(o)
            if pl is None:
                continue
            seen, drecs = fl.back_slice([pl[0]], stop_at_calls=lambda c: True)
            incs = [dd for dd in drecs if dd[0] == "stmt" and dd[1] in body and fn.blocks[dd[1]][0][dd[2]][2][0] == "bin"
                    and fn.blocks[dd[1]][0][dd[2]][2][1].startswith("Add")]
            if incs:
                slot = (pl[0], sorted(set(dd[1] for dd in incs)))
        if slot is None:
            ctx.violation("R5", key, "the value added to the subsection's first object number is never incremented inside the entry loop",
                          fn.where(b))
            continue
        latches = [s_ for s_, hh in g.back_edges() if hh == h]
        outside = set(range(len(fn.blocks))) - set(body)
        w = g.path(pe[0], latches, avoid_blocks=set(slot[1]) | outside)
        if w is None:
            ctx.ok("R5", key, "the slot counter is incremented on every path from parse_xref_entry to the loop header", fn.where(slot[1][0]))
        else:
            ctx.violation("R5", key, "after an entry line has been read and handed to parse_xref_entry the loop can continue (through "
                          "line(s) %s) without advancing the counter that is added to the subsection's first object number: an "
                          "unparseable entry does not consume its slot, so every later entry of the subsection is filed one object "
                          "number too low and references resolve to the wrong objects" % sorted(set(fn.line(x) for x in w))[:8],
                          fn.where(w[0]), {"path_lines": [fn.line(x) for x in w][:12]})


def r6_generation_from_header(ctx):
    from .. import flow as FL
    facts = ctx.facts
    fn = ctx.fn("parser::xref::XRefTable::add_headers_latest_wins", "R6")
    adt = facts.adts.get("parser::xref::XRefEntry")
    names = [f[0] for f in adt["variants"][0]["fields"]] if adt else ["offset", "generation", "in_use"]
    gi = names.index("generation") if "generation" in names else 1
    aggs = []
    for f in L.group(facts, fn.id):
        for b, blk in enumerate(f.blocks):
            for st in blk[0]:
                rv = st[2]
                if rv[0] == "agg" and rv[1][0] == "adt" and rv[1][1] == "parser::xref::XRefEntry":
                    aggs.append((f, b, rv[2][gi]))
    if not ctx.floor("R6", "XRefEntry built in add_headers_latest_wins", len(aggs), 1):
        return
    for i, (f, b, op) in enumerate(aggs):
        key = "add_headers_latest_wins:entry#%d:generation-from-header" % (i + 1)
        if op[0] == "k":
            ctx.violation("R6", key, "a reconstructed cross-reference entry is given the constant generation %r instead of the generation "
                          "scanned from the object header: an object with a non-zero generation (`5 2 obj`, referenced as `5 2 R`) "
                          "cannot be resolved after reconstruction although the intact file resolves it" % (op[2],), f.where(b))
        else:
            ctx.ok("R6", key, "generation taken from a run-time value (the scanned header)", f.where(b))
