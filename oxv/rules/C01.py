"""C01 — reading any byte sequence never crashes, hangs or exhausts memory.

Scope: every function reachable (call graph, conservative edges for dyn calls) from the public
methods of the reader, the parsed document, parsed pages, stream decoding, the content parser, the
text extractor and the CMap parser, restricted to crate-local bodies.
 R1 arithmetic panics: every overflow / division assert of the debug build in scope whose operand is
    an integer parsed from the file (as_integer, str::parse, from_be_bytes, token payloads, fields
    assigned from those) must be dominated by a range check on that value or go through checked /
    saturating / wrapping arithmetic; products of type-bounded operands must fit the result type.
 R2 recursion: every call-graph cycle in scope passes a *cut point* — a function in which a depth guard
    (guard routine, counter field compared with a bound, in-progress set, bounded depth parameter)
    dominates every call back into the cycle; the component minus its cut points must be acyclic. A
    one-function cycle may instead be bounded by a type-tag exclusion.
 R3 reference-following loops: every loop in scope that loads indirect objects and is not driven by
    a finite iterator tests a visited set or a counter before each load.
 R4 scanner progress: every loop of the lexer, the content tokenizer, the CMap tokenizer and the
    recovery scanners advances its cursor (or consumes an element) on every path round the loop.
    Reader-driven loops (a `read`/`read_line`-style call that reports what it produced, no finite
    iterator) are simulated at end of input — count 0, empty slice, emptied buffer — with
    path-sensitive constant propagation: no back edge of the loop may remain reachable from the read
    (otherwise a truncated file makes the loop spin forever).
    Loops that run while a counter is below a declared count and draw their data from an entropy decoder (MQ / Huffman
    integers — a source that never reports end of input) advance that counter, pass a bound on it or on another
    loop-carried counter, or consume bounded input on every path back to their header.
 R5 decompression caps: no unbounded inflate anywhere; the limited reader's growth is dominated by
    its limit test (shared with C08-R5).
 R6 explicit panic sites (`unwrap`, `expect`, `panic!`, `unreachable!`, `assert!`) in scope are
    enumerated; each must be discharged by a recognised infallible producer or be listed with a reason.
 R7 allocation sizes: `with_capacity(n)`, `vec![x; n]`, `reserve(n)`, `resize(n, ..)` whose size is an untrusted integer (as in
    R1, carried through parameters: an argument that is untrusted and unbounded at some call site makes the parameter untrusted)
    are dominated by an ordered comparison of that value with an upper bound (not merely `< 0` / `> 0`).
 R8 offset indices: an index `a[i + k]` (k a positive constant) whose `i` is the variable of an integer range loop (`for i in lo..hi`,
    `(lo..hi).step_by(n)`) is dominated by an ordered comparison involving an addition on that `i`, or the range's bound was
    computed by a subtraction: the range alone keeps only `i` below the bound, so the last k positions read past the end (a
    truncated final row panics). Today's tree has no such site; the seeded change C01b is the positive example.
Not decided: wall-clock bounds, total allocation, panics depending on values of unknown provenance
(counted as undecided), arithmetic inside dependencies.
"""
from .. import lib as L
from .. import flow as FL
from .. import cfg as CF
from .. import arith as AR
from .. import cycles as CY

EXPLANATION = __doc__
ROOT_TYPES = ("parser::reader::PdfReader", "parser::document::PdfDocument", "parser::page_tree::ParsedPage", "parser::objects::PdfStream",
              "parser::content::ContentParser", "text::extraction::TextExtractor", "text::cmap::CMap", "parser::object_stream::ObjectStream",
              "parser::xref_stream::XRefStream", "parser::page_tree::PageTree")
SCOPE_PREFIX = ("parser::", "text::extraction", "text::cmap", "text::flat_reading_order", "text::graphics_state_stack", "text::encoding",
                "<parser::", "<text::extraction", "text::plaintext", "text::column_detection", "text::reading_order", "memory::cache")
LOADERS = ["get_object", "PdfReader::<R>::get_object", "PdfDocument::<R>::get_object", "resolve", "PdfReader::<R>::resolve", "PdfDocument::<R>::resolve",
           "resolve_to_array"]
# reviewed recursion whose depth is bounded by construction (one named cycle per row, with the reason)
RECURSION_ALLOW = {
    "recursion:resolve_decode_parms_entry": "depth is at most 2: the recursive call passes array_entry=true and the Array arm that recurses requires !array_entry",
}
# recursion over the nesting of an already-parsed object / already-built font record: bounded exactly when the
# cycle that builds that structure is bounded (checked below, so these are discharged conditionally)
BOUNDED_BY = {
    "recursion:collect_references": "parse",
    "recursion:decrypt_object_if_needed": "parse",
    "recursion:decode_text_with_font": "font",
}
EOF_ALLOW = {
}
PANIC_ALLOW = {
    "parser::reader::PdfReader::<R>::create_hierarchical_pages_tree:panic_fmt#1": "unreachable!() on the else-branch of `if let Dictionary = cache[key]` two statements after inserting a Dictionary under that key",
    "parser::reader::PdfReader::<R>::create_synthetic_pages_dict:panic_fmt#1": "same shape: the cache slot was filled with a Dictionary in the preceding statement",
    "parser::reader::slice_between:panic#1": "debug_assert on the two delimiter arguments, which are byte literals at every call site",
    "text::extraction::TextExtractor::merge_hyphenated_line_wraps_in_emission_order:expect#1": "result.last_mut() after `should_merge`, which is computed from result.last() being Some",
    "text::extraction::TextExtractor::merge_into_lines:unwrap#1": "lines.last_mut() on the `placed` branch, and `placed` is `lines.last_mut().is_some_and(..)`",
    "text::extraction::TextExtractor::process_operations:unwrap#1": "pending_actualtext.take() inside `if let Some(pending) = pending_actualtext.as_ref()`",
    "text::extraction::TextExtractor::process_operations:unwrap#2": "closed_entry.as_ref() where the pending run's stack_depth+1 == popped_depth implies an entry was popped (closed_entry is Some whenever popped_depth > 0)",
    "text::extraction::assign_row_ids:assert_failed#1": "debug_assert_eq on the length of a vector that receives exactly one push per input fragment",
    "text::extraction::cids_for_codes:panic#1": "unreachable!() for CidEncoding::Utf16Be after the function returned None for that encoding at its top",
    "text::extraction::cids_for_codes:panic#2": "same early return excludes Utf16Be",
    "text::flat_reading_order::cut_regions:unwrap#1": "column.unwrap() on the branch where choose_column was derived from column being Some",
    "text::flat_reading_order::cut_regions:unwrap#2": "section.unwrap() on the branch where choose_column is false, which requires section to be Some",
}


def scope_of(facts):
    roots = []
    for fid, fn in facts.fns.items():
        st = (fn.self_ty or "").split("<")[0]
        if fn.vis == "pub" and st in ROOT_TYPES:
            roots.append(fid)
    pred = facts.reach(roots)
    scope = sorted(f for f in pred if f.startswith(SCOPE_PREFIX))
    return roots, pred, scope


def run(ctx):
    facts = ctx.facts
    roots, pred, scope = scope_of(facts)
    ctx.counts["entry points"] = len(roots)
    ctx.counts["functions reachable"] = len(pred)
    ctx.counts["functions in scope"] = len(scope)
    ctx.floor("scope", "parser entry points", len(roots), 80)
    ctx.floor("scope", "functions in the parser-reachable scope", len(scope), 900)
    # ---- R1
    ar = AR.Arith(facts, scope)
    ctx.counts["R1:untrusted-returning functions"] = len(ar.ret_u)
    ctx.counts["R1:untrusted fields"] = len(ar.ufields)
    tally = {"discharged": 0, "undecided": 0, "refuted": 0}
    ordn = {}
    for fn, b, kind, cls, verdict, detail in ar.sites():
        tally[verdict] += 1
        owner = fn.parent or fn.id
        if verdict == "refuted":
            k0 = "%s:%s" % (owner, kind)
            ordn[k0] = ordn.get(k0, 0) + 1
            key = "%s#%d" % (k0, ordn[k0])
            ctx.violation("R1", key, "%s in %s: %s — input chosen by the file's author makes this arithmetic overflow; the debug build "
                          "(overflow checks on) panics here" % (kind, L.short(owner), detail), fn.where(b),
                          {"operands": [c[0] for c in cls], "call_path": facts.path_to(pred, owner)[-5:]})
        elif verdict == "discharged" and any(c[0] in ("U", "S") for c in cls):
            ctx.ok("R1", "%s:%s@L%d" % (owner, kind, fn.line(b) - fn.lo), "untrusted operand guarded / sanitised", fn.where(b))
    ctx.counts["R1:arithmetic asserts"] = sum(tally.values())
    ctx.counts["R1:discharged"] = tally["discharged"]
    ctx.counts["R1:undecided (unknown provenance)"] = tally["undecided"]
    ctx.undecided += tally["undecided"]
    ctx.floor("R1", "arithmetic asserts in scope", sum(tally.values()), 600)
    # ---- R7 allocation sizes
    na = 0
    ordn7 = {}
    for fn, b, nm, cls, g in ar.alloc_sites():
        na += 1
        owner = fn.parent or fn.id
        if cls[0] != "U":
            continue
        k0 = "%s:%s" % (owner, nm)
        ordn7[k0] = ordn7.get(k0, 0) + 1
        key = "alloc:%s#%d" % (k0, ordn7[k0])
        if g:
            ctx.ok("R7", key, "untrusted size compared with an upper bound first", fn.where(b))
        else:
            ctx.violation("R7", key, "%s allocates `%s(n)` with n taken from the file (%s) and no upper bound: a few bytes of input "
                          "(`/Length 9999999999999`) request terabytes and the process aborts in the allocator instead of returning an "
                          "error" % (L.short(owner), nm, cls[1]), fn.where(b), {"call_path": facts.path_to(pred, owner)[-5:]})
    ctx.floor("R7", "size-taking allocations in scope", na, 30)
    # ---- R8 offset indices
    n8 = 0
    ord8 = {}
    for fn, b, k, ok in AR.offset_index_sites(facts, scope):
        n8 += 1
        owner = fn.parent or fn.id
        ord8[owner] = ord8.get(owner, 0) + 1
        key = "index:%s:+%d#%d" % (owner, k, ord8[owner])
        if ok:
            ctx.ok("R8", key, "offset index guarded by a comparison of the offset value", fn.where(b))
        else:
            ctx.violation("R8", key, "%s indexes with `i + %d` where no dominating comparison involves `i + %d` (or a `len - %d` bound): "
                          "a loop or test that only keeps `i` inside the slice lets the last %d position(s) read past the end — an "
                          "out-of-bounds panic on input whose length is not a multiple of the stride (e.g. a truncated final row)"
                          % (L.short(owner), k, k, k, k), fn.where(b))
    ctx.counts["R8:offset indices on range-loop variables"] = n8     # expected 0 on today's tree; seeded/C01b is the positive example
    ctx.floor("R1", "functions returning untrusted integers", len(ar.ret_u), 20)
    # ---- R2
    sub = type(ctx)(ctx.prop, ctx.tier, ctx.facts, ctx.config)
    n = CY.check_recursion(sub, "R2", scope, label="parser-reachable", allow=RECURSION_ALLOW)
    parse_unbounded = [v for v in sub.violations if "parse_array_with_options" in v["key"] or "parse_from_token" in v["key"]]
    font_unbounded = [v for v in sub.violations if v["key"] == "recursion:extract_font_info"]
    for i in sub.instances:
        if i["verdict"] != "refuted":
            ctx.ok("R2", i["key"], i["detail"], i["where"])
    def structural_descent(v):
        """a one-function cycle that recurses only on *components of its own parsed-object parameter* (elements of the array /
        values of the dictionary it was handed) and loads nothing by reference: its depth is the nesting depth of a value the
        object parser already built, so it is bounded exactly when the parser's cycle is (returns 'parse' or None)"""
        comp = (v.get("witness") or {}).get("cycle") or []
        fns_ = [facts.fns[c] for c in comp if c in facts.fns]
        main = [f for f in fns_ if f.kind != "Closure"]
        if len(main) != 1:
            return None
        f = main[0]
        ptypes = ("PdfObject", "PdfDictionary", "PdfArray")
        pidx = [i for i in range(1, f.nargs + 1) if any(t in f.locals[i] for t in ptypes)]
        if not pidx:
            return None
        for g_ in fns_:
            if L.calls_to(g_, ["get_object", "resolve", "resolve_reference", "load_object_from_disk"]):
                return None
        fl_ = FL.flow(f)
        nrec = 0
        for b, c, a, d, t, u in f.calls():
            if not isinstance(c, dict) or c.get("r") not in comp:
                continue
            nrec += 1
            ok_ = False
            for i in pidx:
                if i - 1 < len(a):
                    seen_, _ = fl_.back_slice(FL.op_locals(a[i - 1]))
                    if i in seen_:
                        ok_ = True
            if not ok_:
                return None
        return "parse" if nrec else None
    for v in sub.violations:
        dep = BOUNDED_BY.get(v["key"]) or structural_descent(v)
        if dep == "parse" and not parse_unbounded:
            ctx.ok("R2", v["key"], "recursion over the nesting of an already-parsed object; the object parser's own cycle is depth-guarded", v["where"])
        elif dep == "font" and not font_unbounded:
            ctx.ok("R2", v["key"], "recursion along the descendant chain built by extract_font_info, whose cycle is guarded", v["where"])
        elif dep:
            ctx.violation("R2", v["key"], v["msg"] + " (its depth is the nesting depth produced by the %s cycle, which is itself unguarded)" %
                          ("object-parser" if dep == "parse" else "font-record"), v["where"], v["witness"])
        else:
            ctx.violation("R2", v["key"], v["msg"], v["where"], v["witness"])
    ctx.counts.update(sub.counts)
    ctx.floor("R2", "recursive cycles in scope", n, 3)
    # ---- R3
    k = 0
    for fid in scope:
        fn = facts.fns[fid]
        if fn.kind == "Closure":
            continue
        if not L.calls_to(fn, LOADERS):
            continue
        if fid.endswith("::get_object") or fid.endswith("::resolve"):
            continue
        k += CY.check_ref_loops(ctx, "R3", fn, LOADERS, label=fid)
    ctx.floor("R3", "reference-following loops in scope", k, 4)
    # get_object's own re-entrancy guard
    go = ctx.fn("parser::reader::PdfReader::<R>::get_object", "R3")
    g = CF.cfg(go, thread=True)
    ld = L.calls_to(go, ["load_object_from_disk"])
    tests = []
    for b, c, a, d in L.calls_to(go, ["HashSet::<T, S, A>::contains"]):
        te, fe = L.bool_edges(go, d[0])
        tests += [s for s, t in te + fe]
    depth_cmp = []
    for b, blk in enumerate(go.blocks):
        for st in blk[0]:
            rv = st[2]
            if rv[0] == "bin" and rv[1] in ("Ge", "Gt", "Lt", "Le"):
                atoms = L.cond_atoms(go, ["c", [st[1][0], []]])
                if any("max_reconstruction_depth" in a for a in atoms):
                    depth_cmp.append(b)
    if ld and tests and depth_cmp and all(any(g.dominates(t, b) for t in tests) and any(g.dominates(t, b) for t in depth_cmp) for b, c, a, d in ld):
        ctx.ok("R3", "get_object:re-entrancy-guard", "load dominated by the being-loaded test and the depth comparison", go.where(ld[0][0]))
    else:
        ctx.violation("R3", "get_object:re-entrancy-guard", "an object load is reachable in get_object without passing both the "
                      "being-loaded membership test and the depth comparison: a reference cycle between objects recurses without bound",
                      go.where())
    # ---- R4
    scan = [facts.fns[f] for f in scope if facts.fns[f].kind != "Closure" and
            (("Lexer::<R>::" in f) or ("ContentTokenizer" in f) or f.endswith("tokenize_cmap") or f.endswith("scan_window_for_headers")
             or f.endswith("scan_object_headers_chunked") or f.endswith("read_pdf_line"))]
    more = [facts.fns[f] for f in ("text::cmap::tokenize_cmap",) if f in facts.fns and facts.fns[f] not in scan]
    n4 = CY.check_progress(ctx, "R4", scan + more, cursor_fields=("position", "pos", "byte_pos", "bit_pos"), allow={
        "skip_whitespace:loop@L1-progress": "skip_comment() is entered on a `%` byte, which its loop condition (`!= b'\\\\n'`) always consumes",
        "scan_object_headers_chunked:loop@L1-progress": "the inner fill loop `while filled < chunk_size` runs at least once per outer iteration because "
                                                        "chunk_size was clamped with max(1) and filled starts at 0, so every iteration performs a read; a "
                                                        "zero-byte read sets eof and leaves the loop (path-insensitive artefact)",
    })
    ctx.floor("R4", "scanner loops", n4, 15)
    # R4c decoding loops fed by an entropy decoder make progress on their own
    n4c = CY.check_entropy_loops(ctx, "R4", scope)
    ctx.floor("R4", "entropy-driven counter loops", n4c, 4)
    # R4b end-of-input tests of reader-driven loops
    n4b = CY.check_eof_tests(ctx, "R4", scope, allow=EOF_ALLOW)
    ctx.floor("R4", "reader-driven loops", n4b, 6)
    # ---- R5 (shared with C08)
    n5 = 0
    for fid, fn in facts.fns.items():
        for b, c, a, d, t, u in fn.calls():
            p = c.get("p") or ""
            if p in ("std::io::Read::read_to_end", "std::io::Read::read_to_string", "std::io::copy") and "flate2" in ((c.get("self") or "") + (c.get("a") or "")):
                n5 += 1
                ctx.violation("R5", "unbounded-inflate:%s" % (fn.parent or fid), "%s inflates without a size limit" % L.short(fn.parent or fid), fn.where(b))
    rl = ctx.fn("parser::filters::read_to_end_limited", "R5")
    gg = CF.cfg(rl, thread=True)
    grows = [b for b, c, a, d in L.calls_to(rl, ["Vec::<T, A>::extend_from_slice", "Vec::<T, A>::push", "Vec::<T, A>::resize"])]
    cm = []
    for b, blk in enumerate(rl.blocks):
        for st in blk[0]:
            rv = st[2]
            if rv[0] == "bin" and rv[1] in ("Gt", "Ge", "Lt", "Le"):
                cm.append(b)
    if grows and all(any(gg.dominates(c, b) for c in cm) for b in grows):
        ctx.ok("R5", "read_to_end_limited:growth-dominated-by-limit", "%d growth site(s)" % len(grows), rl.where(grows[0]))
    else:
        ctx.violation("R5", "read_to_end_limited:growth-dominated-by-limit", "the central inflate loop grows its buffer without a dominating "
                      "limit comparison (decompression bomb)", rl.where())
    ctx.ok("R5", "no-unbounded-inflate", "%d unbounded inflate call(s) in the crate" % n5) if n5 == 0 else None
    # ---- R6 explicit panic sites
    PAN = ("::unwrap", "::expect", "panic_fmt", "::panic", "unreachable_display", "panic_explicit", "assert_failed", "panic_display", "::unwrap_err",
           "panic_nounwind", "panic_str")
    n6 = 0
    ordp = {}
    for fid in scope:
        fn = facts.fns[fid]
        owner = fn.parent or fid
        for b, c, a, d, t, u in fn.calls():
            p = c.get("p") or ""
            if not (p.endswith(PAN) or "core::panicking" in p):
                continue
            n6 += 1
            k0 = "%s:%s" % (owner, L.short(p))
            ordp[k0] = ordp.get(k0, 0) + 1
            key = "%s#%d" % (k0, ordp[k0])
            why = discharge_panic(facts, fn, b, c, a)
            if why:
                ctx.ok("R6", key, why, fn.where(b))
            elif key in PANIC_ALLOW:
                ctx.ok("R6", key, "reviewed: " + PANIC_ALLOW[key], fn.where(b))
            else:
                ctx.violation("R6", key, "explicit panic site `%s` in parser-reachable code (%s): if its precondition can be broken by the "
                              "input the process aborts instead of returning an error" % (L.short(p), L.short(owner)), fn.where(b),
                              {"call_path": facts.path_to(pred, owner)[-5:]})
    ctx.counts["R6:panic sites"] = n6


def discharge_panic(facts, fn, b, c, args):
    """recognised infallible producers"""
    p = c.get("p") or ""
    fl = FL.flow(fn)
    if p.endswith("::unwrap") or p.endswith("::expect"):
        calls = L.slice_calls(fn, FL.op_locals(args[0]))
        names = [L.short(cc.get("p") or "") for _, cc in calls]
        a = c.get("a") or ""
        # write!/writeln! into String / Vec<u8>
        if any(n in ("write_fmt", "write_str", "write_all") for n in names) and any(("std::string::String" in (cc.get("a") or "") or "Vec<u8>" in (cc.get("a") or "") or "String as" in (cc.get("a") or "")) for _, cc in calls):
            return "write! into an in-memory buffer cannot fail"
        if "from_digit" in names:
            return "char::from_digit of a masked nibble"
        if any(n in ("try_into", "try_from") for n in names) and any(n in ("get", "chunks_exact", "len", "index") for n in names):
            return "fixed-size slice conversion after a length check"
        if "lock" in names or "read" in names and "RwLock" in a or "write" in names and "RwLock" in a:
            return None
        if any(n == "new" and "Regex" in (cc.get("a") or "") for n, (_, cc) in zip(names, calls)):
            return "regex literal compiled from a constant pattern"
        if any(n in ("checked_add", "checked_sub") for n in names):
            return None
    return None
