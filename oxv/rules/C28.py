"""C28 — outlines and destinations written are navigable as authored.

 R1 link key set: the item dictionary carries Title and Parent always and Prev, Next, First, Last,
    Count, Dest conditionally; the outline root carries First, Last, Count.
 R2 sign convention: the value stored under /Count is negated exactly on the closed-item path.
 R3 one index discipline (contradiction rule): the table of pre-allocated item ids is read through
    a cursor that is handed `&mut` to the recursive writer inside the loop — so it advances by the
    size of each subtree — and must therefore not also be indexed by an affine function of the
    loop counter or of a sibling count (`ids[i-1]`, `ids[first+i+1]`, `ids[len-1]`), which assumes
    unit stride: the two index expressions express contradictory beliefs about where sibling i lives.
 R4 stride counts every item: object ids are pre-allocated for all outline items depth-first, open or closed, so the
    function that advances the sibling cursor by the size of a subtree must count every descendant: neither it nor anything it
    calls may read the item's `open` flag (the *visible* count, which skips the children of closed items, is a different
    quantity that belongs in /Count only).
 R5 /Count covers the subtree: the value written under /Count of an item is computed, on the open and on the closed branch alike, by
    one of the item's recursive descendant counts; the number of *direct* children (`children.len()`) under-counts every item
    whose children have children.
Not decided: the counts' values, destination page resolution.
"""
from .. import lib as L
from .. import flow as FL
from .. import cfg as CF

EXPLANATION = __doc__
W = "writer::pdf_writer::PdfWriter::<W>::"


def run(ctx):
    r4_stride_counts_all(ctx)
    r5_count_is_recursive(ctx)
    facts = ctx.facts
    od = ctx.fn("structure::outline::outline_item_to_dict", "anchor")
    keys = set(s for b, s, c in L.str_args(od, ["Dictionary::set"]))
    for k in ("Title", "Parent", "Prev", "Next", "First", "Last", "Count", "Dest"):
        if k in keys:
            ctx.ok("R1", "item-key:/%s" % k, "set")
        else:
            ctx.violation("R1", "item-key:/%s" % k, "outline items are written without /%s: the outline cannot be navigated as authored" % k, od.where())
    wt = ctx.fn(W + "write_outline_tree", "anchor")
    rkeys = set(s for b, s, c in L.str_args(wt, ["Dictionary::set"]))
    for k in ("First", "Last", "Count"):
        if k in rkeys:
            ctx.ok("R1", "root-key:/%s" % k, "set")
        else:
            ctx.violation("R1", "root-key:/%s" % k, "the outline root is written without /%s" % k, wt.where())
    # R2 negation on the closed path
    g = CF.cfg(od, thread=True)
    negs = []
    for b, blk in enumerate(od.blocks):
        for st in blk[0]:
            rv = st[2]
            if rv[0] == "un" and rv[1] == "Neg":
                negs.append(b)
        t = blk[1]
        if t[0] == "assert" and t[3] == "OverflowNeg":
            negs.append(b)
    open_edges_true, open_edges_false = [], []
    for b, blk in enumerate(od.blocks):
        t = blk[1]
        if t[0] == "sw":
            atoms = L.cond_atoms(od, t[1])
            if "open" in atoms and len(atoms) == 1:
                for v, tgt in t[2]:
                    (open_edges_false if v == 0 else open_edges_true).append((b, tgt))
                if [v for v, _ in t[2]] == [0]:
                    open_edges_true.append((b, t[3]))
    if not negs:
        ctx.violation("R2", "count-sign:negated-when-closed", "no negation of the descendant count exists: closed items are written with a "
                      "positive /Count and open expanded in every viewer", od.where())
    elif not open_edges_false:
        ctx.violation("R2", "count-sign:negated-when-closed", "the negation is not conditioned on the item's `open` flag", od.where(negs[0]))
    else:
        # the negation must be reachable from a closed edge and not from (only) the open edge of the same test
        from_closed = any(nb in g.reachable_from(t) for s, t in open_edges_false for nb in negs)
        # the last test of `open` before the negation decides
        deciding = [(s, t) for s, t in open_edges_true if any(g.dominates(s, nb) for nb in negs)]
        neg_on_open = any(nb in g.reachable_from(t, avoid_blocks=[s2 for s2, _ in open_edges_false if s2 != s]) and
                          not any(nb in g.reachable_from(t2) for s2, t2 in open_edges_false if s2 == s)
                          for s, t in deciding for nb in negs)
        if from_closed and not neg_on_open:
            ctx.ok("R2", "count-sign:negated-when-closed", "Neg reachable from the !open edge", od.where(negs[0]))
        else:
            ctx.violation("R2", "count-sign:negated-when-closed", "the /Count value is negated on the open path (or never on the closed "
                          "path): ISO 32000-1 Table 153 requires a negative count exactly for closed items", od.where(negs[0]))
    # R3 index discipline
    for fid in (W + "write_outline_tree", W + "write_outline_item"):
        fn = ctx.fn(fid, "R3")
        fl = FL.flow(fn)
        g2 = CF.cfg(fn)
        loops = g2.loops()
        # cursors: locals (or deref of &mut usize params) whose address is passed to the recursive writer
        rec = L.calls_to(fn, [W + "write_outline_item"])
        cursor_locals = set()
        for b, c, a, d in rec:
            for op in a:
                p = FL.op_place(op)
                if p is None:
                    continue
                ty = fn.locals[p[0]]
                if ty in ("&mut usize", "&mut u32"):
                    cursor_locals.add(p[0])
                    cursor_locals |= set(fl.pts.get(p[0], ()))
        idx_calls = [(b, c, a, d) for b, c, a, d in L.calls_to(fn, ["std::ops::Index::index", "Index::index", "std::ops::IndexMut::index_mut"])
                     if "ObjectId" in (c.get("a") or "") and "Vec" in (c.get("a") or "")]
        kinds = {}

        def classify(op, depth=8):
            """'cursor' | 'affine' | 'const' | 'other' by following single-definition temporaries"""
            if op[0] == "k":
                return "const"
            p = FL.op_place(op)
            if p is None or depth == 0:
                return "other"
            l = p[0]
            if p[1] and p[1][0] == "*" and fn.locals[l] in ("&mut usize", "&mut u32", "&usize"):
                return "cursor" if l in cursor_locals else "other"
            if l in cursor_locals and not p[1]:
                return "cursor"
            ds = [d for d in fl.defs.get(l, ()) if d[0] == "stmt" and fn.blocks[d[1]][0][d[2]][1] == [l, []]]
            if len(ds) != 1:
                return "other"
            rv = fn.blocks[ds[0][1]][0][ds[0][2]][2]
            if rv[0] == "use":
                q = FL.op_place(rv[1])
                if q and q[1] and isinstance(q[1][0], list) and q[1][0][0] == "f" and q[1][0][1] == 0:
                    # .0 of a checked-arithmetic pair
                    return classify(["c", [q[0], []]], depth - 1)
                return classify(rv[1], depth - 1)
            if rv[0] == "bin" and (rv[1].startswith("Add") or rv[1].startswith("Sub")):
                return "affine"
            return "other"
        for b, c, a, d in idx_calls:
            kind = classify(a[1])
            kinds.setdefault(kind, []).append(b)
        ctx.counts["%s:index-kinds" % L.short(fid)] = {k: len(v) for k, v in kinds.items()}
        key = "%s:one-index-discipline" % L.short(fid)
        if "cursor" in kinds and "affine" in kinds and rec:
            ctx.violation("R3", key, "%s reads the pre-allocated id table both through the cursor it hands `&mut` to the recursive item "
                          "writer (which advances by the size of each subtree) and through %d affine index expression(s) of the loop "
                          "counter / sibling count: as soon as an earlier sibling has children, /Prev, /Next and /Last name the wrong "
                          "objects (ids are assigned in depth-first order, siblings are not adjacent)" % (L.short(fid), len(kinds["affine"])),
                          fn.where(kinds["affine"][0]), {"cursor_reads": len(kinds["cursor"]), "affine_reads": len(kinds["affine"])})
        elif not idx_calls:
            ctx.violation("R3", key, "no indexed reads of the id table found (anchor changed)", fn.where())
        else:
            ctx.ok("R3", key, "index kinds: %s" % {k: len(v) for k, v in kinds.items()}, fn.where())


def r4_stride_counts_all(ctx):
    from .. import flow as FL
    facts = ctx.facts
    fn = ctx.fn("writer::pdf_writer::PdfWriter::<W>::outline_sibling_indices", "R4")
    fl = FL.flow(fn)
    n = 0
    for b, c, a, d, t, u in fn.calls():
        f2 = facts.fns.get(c.get("r")) if isinstance(c, dict) else None
        if f2 is None or "OutlineItem" not in " ".join(f2.params or []) + (f2.self_ty or ""):
            continue
        n += 1
        key = "outline_sibling_indices:stride:%s" % L.short(f2.id)
        reads_open = None
        todo, seen = [f2.id], set()
        while todo:
            k = todo.pop()
            if k in seen or k not in facts.fns:
                continue
            seen.add(k)
            g = facts.fns[k]
            for bb, blk in enumerate(g.blocks):
                for st in blk[0]:
                    for pl in FL.rvalue_places(st[2]) + [FL.op_place(o) for o in FL.rvalue_operands(st[2]) if FL.op_place(o)]:
                        if any(isinstance(p, list) and p[0] == "f" and p[2] == "open" for p in pl[1]):
                            reads_open = g.where(bb)
            for c2 in facts.callees.get(k, ()):
                if c2.startswith("structure::outline::"):
                    todo.append(c2)
        if reads_open:
            ctx.violation("R4", key, "the sibling cursor is advanced by %s, which depends on the item's `open` flag (%s): ids are "
                          "pre-allocated for every item whether its parent is open or closed, so after a closed item with children the "
                          "/Next, /Prev, /First and /Last of the following siblings point into that item's hidden subtree"
                          % (L.short(f2.id), reads_open), fn.where(b))
        else:
            ctx.ok("R4", key, "the stride function counts every descendant (does not read `open`)", fn.where(b))
    ctx.floor("R4", "subtree-size calls in outline_sibling_indices", n, 1)


def r5_count_is_recursive(ctx):
    from .. import flow as FL
    facts = ctx.facts
    fn = ctx.fn("structure::outline::outline_item_to_dict", "R5")
    fl = FL.flow(fn)
    sets = [(b, c) for b, s_, c in L.str_args(fn, ["Dictionary::set"]) if s_ == "Count"]
    if not ctx.floor("R5", "/Count set in outline_item_to_dict", len(sets), 1):
        return
    b = sets[0][0]
    val = fn.term(b)[2][2]
    seen, drecs = fl.back_slice(FL.op_locals(val))
    calls = [L.short(cc.get("r") or cc.get("p") or "") for bb, cc in fl.calls_in_slice(drecs)]
    rec = [c for c in calls if c.startswith("count_")]
    direct = [c for c in calls if c == "len"]
    key = "outline_item_to_dict:count-from-recursive-descendant-count"
    # every assignment that feeds the value must come from a recursive count: look at the defs of the `count` local
    if direct or len(set(rec)) < 2:
        ctx.violation("R5", key, "the value written under /Count is computed from %s: a branch that uses the number of direct children "
                      "(or lacks one of the two subtree counts) writes a /Count that ignores grandchildren — a closed item whose "
                      "children have children claims fewer descendants than are written" % sorted(set(calls) - {"new", "from", "into"})[:6],
                      fn.where(b))
    else:
        ctx.ok("R5", key, "both branches use a recursive descendant count (%s)" % sorted(set(rec)), fn.where(b))
