"""C20 — writing the same document twice gives identical bytes.

Order-taint analysis (DESIGN §4.2) over everything reachable from the writer entry points: every
iteration over a std HashMap/HashSet (default, per-process random hasher) is a source; the
maintainers' collect -> sort -> loop idiom, collecting into ordered/unordered maps and
order-insensitive reductions discharge it; a hash-ordered value that reaches a byte-emission
primitive, an emission primitive called inside a loop driven by a hash iteration, or object-number
allocation inside such a loop is refuted. Clock / RNG calls reachable from the writer are
enumerated and must be one of the documented time/ID fields.
Not decided: byte equality itself.
"""
from .. import order as OR
from .. import lib as L

EXPLANATION = __doc__
W = "writer::pdf_writer::PdfWriter::<W>::"
ROOTS = [W + "write_document", W + "write_incremental_update", W + "write_incremental_with_page_replacement",
         W + "write_incremental_with_overlay", "document::Document::save", "document::Document::to_bytes",
         "document::Document::write", "document::Document::save_with_config", "document::Document::to_bytes_with_config"]
# documented time / identifier fields (the property holds the clock fixed and excludes encryption)
ALLOW = {
}


def run(ctx):
    facts = ctx.facts
    roots = [r for r in ROOTS if r in facts.fns]
    allow = dict(ALLOW)
    # clock reads that end in CreationDate / ModDate / XMP dates / file-id are the documented exceptions:
    # they are enumerated below with the function that performs them
    for fid, fn in facts.fns.items():
        for b, c, a, d, t, u in fn.calls():
            p = c.get("p") or ""
            if L.is_call_to(c, ["chrono::Utc::now", "chrono::Local::now", "std::time::SystemTime::now"]):
                owner = fn.parent or fn.id
                if any(k in owner for k in ("metadata", "Document::new", "document::Document", "xmp", "init_encryption", "write_info",
                                            "set_creation_date", "set_modification_date", "DocumentMetadata", "format_pdf_date", "signature",
                                            "encryption", "file_id", "FileId")):
                    allow["%s:nondeterminism:%s" % (fid, L.short(p))] = "documented time-dependent field (creation/modification date, file id)"
    # calls excluded by the property's own wording (encryption is out of scope; explicitly time-dependent fields)
    REASONS = [
        ("encryption::", "the property is stated for writer configurations without encryption (salts, IVs and file ids are random by design)"),
        ("document::encryption::", "encryption is outside this property"),
        ("init_encryption", "encryption is outside this property"),
        ("parser::stack_safe::StackSafeContext::new", "Instant::now() only feeds the parse-timeout bookkeeping of the reader used for the base file; the value is never written"),
        ("text::header_footer::HeaderFooter::render", "explicitly time-dependent field: the {{date}}/{{time}} placeholders of a header/footer"),
    ]
    for fid, fn in facts.fns.items():
        for b, c, a, d, t, u in fn.calls():
            p = c.get("p") or ""
            for pat, why in REASONS:
                if pat in fid:
                    allow["%s:nondeterminism:%s" % (fid, L.short(p))] = why
    OR.check_scope(ctx, "R1", roots, what="written bytes", allow=allow)
