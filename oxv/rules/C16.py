"""C16 — page operations preserve page content and geometry.

 R1 box information flow: when a parsed page is turned into a writable page, each of the four
    MediaBox components must reach the state the page dictionary is written from without passing
    through the width/height subtraction — i.e. the box origin must be representable and carried —
    and the CropBox must be carried at all. Checked as: the page constructor(s) store the lower-left
    components (or the whole box) somewhere, and `Page::to_dict` reads that state for /MediaBox and
    writes a /CropBox.
 R2 rotation composition: the angle written by the rotate operation is `rem_euclid(360)` of a sum that
    includes the page's existing rotation, and that sum cannot overflow (the existing rotation is an
    untrusted integer from the file).
 R3 copy paths agree: split, merge, extract, reorder and rotate all construct output pages through
    the same constructor, so R1 covers them all.
 R4 page selection: every variant of the page-range selector has its own arm and every index is
    compared with the page count before use.
Not decided: equality of decoded content/resources; permutation correctness.
"""
from .. import lib as L
from .. import flow as FL
from .. import cfg as CF
from .. import tables as T

EXPLANATION = __doc__
CTOR = "page::Page::from_parsed_with_content"


def run(ctx):
    facts = ctx.facts
    ctor = ctx.fn(CTOR, "anchor")
    td = ctx.fn("page::Page::to_dict", "anchor")
    # R1: which components of media_box flow into the constructed Page other than through Sub?
    fl = FL.flow(ctor)
    origin_carried = False
    crop_carried = False
    page_adt = facts.adts.get("page::Page")
    fields = [f[0] for f in page_adt["variants"][0]["fields"]] if page_adt else []
    ctx.counts["Page.fields"] = len(fields)
    has_box_field = [f for f in fields if "media_box" in f or "mediabox" in f or f in ("x0", "y0", "origin", "lower_left", "llx", "lly")]
    has_crop_field = [f for f in fields if "crop" in f]
    # to_dict: what feeds the MediaBox array?
    mb_inputs = set()
    for b, s, c in L.str_args(td, ["Dictionary::set"]):
        if s == "MediaBox":
            val = td.term(b)[2][2]
            seen, drecs = FL.flow(td).back_slice(FL.op_locals(val))
            for d in drecs:
                if d[0] == "stmt":
                    st = td.blocks[d[1]][0][d[2]]
                    for pl in FL.rvalue_places(st[2]) + [FL.op_place(o) for o in FL.rvalue_operands(st[2]) if FL.op_place(o)]:
                        mb_inputs.update(p[2] for p in pl[1] if isinstance(p, list) and p[0] == "f" and p[2])
    writes_crop = any(s == "CropBox" for b, s, c in L.str_args(td, ["Dictionary::set"]))
    ctx.counts["to_dict.MediaBox.inputs"] = sorted(mb_inputs)
    if has_box_field and (set(has_box_field) & mb_inputs):
        ctx.ok("R1", "page:mediabox-origin-carried", "Page stores %s and to_dict reads it" % has_box_field, td.where())
    else:
        ctx.violation("R1", "page:mediabox-origin-carried", "a page rebuilt from a parsed page keeps only width and height "
                      "(MediaBox[2]-MediaBox[0], MediaBox[3]-MediaBox[1]); `Page` has no field for the lower-left corner and "
                      "`to_dict` writes /MediaBox from %s — always `[0 0 w h]`: a source page whose box has a non-zero origin (e.g. "
                      "`[10 20 610 820]`) is written with its content shifted relative to the box" % sorted(mb_inputs), td.where())
    if has_crop_field and writes_crop:
        ctx.ok("R1", "page:cropbox-carried", "CropBox stored and written", td.where())
    else:
        ctx.violation("R1", "page:cropbox-carried", "the parsed page's /CropBox is dropped: `Page` has %s crop-box field and `to_dict` "
                      "%s /CropBox — split/merge/extract/rotate output shows the full media box instead of the cropped region"
                      % ("a" if has_crop_field else "no", "writes" if writes_crop else "never writes"), td.where())
    # R2 rotation
    cr = ctx.fn("operations::rotate::PageRotator::create_rotated_page", "R2")
    flr = FL.flow(cr)
    sr = L.calls_to(cr, ["page::Page::set_rotation"])
    if ctx.floor("R2", "set_rotation call in create_rotated_page", len(sr), 1):
        b, c, a, d = sr[0]
        calls = L.slice_calls(cr, FL.op_locals(a[1]))
        rem = [cc for bb, cc in calls if L.is_call_to(cc, ["rem_euclid"])]
        seen, drecs = flr.back_slice(FL.op_locals(a[1]))
        reads_rot = False
        for dd in drecs:
            if dd[0] == "stmt":
                st = cr.blocks[dd[1]][0][dd[2]]
                for pl in [FL.op_place(o) for o in FL.rvalue_operands(st[2]) if FL.op_place(o)]:
                    if any(isinstance(p, list) and p[0] == "f" and p[2] == "rotation" for p in pl[1]):
                        reads_rot = True
        if rem and reads_rot:
            ctx.ok("R2", "rotate:rem_euclid-of-sum-with-existing", "(existing + angle).rem_euclid(360)", cr.where(b))
        else:
            ctx.violation("R2", "rotate:rem_euclid-of-sum-with-existing", "the rotation written is not `rem_euclid(360)` of a sum that "
                          "includes the page's existing /Rotate (rem_euclid: %s, reads existing rotation: %s): negative or composed "
                          "angles come out wrong" % (bool(rem), reads_rot), cr.where(b))
        ov = [bb for bb in range(len(cr.blocks)) if cr.term(bb)[0] == "assert" and cr.term(bb)[3].startswith("Overflow:Add")]
        # an addition whose file-controlled operand was first reduced by rem_euclid(<const>) cannot overflow
        def reduced(op):
            pl = FL.op_place(op)
            if pl is None:
                return True
            seen0, dr0 = flr.back_slice([pl[0]])
            reads = False
            for dd in dr0:
                if dd[0] == "stmt":
                    st0 = cr.blocks[dd[1]][0][dd[2]]
                    for q in [FL.op_place(o) for o in FL.rvalue_operands(st0[2]) if FL.op_place(o)]:
                        if any(isinstance(p, list) and p[0] == "f" and p[2] == "rotation" for p in q[1]):
                            reads = True
            if not reads:
                return True
            ds = [d0 for d0 in flr.defs.get(pl[0], ()) if d0[0] in ("stmt", "call")]
            if len(ds) == 1 and ds[0][0] == "stmt" and cr.blocks[ds[0][1]][0][ds[0][2]][2][0] == "use":
                return reduced(cr.blocks[ds[0][1]][0][ds[0][2]][2][1])
            if len(ds) == 1 and ds[0][0] == "call":
                t0 = cr.term(ds[0][1])
                if L.is_call_to(t0[1], ["rem_euclid"]) and len(t0[2]) == 2 and t0[2][1][0] == "k" and isinstance(t0[2][1][2], int) \
                        and 0 < t0[2][1][2] < (1 << 20):
                    return True
            return False
        ov2 = []
        for bb in ov:
            adds = [st0 for st0 in cr.blocks[bb][0] if st0[2][0] == "bin" and st0[2][1].startswith("Add")]
            if not adds or not all(reduced(st0[2][2]) and reduced(st0[2][3]) for st0 in adds):
                ov2.append(bb)
        ov = ov2
        if ov:
            ctx.violation("R2", "rotate:sum-cannot-overflow", "`parsed_page.rotation + angle` is an unchecked i32 addition on the /Rotate "
                          "value read from the file: `/Rotate 2147483647` makes the rotate operation panic with an arithmetic overflow "
                          "in debug builds (and wrap in release)", cr.where(ov[0]))
        else:
            ctx.ok("R2", "rotate:sum-cannot-overflow", "no unchecked addition on an unreduced /Rotate value")
    # R3 one constructor for all copy paths
    users = {}
    for fid, fn in facts.fns.items():
        if not fid.startswith("operations::") and not fid.startswith("<operations::"):
            continue
        for b, c, a, d, t, u in fn.calls():
            r = c.get("r") or c.get("p") or ""
            if r.startswith("page::Page::from_parsed"):
                mod = (fn.parent or fid).split("::")[1]
                users.setdefault(mod, set()).add(L.short(r))
    ctx.counts["copy-path constructors"] = {k: sorted(v) for k, v in users.items()}
    for mod in ("split", "merge", "page_extraction", "reorder", "rotate"):
        key = "copy-path:%s" % mod
        if mod not in users:
            ctx.violation("R3", key, "operations::%s does not build its output pages through Page::from_parsed*" % mod, "operations::" + mod)
        elif users[mod] != {"from_parsed_with_content"}:
            ctx.violation("R3", key, "operations::%s builds pages through %s while the other operations use from_parsed_with_content: the "
                          "copy paths can disagree on what they preserve" % (mod, sorted(users[mod])), "operations::" + mod)
        else:
            ctx.ok("R3", key, "from_parsed_with_content")
    # R4 PageRange
    gi = ctx.fn("operations::PageRange::get_indices", "R4")
    ms = [m for m in facts.matches.get(gi.id, []) if "PageRange" in m["sty"]]
    if ctx.floor("R4", "PageRange match in get_indices", len(ms), 1):
        m = ms[0]
        byv = T.arms_by_variant(m)
        for v in ("All", "Single", "Range", "List"):
            if any(k.endswith("::" + v) for k in byv):
                ctx.ok("R4", "page-range:%s" % v, "own arm")
            else:
                ctx.violation("R4", "page-range:%s" % v, "PageRange::%s has no arm in get_indices" % v, gi.where())
    cmps = 0
    for f in L.group(facts, gi.id):
        for b, blk in enumerate(f.blocks):
            for st in blk[0]:
                rv = st[2]
                if rv[0] == "bin" and rv[1] in ("Ge", "Gt", "Lt", "Le"):
                    cmps += 1
    if cmps >= 4:
        ctx.ok("R4", "page-range:bounds-compared", "%d comparisons with the page count" % cmps, gi.where())
    else:
        ctx.violation("R4", "page-range:bounds-compared", "get_indices compares only %d index/bound pairs with the page count (Single, "
                      "Range start, Range end, List items need one each)" % cmps, gi.where())
