"""C16 — page operations preserve page content and geometry.

 R1 box information flow: when a parsed page is turned into a writable page, each of the four
    MediaBox components must reach the state the page dictionary is written from without passing
    through the width/height subtraction — i.e. the box origin must be representable and carried —
    and the CropBox must be carried at all. Checked as: the page constructor(s) store the lower-left
    components (or the whole box) somewhere, and `Page::to_dict` reads that state for /MediaBox and
    writes a /CropBox.
 R2 rotation composition: the angle written by the rotate operation is `rem_euclid(360)` of a sum that
    includes the page's existing rotation, and that sum cannot overflow (the existing rotation is an
    untrusted integer from the file).
 R3 copy paths agree: split, merge, extract, reorder and rotate all construct output pages through
    the same constructor, so R1 covers them all.
 R4 page selection: every variant of the page-range selector has its own arm and every index is
    compared with the page count before use.
 R5 stream joining: when the streams of a /Contents array are flattened into the single content buffer of the rebuilt page,
    a white-space byte is inserted after every stream (ISO 32000-1 §7.7.3.3 only guarantees that the division between streams
    falls on a token boundary): a loop that appends each stream also pushes a white-space constant; `concat()` / `flatten()`
    without a separator fuses the last token of one stream with the first of the next (`cm` + `0` -> `cm0`).
 R6 font-key disambiguation sees every existing key: the key list handed to `collision_font_mapping` (which both decides which keys to
    rename and treats the list as the set of names already taken) is the complete key list of the preserved font dictionary — no
    `filter` / `retain` / `take` in its derivation. With a filtered list a renamed key can land on an existing preserved key and one
    of the two fonts is dropped, so a text run is shown in another font.
Not decided: equality of decoded content/resources; permutation correctness.
"""
from .. import lib as L
from .. import flow as FL
from .. import cfg as CF
from .. import tables as T

EXPLANATION = __doc__
CTOR = "page::Page::from_parsed_with_content"


def run(ctx):
    r6_font_keys_complete(ctx)
    facts = ctx.facts
    ctor = ctx.fn(CTOR, "anchor")
    td = ctx.fn("page::Page::to_dict", "anchor")
    # R1: which components of media_box flow into the constructed Page other than through Sub?
    fl = FL.flow(ctor)
    origin_carried = False
    crop_carried = False
    page_adt = facts.adts.get("page::Page")
    fields = [f[0] for f in page_adt["variants"][0]["fields"]] if page_adt else []
    ctx.counts["Page.fields"] = len(fields)
    has_box_field = [f for f in fields if "media_box" in f or "mediabox" in f or f in ("x0", "y0", "origin", "lower_left", "llx", "lly")]
    has_crop_field = [f for f in fields if "crop" in f]
    # to_dict: what feeds the MediaBox array?
    mb_inputs = set()
    for b, s, c in L.str_args(td, ["Dictionary::set"]):
        if s == "MediaBox":
            val = td.term(b)[2][2]
            seen, drecs = FL.flow(td).back_slice(FL.op_locals(val))
            for d in drecs:
                if d[0] == "stmt":
                    st = td.blocks[d[1]][0][d[2]]
                    for pl in FL.rvalue_places(st[2]) + [FL.op_place(o) for o in FL.rvalue_operands(st[2]) if FL.op_place(o)]:
                        mb_inputs.update(p[2] for p in pl[1] if isinstance(p, list) and p[0] == "f" and p[2])
    writes_crop = any(s == "CropBox" for b, s, c in L.str_args(td, ["Dictionary::set"]))
    ctx.counts["to_dict.MediaBox.inputs"] = sorted(mb_inputs)
    if has_box_field and (set(has_box_field) & mb_inputs):
        ctx.ok("R1", "page:mediabox-origin-carried", "Page stores %s and to_dict reads it" % has_box_field, td.where())
    else:
        ctx.violation("R1", "page:mediabox-origin-carried", "a page rebuilt from a parsed page keeps only width and height "
                      "(MediaBox[2]-MediaBox[0], MediaBox[3]-MediaBox[1]); `Page` has no field for the lower-left corner and "
                      "`to_dict` writes /MediaBox from %s — always `[0 0 w h]`: a source page whose box has a non-zero origin (e.g. "
                      "`[10 20 610 820]`) is written with its content shifted relative to the box" % sorted(mb_inputs), td.where())
    if has_crop_field and writes_crop:
        ctx.ok("R1", "page:cropbox-carried", "CropBox stored and written", td.where())
    else:
        ctx.violation("R1", "page:cropbox-carried", "the parsed page's /CropBox is dropped: `Page` has %s crop-box field and `to_dict` "
                      "%s /CropBox — split/merge/extract/rotate output shows the full media box instead of the cropped region"
                      % ("a" if has_crop_field else "no", "writes" if writes_crop else "never writes"), td.where())
    # R5 joining of the content streams
    WS = (0x0A, 0x20, 0x0D, 0x09)
    flc = FL.flow(ctor)
    gc = CF.cfg(ctor)
    src = [b for b, c, a, d in L.calls_to(ctor, ["content_streams_with_document", "content_streams", "get_page_content_streams"])]
    if ctx.floor("R5", "content_streams call in the page constructor", len(src), 1):
        key = "page:content-streams-joined-with-whitespace"
        derived_calls = []
        for b, c, a, d, t, u in ctor.calls():
            if not isinstance(c, dict) or b in src:
                continue
            seen, drecs = flc.back_slice([l for o in a for l in FL.op_locals(o)])
            if any(dd[0] == "call" and dd[1] in src for dd in drecs):
                derived_calls.append((b, c, a))
        flat = [(b, c) for b, c, a in derived_calls if L.short(c.get("p") or "") in ("concat", "flatten", "flat_map")]
        joins = [(b, c, a) for b, c, a in derived_calls if L.short(c.get("p") or "") == "join"]
        verdict = None
        if flat:
            verdict = ("bad", "the streams are flattened with `%s()` and no separator" % L.short(flat[0][1]["p"]), ctor.where(flat[0][0]))
        elif joins:
            b, c, a = joins[0]
            sep = a[1] if len(a) > 1 else None
            sv = L.resolve_str_operand(ctor, sep) if sep is not None else None
            k = FL.op_const(sep) if sep is not None else None
            if (sv and sv.strip(" \n\r\t") == "" and sv) or (isinstance(k, int) and k in WS):
                verdict = ("ok", "join with a white-space separator", ctor.where(b))
            else:
                verdict = ("bad", "the streams are joined with a separator that is not white space", ctor.where(b))
        else:
            # loop form: the loop that consumes the streams' iterator appends each stream and pushes a white-space constant
            for h, body in sorted(gc.loops().items()):
                nx = [b for b in body if ctor.term(b)[0] == "call" and L.is_call_to(ctor.term(b)[1], ["Iterator::next"])
                      and "Vec<u8>" in (ctor.term(b)[1].get("self") or "")]
                if not nx:
                    continue
                ext = [b for b in body if ctor.term(b)[0] == "call" and L.is_call_to(ctor.term(b)[1], ["extend_from_slice", "extend", "append"])]
                wsp = [b for b in body if ctor.term(b)[0] == "call" and L.is_call_to(ctor.term(b)[1], ["push", "extend_from_slice", "push_str"])
                       and any((isinstance(FL.op_const(o), int) and FL.op_const(o) in WS) or
                               ((L.resolve_str_operand(ctor, o) or "x").strip(" \n\r\t") == "" and L.resolve_str_operand(ctor, o))
                               for o in ctor.term(b)[2][1:])]
                latches = [s_ for s_, hh in gc.back_edges() if hh == h]
                if ext and wsp and all(gc.path(e, latches, avoid_blocks=set(wsp) | (set(range(len(ctor.blocks))) - set(body))) is None for e in ext):
                    verdict = ("ok", "each stream appended in the loop is followed by a white-space byte", ctor.where(h))
                elif ext:
                    verdict = ("bad", "the loop appends each stream without a white-space byte after it", ctor.where(ext[0]))
        if verdict is None:
            ctx.undecided_site("R5", key, "no recognised joining idiom (loop / join / concat) over the content streams", ctor.where(src[0]))
        elif verdict[0] == "ok":
            ctx.ok("R5", key, verdict[1], verdict[2])
        else:
            ctx.violation("R5", key, "%s: the last token of one content stream fuses with the first token of the next when a stream "
                          "does not end in white space (`... cm` + `0 0 m` -> `cm0 0 m`), so the rebuilt page decodes to different "
                          "operators than the source page" % verdict[1], verdict[2])
    # R2 rotation
    cr = ctx.fn("operations::rotate::PageRotator::create_rotated_page", "R2")
    flr = FL.flow(cr)
    sr = L.calls_to(cr, ["page::Page::set_rotation"])
    if ctx.floor("R2", "set_rotation call in create_rotated_page", len(sr), 1):
        b, c, a, d = sr[0]
        calls = L.slice_calls(cr, FL.op_locals(a[1]))
        rem = [cc for bb, cc in calls if L.is_call_to(cc, ["rem_euclid"])]
        seen, drecs = flr.back_slice(FL.op_locals(a[1]))
        reads_rot = False
        for dd in drecs:
            if dd[0] == "stmt":
                st = cr.blocks[dd[1]][0][dd[2]]
                for pl in [FL.op_place(o) for o in FL.rvalue_operands(st[2]) if FL.op_place(o)]:
                    if any(isinstance(p, list) and p[0] == "f" and p[2] == "rotation" for p in pl[1]):
                        reads_rot = True
        if rem and reads_rot:
            ctx.ok("R2", "rotate:rem_euclid-of-sum-with-existing", "(existing + angle).rem_euclid(360)", cr.where(b))
        else:
            ctx.violation("R2", "rotate:rem_euclid-of-sum-with-existing", "the rotation written is not `rem_euclid(360)` of a sum that "
                          "includes the page's existing /Rotate (rem_euclid: %s, reads existing rotation: %s): negative or composed "
                          "angles come out wrong" % (bool(rem), reads_rot), cr.where(b))
        ov = [bb for bb in range(len(cr.blocks)) if cr.term(bb)[0] == "assert" and cr.term(bb)[3].startswith("Overflow:Add")]
        # an addition whose file-controlled operand was first reduced by rem_euclid(<const>) cannot overflow
        def reduced(op):
            pl = FL.op_place(op)
            if pl is None:
                return True
            if any(isinstance(p, list) and p[0] == "f" and p[2] == "rotation" for p in pl[1]):
                return False        # the file's /Rotate field itself, read without reduction
            seen0, dr0 = flr.back_slice([pl[0]])
            reads = False
            for dd in dr0:
                if dd[0] == "stmt":
                    st0 = cr.blocks[dd[1]][0][dd[2]]
                    for q in [FL.op_place(o) for o in FL.rvalue_operands(st0[2]) if FL.op_place(o)]:
                        if any(isinstance(p, list) and p[0] == "f" and p[2] == "rotation" for p in q[1]):
                            reads = True
            if not reads:
                return True
            ds = [d0 for d0 in flr.defs.get(pl[0], ()) if d0[0] in ("stmt", "call")]
            if len(ds) == 1 and ds[0][0] == "stmt" and cr.blocks[ds[0][1]][0][ds[0][2]][2][0] == "use":
                return reduced(cr.blocks[ds[0][1]][0][ds[0][2]][2][1])
            if len(ds) == 1 and ds[0][0] == "call":
                t0 = cr.term(ds[0][1])
                if L.is_call_to(t0[1], ["rem_euclid"]) and len(t0[2]) == 2 and t0[2][1][0] == "k" and isinstance(t0[2][1][2], int) \
                        and 0 < t0[2][1][2] < (1 << 20):
                    return True
            return False
        ov2 = []
        for bb in ov:
            adds = [st0 for st0 in cr.blocks[bb][0] if st0[2][0] == "bin" and st0[2][1].startswith("Add")]
            if not adds or not all(reduced(st0[2][2]) and reduced(st0[2][3]) for st0 in adds):
                ov2.append(bb)
        ov = ov2
        if ov:
            ctx.violation("R2", "rotate:sum-cannot-overflow", "`parsed_page.rotation + angle` is an unchecked i32 addition on the /Rotate "
                          "value read from the file: `/Rotate 2147483647` makes the rotate operation panic with an arithmetic overflow "
                          "in debug builds (and wrap in release)", cr.where(ov[0]))
        else:
            ctx.ok("R2", "rotate:sum-cannot-overflow", "no unchecked addition on an unreduced /Rotate value")
    # R3 one constructor for all copy paths
    users = {}
    for fid, fn in facts.fns.items():
        if not fid.startswith("operations::") and not fid.startswith("<operations::"):
            continue
        for b, c, a, d, t, u in fn.calls():
            r = c.get("r") or c.get("p") or ""
            if r.startswith("page::Page::from_parsed"):
                mod = (fn.parent or fid).split("::")[1]
                users.setdefault(mod, set()).add(L.short(r))
    ctx.counts["copy-path constructors"] = {k: sorted(v) for k, v in users.items()}
    for mod in ("split", "merge", "page_extraction", "reorder", "rotate"):
        key = "copy-path:%s" % mod
        if mod not in users:
            ctx.violation("R3", key, "operations::%s does not build its output pages through Page::from_parsed*" % mod, "operations::" + mod)
        elif users[mod] != {"from_parsed_with_content"}:
            ctx.violation("R3", key, "operations::%s builds pages through %s while the other operations use from_parsed_with_content: the "
                          "copy paths can disagree on what they preserve" % (mod, sorted(users[mod])), "operations::" + mod)
        else:
            ctx.ok("R3", key, "from_parsed_with_content")
    # R4 PageRange
    gi = ctx.fn("operations::PageRange::get_indices", "R4")
    ms = [m for m in facts.matches.get(gi.id, []) if "PageRange" in m["sty"]]
    if ctx.floor("R4", "PageRange match in get_indices", len(ms), 1):
        m = ms[0]
        byv = T.arms_by_variant(m)
        for v in ("All", "Single", "Range", "List"):
            if any(k.endswith("::" + v) for k in byv):
                ctx.ok("R4", "page-range:%s" % v, "own arm")
            else:
                ctx.violation("R4", "page-range:%s" % v, "PageRange::%s has no arm in get_indices" % v, gi.where())
    cmps = 0
    for f in L.group(facts, gi.id):
        for b, blk in enumerate(f.blocks):
            for st in blk[0]:
                rv = st[2]
                if rv[0] == "bin" and rv[1] in ("Ge", "Gt", "Lt", "Le"):
                    cmps += 1
    if cmps >= 4:
        ctx.ok("R4", "page-range:bounds-compared", "%d comparisons with the page count" % cmps, gi.where())
    else:
        ctx.violation("R4", "page-range:bounds-compared", "get_indices compares only %d index/bound pairs with the page count (Single, "
                      "Range start, Range end, List items need one each)" % cmps, gi.where())


def r6_font_keys_complete(ctx):
    facts = ctx.facts
    fn = ctx.fn("writer::pdf_writer::PdfWriter::<W>::preserved_font_disambiguation_map", "R6")
    fl = FL.flow(fn)
    calls = L.calls_to(fn, ["collision_font_mapping"])
    if not ctx.floor("R6", "collision_font_mapping call", len(calls), 1):
        return
    b, c, a, d = calls[0]
    key = "preserved_font_disambiguation_map:all-keys-passed"
    seen, drecs = fl.back_slice(FL.op_locals(a[0]))
    narrowing = [L.short(cc.get("p") or "") for bb, cc in fl.calls_in_slice(drecs)
                 if L.short(cc.get("p") or "") in ("filter", "filter_map", "retain", "take", "skip", "take_while", "skip_while", "step_by", "dedup")]
    if narrowing:
        ctx.violation("R6", key, "the key list handed to collision_font_mapping is narrowed by `%s`: the callee uses that list as the set "
                      "of names already taken when it picks a new name, so a renamed key (`OrigHelvetica`) can collide with an existing "
                      "preserved font of that name; one of the two is dropped and a text run is bound to a different font" % narrowing[0], fn.where(b))
    else:
        ctx.ok("R6", key, "the complete key list of the preserved font dictionary is passed", fn.where(b))
