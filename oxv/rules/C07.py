"""C07 — every supported stream filter decodes what a reference encoder encoded.

Structural clauses decided (each a necessary condition of the property):
 R1 predictor dispatch exhaustiveness: in `apply_predictor` each predictor value of ISO 32000-1
    Table 8 (2 = TIFF, 10..15 = PNG) selects a decoding arm that is neither the wildcard arm nor
    the pass-through arm shared with predictor 1.
 R2 filter dispatch: `Filter::from_name` has a distinct arm for each ISO filter name and
    `apply_filter_with_params` has its own decoding arm for each filter the property lists.
 R3 chain order and parameter pairing: in both `decode_stream*` functions the index handed to
    `get_filter_params` is the `enumerate` induction value of the forward loop over the filter
    list, and the input of filter i+1 is data-dependent on the output of filter i.
 R4 parameter relevance: each DecodeParms key of the specification is read by the decoder it
    belongs to and the value flows into a branch or into the row geometry.
 R5 PNG row filters: the per-row filter-type dispatch has a distinct arm for 0..4 and the
    routines using a left neighbour receive the computed bytes-per-pixel (not a constant).
 R6 LZW code width cap: the code width never exceeds 12 bits (ISO 32000-1 §7.4.4.2): every increment of the width variable in
    `decode_lzw_with_limit` is dominated by an ordered comparison of that variable with 12 (`< 12`, `>= 12`, `<= 11`, ..). A
    width that can reach 13 desynchronises the decoder from a conforming encoder once the table is full (≈ 4 KB of
    incompressible data).
 R7 no character is consumed and dropped: in the ASCII85 decoder a look-ahead `next()` whose value is only compared with a literal
    (`chars.next() == Some(&b'~')`) has consumed a character; on the branch where the comparison fails the decoder must stop
    (error / end of data) and not go on decoding — otherwise a data character is silently lost (`<` is a valid ASCII85 digit, so a
    stream whose encoding starts with `<` loses its second character).
 R8 CCITT coding schemes: the dispatch on /K (K = 0 one-dimensional, K > 0 mixed, K < 0 two-dimensional Group 4) gives each of the three
    schemes its own decoder; two arms that construct the same decoder decode one scheme as if it were the other.
Not decided: equality of decoded bytes with a reference decoder.
"""
from .. import lib as L
from .. import tables as T
from .. import flow as FL
from .. import cfg as CF

EXPLANATION = __doc__

F = "parser::filters::"
ISO_FILTERS = ["ASCIIHexDecode", "ASCII85Decode", "LZWDecode", "FlateDecode", "RunLengthDecode",
               "CCITTFaxDecode", "JBIG2Decode", "DCTDecode", "JPXDecode", "Crypt"]
SUPPORTED = ["FlateDecode", "LZWDecode", "ASCIIHexDecode", "ASCII85Decode", "RunLengthDecode", "CCITTFaxDecode"]


def r1(ctx):
    fid = F + "apply_predictor"
    ctx.fn(fid, "R1")
    ms = L.matches_in(ctx.facts, fid, sty="u32", include_closures=False)
    if not ctx.floor("R1", "predictor dispatch match in apply_predictor", len(ms), 1):
        return
    m = ms[0]
    wild = T.wildcard_arm(m)
    ident, _ = T.arm_for(m, 1)
    for v in [2, 10, 11, 12, 13, 14, 15]:
        arm, certain = T.arm_for(m, v)
        key = "apply_predictor:predictor=%d" % v
        where = "%s:%d" % (m["file"], m["line"])
        if arm is None:
            ctx.violation("R1", key, "predictor %d selects no arm" % v, where)
        elif arm == wild or arm == ident:
            which = "wildcard" if arm == wild else "pass-through (shared with predictor 1)"
            ctx.violation("R1", key,
                          "predictor value %d falls into the %s arm `%s`: data encoded with that predictor is "
                          "returned undecoded" % (v, which, L.arm_src(m["arms"][arm])), where,
                          {"match": m["fn"], "value": v, "arm": arm})
        elif not certain:
            ctx.undecided_site("R1", key, "arm selection depends on a guard", where)
        else:
            ctx.ok("R1", key, "arm %d: %s" % (arm, L.arm_src(m["arms"][arm])), where)


def r2(ctx):
    fid = F + "Filter::from_name"
    ctx.fn(fid, "R2")
    ms = [m for m in L.matches_in(ctx.facts, fid) if "str" in m["sty"]]
    if ctx.floor("R2", "name match in Filter::from_name", len(ms), 1):
        m = ms[0]
        wild = T.wildcard_arm(m)
        seen = {}
        for name in ISO_FILTERS:
            arm, certain = T.arm_for(m, name)
            key = "from_name:" + name
            where = "%s:%d" % (m["file"], m["line"])
            if arm is None or arm == wild:
                ctx.violation("R2", key, "filter name /%s has no arm of its own in Filter::from_name" % name, where)
                continue
            ctors = [p for p in T.expr_calls(m["arms"][arm]["body"])]
            body = m["arms"][arm]["src"]
            if body in seen.values():
                other = [n for n, b in seen.items() if b == body][0]
                ctx.violation("R2", key, "/%s and /%s map to the same filter value `%s`" % (name, other, body), where)
            else:
                ctx.ok("R2", key, body, where)
            seen[name] = body
    fid = F + "apply_filter_with_params"
    ctx.fn(fid, "R2")
    ms = [m for m in L.matches_in(ctx.facts, fid, include_closures=False) if m["sty"] == "parser::filters::Filter"]
    if ctx.floor("R2", "filter dispatch match in apply_filter_with_params", len(ms), 1):
        m = ms[0]
        wild = T.wildcard_arm(m)
        byv = T.arms_by_variant(m)
        where = "%s:%d" % (m["file"], m["line"])
        for name in SUPPORTED:
            key = "apply_filter_with_params:" + name
            arms = byv.get("parser::filters::Filter::" + name, [])
            if not arms or arms[0] == wild:
                ctx.violation("R2", key, "supported filter %s is not decoded by an arm of its own" % name, where)
                continue
            arm = m["arms"][arms[0]]
            calls = [c for c in T.expr_calls(arm["body"]) if c.startswith("parser::")]
            if not calls:
                ctx.violation("R2", key, "arm for %s calls no decoder: `%s`" % (name, L.arm_src(arm)), where)
            else:
                ctx.ok("R2", key, "decoders: %s" % ", ".join(sorted(set(L.short(c) for c in calls))), where)


def r3(ctx):
    for fname, consumers in (("decode_stream", ["apply_filter_with_params"]),
                             ("decode_stream_with_limit",
                              ["decode_flate_with_limit", "decode_ascii_hex_with_limit", "decode_ascii85_with_limit",
                               "decode_lzw_with_limit", "decode_run_length_with_limit"])):
        fid = F + fname
        fn = ctx.fn(fid, "R3")
        fl = FL.flow(fn)
        # the per-filter parameter getter: by name, or (after a rename) the crate-local function called here with an index
        # argument whose body reads /DecodeParms
        gp = L.calls_to(fn, ["get_filter_params"])
        if not gp:
            for b, c, args, dest, t, u in fn.calls():
                f2 = ctx.facts.fns.get(c.get("r")) if isinstance(c, dict) else None
                if f2 is not None and f2.id.startswith(F) and len(args) == 2 and (f2.params or [None, None])[1] == "usize" and \
                        "PdfDictionary" in (f2.ret or "") and \
                        ("DecodeParms" in L.keys_read_deep(ctx.facts, f2.id) | L.fn_strs(f2) or
                         {"DecodeParms", "DP"} & L.dict_key_sources(ctx.facts, fn, FL.op_locals(args[0]))):
                    gp.append((b, c, args, dest))
        if not ctx.floor("R3", "get_filter_params call in " + fname, len(gp), 1):
            continue
        for b, c, args, dest in gp:
            key = "%s:get_filter_params-index" % fname
            where = fn.where(b)
            idx = args[1]
            if idx[0] == "k":
                ctx.violation("R3", key, "the parameter index passed to get_filter_params is the constant %r: every "
                              "filter of a chain would be paired with the same DecodeParms entry" % (idx[2],), where)
                continue
            seen, drecs = fl.back_slice(FL.op_locals(idx))
            nexts = [(bb, cc) for bb, cc in fl.calls_in_slice(drecs) if L.is_call_to(cc, ["Iterator::next"])]
            enum = [cc for bb, cc in nexts if "Enumerate" in (cc.get("self") or "")]
            rev = [cc for bb, cc in nexts if "Rev<" in (cc.get("self") or "")]
            if not enum:
                ctx.violation("R3", key, "the parameter index is not the enumerate() induction value of the filter loop",
                              where, {"slice_calls": [cc.get("a") for _, cc in nexts][:5]})
            elif rev:
                ctx.violation("R3", key, "the filter list is iterated in reverse (%s)" % rev[0].get("self"), where)
            else:
                ctx.ok("R3", key, "index <- %s" % enum[0].get("self", "")[:90], where)
        # chaining: each decoder's input depends on a previous decoder's output
        cons = L.calls_to(fn, consumers)
        if not ctx.floor("R3", "decoder calls in " + fname, len(cons), len(consumers)):
            continue
        cons_blocks = set(b for b, _, _, _ in cons)
        for b, c, args, dest in cons:
            key = "%s:chain-input:%s" % (fname, L.short(c["p"]))
            seen, drecs = fl.back_slice(FL.op_locals(args[0]))
            fed = [d for d in drecs if d[0] == "call" and d[1] in cons_blocks]
            if not fed:
                ctx.violation("R3", key, "the input of %s is not data-dependent on the output of the previous filter "
                              "of the chain (every filter would decode the raw stream)" % L.short(c["p"]), fn.where(b))
            else:
                ctx.ok("R3", key, "input depends on output of %d decoder call(s)" % len(fed), fn.where(b))


PARAM_KEYS = [
    (F + "apply_png_predictor_advanced", ["Columns", "BitsPerComponent", "Colors"], "row geometry"),
    (F + "decode_lzw_with_limit", ["EarlyChange"], "code-width schedule"),
]
CCITT_KEYS = ["K", "Columns", "Rows", "BlackIs1", "EncodedByteAlign"]


def r4(ctx):
    for fid, keys, what in PARAM_KEYS:
        ctx.fn(fid, "R4")
        for key in keys:
            k = "%s:%s" % (L.short(fid), key)
            hit = None
            for fn in L.group(ctx.facts, fid):
                for b, s, c in L.str_args(fn, ["PdfDictionary::get"]):
                    if s == key:
                        hit = (fn, b)
            if hit is None and key in L.keys_read_deep(ctx.facts, fid):
                # read through a helper that is handed the key as a literal
                ctx.ok("R4", k, "read through a helper called by %s" % L.short(fid), fid)
                continue
            if hit is None:
                ctx.violation("R4", k, "DecodeParms key /%s (%s) is never read by %s" % (key, what, L.short(fid)), fid)
            else:
                ctx.ok("R4", k, "read at %s" % hit[0].where(hit[1]), hit[0].where(hit[1]))
    # EarlyChange must reach a branch that selects the widening threshold
    fid = F + "decode_lzw_with_limit"
    fn = ctx.fn(fid, "R4")
    fl = FL.flow(fn)
    # the local holding early_change: result of the unwrap_or chain fed by the closure reading the key
    ec = [l for l, n in fn.local_names().items() if n == "early_change"]
    roots = ec
    if not roots:
        # fall back: destinations of Option::unwrap_or::<bool>
        roots = [d[0] for b, c, a, d in L.calls_to(fn, ["unwrap_or"]) if "bool" in c.get("a", "")]
    br = L.branch_blocks_depending_on(fn, roots) if roots else []
    if not br:
        ctx.violation("R4", "decode_lzw_with_limit:EarlyChange-branch",
                      "the EarlyChange value reaches no branch of the LZW decoder: both settings decode identically", fid)
    else:
        # the branch must control an arithmetic difference: the two successors define the threshold differently
        ctx.ok("R4", "decode_lzw_with_limit:EarlyChange-branch", "branches at %s" % ", ".join(fn.where(b) for b in br[:3]),
               fn.where(br[0]))
    # CCITT keys: read anywhere in the ccitt module's parameter reader
    cc = [f for f in ctx.facts.fns.values() if f.id.startswith("parser::filter_impls::ccitt::")]
    if ctx.floor("R4", "functions in filter_impls::ccitt", len(cc), 5):
        read = set()
        for fn in cc:
            for b, s, c in L.str_args(fn, ["PdfDictionary::get"]):
                read.add(s)
        for key in CCITT_KEYS:
            k = "ccitt:%s" % key
            if key not in read:
                ctx.violation("R4", k, "CCITTFaxDecode parameter /%s is never read" % key, "parser::filter_impls::ccitt")
            else:
                ctx.ok("R4", k, "read", "parser::filter_impls::ccitt")


def r5(ctx):
    fid = F + "apply_png_predictor_advanced"
    fn = ctx.fn(fid, "R5")
    ms = [m for m in L.matches_in(ctx.facts, fid, include_closures=False) if m["sty"] == "u8"]
    if not ctx.floor("R5", "row filter-type match", len(ms), 1):
        return
    m = ms[0]
    wild = T.wildcard_arm(m)
    where = "%s:%d" % (m["file"], m["line"])
    chosen = {}
    for v in range(5):
        arm, certain = T.arm_for(m, v)
        key = "png-row-filter=%d" % v
        if arm is None or arm == wild:
            ctx.violation("R5", key, "PNG row filter type %d has no arm of its own" % v, where)
            continue
        if arm in chosen.values():
            ctx.violation("R5", key, "PNG row filter type %d shares its arm with type %d" %
                          (v, [k for k, a in chosen.items() if a == arm][0]), where)
        else:
            calls = [L.short(c) for c in T.expr_calls(m["arms"][arm]["body"]) if c.startswith("parser::filters::")]
            if v != 0 and not calls:
                ctx.violation("R5", key, "arm for row filter %d calls no un-filter routine" % v, where)
            else:
                ctx.ok("R5", key, "arm %d -> %s" % (arm, ",".join(calls) or "copy"), where)
        chosen[v] = arm
    # bytes-per-pixel argument of the left-neighbour routines
    for callee, argi in (("apply_png_sub_filter", 1), ("apply_png_average_filter", 2), ("apply_png_paeth_filter", 2)):
        cs = L.calls_to(fn, [callee])
        if not ctx.floor("R5", "call of " + callee, len(cs), 1):
            continue
        for b, c, args, dest in cs:
            key = "%s:bytes_per_pixel" % callee
            a = args[argi]
            if a[0] == "k":
                ctx.violation("R5", key, "%s is given the constant %r as pixel stride instead of the value computed "
                              "from /Colors and /BitsPerComponent" % (callee, a[2]), fn.where(b))
                continue
            got = L.dict_key_sources(ctx.facts, fn, FL.op_locals(a))
            # rounding after the product: packed sub-byte samples of several components share bytes, so
            # the stride is ceil(Colors*BitsPerComponent/8); rounding one factor first over-counts
            fl = FL.flow(fn)
            seen, drecs = fl.back_slice(FL.op_locals(a))
            early = None
            for dd in drecs:
                if dd[0] == "stmt":
                    st = fn.blocks[dd[1]][0][dd[2]]
                    rv = st[2]
                    if rv[0] == "bin" and rv[1].startswith("Mul"):
                        for o in (rv[2], rv[3]):
                            s2, d2 = fl.back_slice(FL.op_locals(o))
                            for bb, cc in fl.calls_in_slice(d2):
                                if L.is_call_to(cc, ["div_ceil", "next_multiple_of"]):
                                    early = fn.where(dd[1])
                            for d3 in d2:
                                if d3[0] == "stmt":
                                    r3 = fn.blocks[d3[1]][0][d3[2]][2]
                                    if r3[0] == "bin" and (r3[1].startswith("Div") or r3[1].startswith("Shr")):
                                        early = fn.where(dd[1])
            # the same through checked_mul / saturating_mul / wrapping_mul
            for bb, cc in fl.calls_in_slice(drecs):
                if L.is_call_to(cc, ["checked_mul", "saturating_mul", "wrapping_mul", "overflowing_mul"]):
                    for o in fn.blocks[bb][1][2]:
                        s2, d2 = fl.back_slice(FL.op_locals(o))
                        if any(L.is_call_to(c3, ["div_ceil", "next_multiple_of"]) for _, c3 in fl.calls_in_slice(d2)):
                            early = fn.where(bb)
                        for d3 in d2:
                            if d3[0] == "stmt":
                                r3 = fn.blocks[d3[1]][0][d3[2]][2]
                                if r3[0] == "bin" and (r3[1].startswith("Div") or r3[1].startswith("Shr")):
                                    early = fn.where(bb)
            if early:
                ctx.violation("R5", "%s:stride-rounds-after-product" % callee, "the pixel stride given to %s multiplies a value that was "
                              "already rounded up to whole bytes: for packed samples (BitsPerComponent 1/2/4 with several components) "
                              "ISO 32000-1 defines the stride as ceil(Colors*BitsPerComponent/8); rounding one factor first takes the "
                              "left neighbour from the wrong byte" % callee, early)
            else:
                ctx.ok("R5", "%s:stride-rounds-after-product" % callee, "rounding is applied to the product", fn.where(b))
            if not {"Colors", "BitsPerComponent"} <= got:
                ctx.violation("R5", key, "pixel stride passed to %s does not depend on /Colors and /BitsPerComponent "
                              "(depends on: %s)" % (callee, sorted(got)), fn.where(b))
            else:
                ctx.ok("R5", key, "stride depends on %s" % sorted(got), fn.where(b))


def run(ctx):
    r8_ccitt_k_dispatch(ctx)
    r6_lzw_width_cap(ctx)
    r7_lookahead_not_dropped(ctx)
    for r in (r1, r2, r3, r4, r5):
        try:
            r(ctx)
        except Exception as e:  # AnchorMissing is re-raised by ctx.fn as a violation already
            from ..run import AnchorMissing
            if isinstance(e, AnchorMissing):
                continue
            raise


def r6_lzw_width_cap(ctx):
    fn = ctx.fn(F + "decode_lzw_with_limit", "R6")
    g = CF.cfg(fn)
    names = fn.local_names()
    widths = [l for l, n in names.items() if "code_size" in n or "code_width" in n or "code_len" in n or n == "bits"]
    incs = []
    for b, blk in enumerate(fn.blocks):
        for st in blk[0]:
            rv = st[2]
            if rv[0] == "bin" and rv[1].startswith("Add") and FL.op_const(rv[3]) == 1 and FL.op_place(rv[2]) and FL.op_place(rv[2])[0] in widths:
                incs.append((b, FL.op_place(rv[2])[0]))
    if not ctx.floor("R6", "increments of the LZW code width", len(incs), 1):
        return
    for n, (b, w) in enumerate(incs):
        key = "decode_lzw_with_limit:width-increment#%d:capped-at-12" % (n + 1)
        ok = False
        for sb in g.dominators(b):
            for st in fn.blocks[sb][0]:
                rv = st[2]
                if rv[0] == "bin" and rv[1] in ("Lt", "Le", "Gt", "Ge"):
                    for x, y in ((rv[2], rv[3]), (rv[3], rv[2])):
                        px = FL.op_place(x)
                        k = FL.op_const(y)
                        if px is None or px[1] or not isinstance(k, int):
                            continue
                        # x is (a copy of) the width variable
                        root = px[0]
                        fl = FL.flow(fn)
                        for d in fl.defs.get(px[0], ()):
                            if d[0] == "stmt" and fn.blocks[d[1]][0][d[2]][2][0] == "use":
                                p2 = FL.op_place(fn.blocks[d[1]][0][d[2]][2][1])
                                if p2 is not None and not p2[1]:
                                    root = p2[0]
                        if root == w and k in (11, 12):
                            ok = True
        if ok:
            ctx.ok("R6", key, "the increment is dominated by a comparison of the width with 12", fn.where(b))
        else:
            ctx.violation("R6", key, "the LZW code width is incremented without a dominating comparison with 12: once the table holds "
                          "4095/4096 entries the decoder widens its codes to 13 bits while a conforming encoder stays at 12 and emits "
                          "its Clear code at 12 bits, so every stream with more than about 4 KB of poorly compressible data fails to "
                          "decode", fn.where(b))


def r7_lookahead_not_dropped(ctx):
    fn = ctx.fn(F + "decode_ascii85_with_limit", "R7")
    g = CF.cfg(fn)
    fl = FL.flow(fn)
    loops = g.loops()
    main = None
    for h, body in loops.items():
        if main is None or len(body) > len(loops[main]):
            main = h
    if main is None:
        ctx.undecided_site("R7", "decode_ascii85:lookahead", "no decoding loop found", fn.where())
        return
    n = 0
    nexts = [(b, d) for b, c, a, d in L.calls_to(fn, ["Iterator::next"]) if d]
    for b, d in nexts:
        # is the value only compared? find eq/ne calls fed (only) by this next() result
        cmps = []
        for cb, cc, ca, cd in L.calls_to(fn, ["PartialEq::eq", "PartialEq::ne"]):
            for x in ca:
                seen, drecs = fl.back_slice(FL.op_locals(x))
                if d[0] in seen and not any(dd[0] == "call" and dd[1] != b and L.is_call_to(fn.term(dd[1])[1], ["Iterator::next"]) for dd in drecs):
                    cmps.append((cb, cc, cd))
        other_uses = [u for u in fl.uses.get(d[0], ()) if not (u[0] == "stmt" and fn.blocks[u[1]][0][u[2]][2][0] in ("ref",))]
        if not cmps:
            continue
        # value used anywhere else than through the comparison's reference?
        used_elsewhere = False
        fw = fl.fwd_slice([d[0]])
        for cb, cc, cd in cmps:
            pass
        for l in fw:
            for u in fl.uses.get(l, ()):
                if u[0] == "term" and fn.term(u[1])[0] == "call" and not L.is_call_to(fn.term(u[1])[1], ["PartialEq::eq", "PartialEq::ne"]) and u[1] != b:
                    used_elsewhere = True
                if u[0] == "term" and fn.term(u[1])[0] == "sw" and not any(u[1] == cb or g.dominates(cb, u[1]) for cb, cc, cd in cmps):
                    used_elsewhere = True
        if used_elsewhere:
            continue
        n += 1
        cb, cc, cd = cmps[0]
        te, fe = L.bool_edges(fn, cd[0])
        miss = fe if L.short(cc["p"]) == "eq" else te
        key = "decode_ascii85:lookahead#%d:mismatch-stops" % n
        bad = None
        for s_, t_ in miss:
            reach = g.reachable_from(t_)
            if main in reach or t_ == main:
                bad = (s_, t_)
        if bad:
            ctx.violation("R7", key, "the character consumed by the look-ahead `next()` at %s is only compared with a literal; when the "
                          "comparison fails the decoder goes on into its decoding loop without that character: an ASCII85 stream whose "
                          "first character is `<` (a valid digit) loses its second character and decodes to different bytes"
                          % fn.where(b), fn.where(cb))
        else:
            ctx.ok("R7", key, "on a mismatch the decoder stops (error / end) instead of continuing without the consumed character", fn.where(cb))
    ctx.floor("R7", "compare-only look-aheads in the ASCII85 decoder", n, 1)


def r8_ccitt_k_dispatch(ctx):
    from .. import tokens as TK
    facts = ctx.facts
    fid = "parser::filter_impls::ccitt::decode_ccitt"
    fn = ctx.fn(fid, "R8")
    ms = [m for m in facts.matches.get(fid, []) if m["sty"].endswith("CcittK")]
    if not ctx.floor("R8", "dispatch on CcittK in decode_ccitt", len(ms), 1):
        return
    m = ms[0]
    decs = {}
    for i, a in enumerate(m["arms"]):
        v = (a["pat"][1].get("def", "") if a["pat"][0] == "path" and isinstance(a["pat"][1], dict) else "_").split("::")[-1]
        lo, hi = TK.arm_range(fn, m, i)
        ctors = sorted(set((c.get("p") or c.get("r") or "") for f, b, c, aa, d in TK.calls_in_lines(facts, fn, lo, hi)
                           if L.short(c.get("p") or "") == "new"))
        decs[v] = (tuple(ctors), "%s:%d" % (m["file"], a["line"]))
    seen = {}
    for v, (ct, where) in decs.items():
        key = "decode_ccitt:K-arm:%s" % v
        if ct in seen:
            ctx.violation("R8", key, "the %s arm of the /K dispatch constructs the same decoder as the %s arm (%s): a stream coded with "
                          "one scheme is decoded as if it used the other, giving wrong pixels" % (v, seen[ct], ", ".join(L.short(x) for x in ct) or "?"), where)
        else:
            seen[ct] = v
            ctx.ok("R8", key, "own decoder %s" % ", ".join(L.short(x) for x in ct), where)
