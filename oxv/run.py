"""Check runner: builds/loads facts for /repo's current tree, runs one property's rules,
writes evidence, prints VIOLATION / KNOWN-FINDING lines."""
import fcntl
import glob
import hashlib
import importlib
import json
import os
import shutil
import subprocess
import sys
import time

VERIF = os.path.dirname(os.path.dirname(os.path.abspath(__file__)))
REPO = os.environ.get("OXV_REPO", "/repo")
CACHE = os.environ.get("OXV_CACHE", os.path.join(VERIF, ".cache"))
DRIVER = os.path.join(VERIF, "driver", "target", "release", "oxv-driver")
HIR_SCOPES = ",".join([
    "text::encoding", "parser::lexer", "parser::content", "writer::pdf_writer", "writer::incremental",
    "writer::xref_stream_writer", "graphics::ops", "page_labels", "text::cmap", "fonts::cmap_utils",
    "parser::filters", "parser::xref", "structure::outline", "memory::cache", "batch::worker",
    "objects::", "pipeline::hybrid_chunking", "parser::encoding", "parser::objects",
])

CONFIGS = {
    "default": [],
    "all": ["--all-features"],
}


def tree_hash(repo=REPO):
    h = hashlib.sha256()
    files = [os.path.join(repo, "Cargo.toml"), os.path.join(repo, "Cargo.lock"),
             os.path.join(repo, "oxidize-pdf-core", "Cargo.toml")]
    src = os.path.join(repo, "oxidize-pdf-core", "src")
    for root, dirs, fs in os.walk(src):
        dirs.sort()
        for f in sorted(fs):
            if f.endswith(".rs"):
                files.append(os.path.join(root, f))
    build_rs = os.path.join(repo, "oxidize-pdf-core", "build.rs")
    if os.path.exists(build_rs):
        files.append(build_rs)
    for p in files:
        h.update(p.encode())
        try:
            with open(p, "rb") as f:
                h.update(f.read())
        except OSError:
            h.update(b"<missing>")
    # the driver and the scope list are part of the key
    try:
        with open(DRIVER, "rb") as f:
            h.update(hashlib.sha256(f.read()).digest())
    except OSError:
        pass
    h.update(HIR_SCOPES.encode())
    return h.hexdigest()[:20]


def sysroot():
    return subprocess.check_output(["rustc", "+nightly", "--print", "sysroot"], text=True).strip()


def ensure_driver():
    if os.path.exists(DRIVER):
        return
    subprocess.check_call(["cargo", "build", "--release", "--offline"], cwd=os.path.join(VERIF, "driver"))


def build_facts(config="default", repo=REPO, cache=CACHE):
    """returns path of the fact file for the current tree (building it when necessary)"""
    os.makedirs(cache, exist_ok=True)
    ensure_driver()
    lock = open(os.path.join(cache, "lock-" + config), "w")
    fcntl.flock(lock, fcntl.LOCK_EX)
    try:
        hsh = tree_hash(repo)
        out = os.path.join(cache, "facts-%s-%s.jsonl" % (config, hsh))
        if os.path.exists(out) and os.path.getsize(out) > 1000:
            try:
                os.utime(out)       # most recently used = newest: concurrent runs on other trees evict the oldest file only
            except OSError:
                pass
            return out
        target = os.path.join(cache, "target-" + config)
        # cargo's freshness cache would skip the wrapper: drop the member's fingerprints
        for fp in glob.glob(os.path.join(target, "debug", ".fingerprint", "oxidize-pdf-*")):
            shutil.rmtree(fp, ignore_errors=True)
        env = dict(os.environ)
        env["LD_LIBRARY_PATH"] = os.path.join(sysroot(), "lib") + ":" + env.get("LD_LIBRARY_PATH", "")
        env["RUSTFLAGS"] = "-Zmir-opt-level=0 -Awarnings"
        env["RUSTC_WORKSPACE_WRAPPER"] = DRIVER
        env["CARGO_TARGET_DIR"] = target
        env["CARGO_NET_OFFLINE"] = "true"
        env["OXV_OUT"] = out
        env["OXV_HIR_SCOPES"] = HIR_SCOPES
        env.pop("RUSTC_WRAPPER", None)
        cmd = ["cargo", "+nightly", "check", "--offline", "-p", "oxidize-pdf", "--lib"] + CONFIGS[config]
        t = time.time()
        p = subprocess.run(cmd, cwd=repo, env=env, stdout=subprocess.PIPE, stderr=subprocess.STDOUT, text=True)
        if p.returncode != 0 or not os.path.exists(out):
            sys.stderr.write(p.stdout[-6000:])
            raise SystemExit("oxv: fact extraction failed (cargo exit %s, fact file %s)" %
                             (p.returncode, "present" if os.path.exists(out) else "missing"))
        sys.stderr.write("oxv: facts[%s] rebuilt in %.1fs -> %s\n" % (config, time.time() - t, out))
        # keep the cache small: only the 4 newest fact files per config
        olds = sorted(glob.glob(os.path.join(cache, "facts-%s-*.jsonl" % config)), key=os.path.getmtime)
        for o in olds[:-4]:
            for x in (o, o + ".pickle"):
                try:
                    os.remove(x)
                except OSError:
                    pass
        return out
    finally:
        fcntl.flock(lock, fcntl.LOCK_UN)
        lock.close()


# -----------------------------------------------------------------------------------------
class AnchorMissing(Exception):
    pass


class Ctx:
    def __init__(self, prop, tier, facts, config="default"):
        self.prop = prop
        self.tier = tier
        self.facts = facts
        self.config = config
        self.instances = []      # dicts: rule, key, verdict, where, detail, nontrivial
        self.violations = []     # dicts: rule, key, msg, where, witness
        self.notes = []
        self.counts = {}
        self.undecided = 0

    # anchors ----------------------------------------------------------------------------
    def fn(self, fid, rule="anchor"):
        f = self.facts.fns.get(fid)
        if f is None:
            # the function may have moved to another module / impl block: accept a *unique* function of the same name whose
            # enclosing type (last path segment before the name) is the same
            parts = fid.split("::")
            name = parts[-1]
            owner = parts[-2] if len(parts) > 1 else ""
            cands = [g for k, g in self.facts.fns.items() if g.kind != "Closure" and k.split("::")[-1] == name and
                     (k.split("::")[-2] if "::" in k else "") == owner]
            if len(cands) == 1:
                self.note("anchor `%s` resolved to `%s` (moved)" % (fid, cands[0].id))
                return cands[0]
        if f is None:
            self.violation(rule, "anchor-missing:" + fid,
                           "anchored function `%s` not found in the analysed crate (renamed or removed): "
                           "the mechanism cannot be located, failing closed" % fid, where=fid)
            raise AnchorMissing(fid)
        return f

    def fn_opt(self, fid):
        return self.facts.fns.get(fid)

    def floor(self, rule, what, count, minimum):
        self.counts["%s:%s" % (rule, what)] = count
        if count < minimum:
            self.violation(rule, "floor:%s" % what,
                           "%s: found %d instance(s), expected at least %d (counted by hand on the pinned "
                           "tree); a rule matching fewer sites would pass vacuously" % (what, count, minimum),
                           where=what)
            return False
        return True

    # results ----------------------------------------------------------------------------
    def ok(self, rule, key, detail="", where="", nontrivial=True):
        self.instances.append({"rule": rule, "key": key, "verdict": "holds", "where": where,
                               "detail": detail, "nontrivial": nontrivial})

    def undecided_site(self, rule, key, detail="", where=""):
        self.undecided += 1
        self.instances.append({"rule": rule, "key": key, "verdict": "undecided", "where": where,
                               "detail": detail, "nontrivial": True})

    def violation(self, rule, key, msg, where="", witness=None):
        for v in self.violations:
            if v["key"] == key and v["rule"] == rule:
                return
        self.instances.append({"rule": rule, "key": key, "verdict": "refuted", "where": where,
                               "detail": msg, "nontrivial": True})
        self.violations.append({"rule": rule, "key": key, "msg": msg, "where": where, "witness": witness})

    def note(self, s):
        self.notes.append(s)


def load_known():
    known = {}
    fixed = []
    p = os.path.join(VERIF, "known_findings.txt")
    if not os.path.exists(p):
        return known, fixed
    for line in open(p):
        line = line.strip()
        if not line or line.startswith("#"):
            continue
        if line.startswith("known:"):
            rest = line[len("known:"):].strip()
            # known: property=<id> key=<key> what=<text>
            try:
                pid = rest.split("property=", 1)[1].split(" ", 1)[0]
                key = rest.split(" key=", 1)[1].split(" what=", 1)[0]
                what = rest.split(" what=", 1)[1]
            except IndexError:
                continue
            known[(pid, key)] = what
        elif line.startswith("fixed:"):
            fixed.append(line)
    return known, fixed


ASSUMPTIONS = [
    "analysed program = host-target build of crate oxidize_pdf (lib) with the listed features; other cfg branches unseen",
    "rustc type checking, MIR construction and Instance::try_resolve are trusted; calls into dependencies are leaves",
    "unresolved dyn/fn-pointer calls: edge to every crate-local impl for reach rules, never accepted as a guard for must-pass rules",
    "unsafe/transmute/raw-pointer writes are not modelled by the dataflow",
    "the rule decides the structural clause named in the explanation, not the run-time behaviour itself",
]


def run_witnesses(repo=REPO):
    """compile-fail / compile-pass witnesses: cargo +nightly test --doc on a generated copy of
    /verif/witness whose path dependency points at the analysed tree"""
    src = os.path.join(VERIF, "witness")
    dst = os.path.join(CACHE, "witness-run")
    shutil.rmtree(dst, ignore_errors=True)
    shutil.copytree(src, dst, ignore=shutil.ignore_patterns("target"))
    man = open(os.path.join(dst, "Cargo.toml")).read().replace("/repo/oxidize-pdf-core", os.path.join(repo, "oxidize-pdf-core"))
    open(os.path.join(dst, "Cargo.toml"), "w").write(man)
    shutil.copy(os.path.join(repo, "Cargo.lock"), os.path.join(dst, "Cargo.lock"))
    env = dict(os.environ)
    env["CARGO_TARGET_DIR"] = os.path.join(CACHE, "target-witness")
    env["CARGO_NET_OFFLINE"] = "true"
    p = subprocess.run(["cargo", "+nightly", "test", "--doc", "--offline"], cwd=dst, env=env, stdout=subprocess.PIPE,
                       stderr=subprocess.STDOUT, text=True)
    res = []
    for line in p.stdout.splitlines():
        if line.startswith("test src/lib.rs - "):
            name = line[len("test src/lib.rs - "):].rsplit(" ... ", 1)
            res.append({"witness": name[0], "result": name[1] if len(name) > 1 else "?"})
    return p.returncode, res, p.stdout[-3000:]


def run_selftests(prop):
    """seeded violations (must fire) and benign refactors (must stay silent) for the checker itself"""
    from . import selftest as ST
    out = []
    dirs = [os.path.join(VERIF, "selftest", prop)] + sorted(glob.glob(os.path.join(VERIF, "seeded", prop + "*")))
    for d in dirs:
        if not os.path.isdir(d):
            continue
        # a seeded change that is recorded as not caught (and not claimed) is not a self-test
        mp = os.path.join(d, "meta.json")
        if os.path.exists(mp):
            try:
                if json.load(open(mp)).get("caught") is False:
                    out.append({"selftest": os.path.relpath(d, VERIF), "expect": "not-claimed", "pass": True,
                                "first_report": "seeded change recorded as outside what the rules decide (see DESIGN §15/§17)"})
                    continue
            except Exception:
                pass
        for f in sorted(os.listdir(d)):
            path = os.path.join(d, f)
            if f.endswith(".sed") or (f.endswith((".patch", ".diff")) and not f.startswith("demo") and ".pinned." not in f):
                expect = "silent" if f.startswith("benign") else "fire"
                ok, log = ST.run_one(prop, path, expect)
                if ok is None:
                    out.append({"selftest": os.path.relpath(path, VERIF), "expect": "skipped", "pass": True, "first_report": log[:200]})
                    continue
                fired = [l for l in log.splitlines() if l.startswith(prop + " ")]
                out.append({"selftest": os.path.relpath(path, VERIF), "expect": expect, "pass": ok,
                            "first_report": (fired[0][:200] if fired else "")})
    return out


def run_property(prop, tier, seed=0):
    t0 = time.time()
    mod = importlib.import_module("oxv.rules." + prop)
    configs = ["default"]
    if tier == "thorough" and getattr(mod, "ALL_FEATURES", True):
        configs.append("all")
    all_viol = []
    all_inst = []
    notes = []
    counts = {}
    undecided = 0
    scope_sizes = {}
    features = {}
    from . import facts as F
    for cfgname in configs:
        path = build_facts(cfgname)
        facts = F.load(path)
        features[cfgname] = facts.meta.get("features", [])
        ctx = Ctx(prop, tier, facts, cfgname)
        try:
            mod.run(ctx)
        except AnchorMissing:
            pass
        except Exception as e:      # a rule that cannot digest the shape of the code fails closed, with the trace as its witness
            import traceback
            tb = traceback.format_exc()
            ctx.violation("internal", "rule-error:%s" % type(e).__name__,
                          "the rule module raised %s while analysing this tree (%s): the check cannot vouch for the property on code "
                          "of this shape — failing closed" % (type(e).__name__, str(e)[:160]), where="oxv/rules/%s.py" % prop,
                          witness={"traceback": tb[-1500:]})
        for v in ctx.violations:
            if not any(x["key"] == v["key"] and x["rule"] == v["rule"] for x in all_viol):
                v = dict(v)
                v["config"] = cfgname
                all_viol.append(v)
        seen_keys = set((i["rule"], i["key"]) for i in all_inst)
        for i in ctx.instances:
            if (i["rule"], i["key"]) not in seen_keys:
                all_inst.append(i)
        notes.extend(n for n in ctx.notes if n not in notes)
        for k, v in ctx.counts.items():
            counts[k if cfgname == "default" else "%s[%s]" % (k, cfgname)] = v
        undecided += ctx.undecided
        scope_sizes[cfgname] = {"bodies": len(facts.fns), "calls": facts.total_calls,
                                "unresolved_calls": facts.unresolved_calls}
    witness_res = None
    selftests = None
    checker_broken = []
    if tier == "thorough" and os.environ.get("OXV_NO_SELFTEST") != "1":
        if getattr(mod, "WITNESS", False):
            rc, witness_res, wlog = run_witnesses()
            if rc != 0 or not witness_res or any(w["result"] != "ok" for w in witness_res):
                all_viol.append({"rule": "P11", "key": "witness-crate", "msg": "a compile-fail / compile-pass witness no longer behaves as "
                                 "recorded: " + "; ".join("%s=%s" % (w["witness"], w["result"]) for w in (witness_res or [])) + " " + wlog[-400:],
                                 "where": "/verif/witness/src/lib.rs", "witness": witness_res, "config": "default"})
            for w in witness_res or []:
                all_inst.append({"rule": "P11", "key": "witness:" + w["witness"], "verdict": "holds" if w["result"] == "ok" else "refuted",
                                 "where": "/verif/witness/src/lib.rs", "detail": w["result"], "nontrivial": True})
        selftests = run_selftests(prop)
        checker_broken = [s_ for s_ in selftests if not s_["pass"]]
    known, fixed = load_known()
    new_viol = []
    known_hits = []
    for v in all_viol:
        k = (prop, v["rule"] + ":" + v["key"])
        if k in known:
            known_hits.append((v, known[k]))
        else:
            new_viol.append(v)
    # output
    outdir = os.environ.get("OXV_OUTDIR", VERIF)
    os.makedirs(os.path.join(outdir, "replay"), exist_ok=True)
    os.makedirs(os.path.join(outdir, "evidence"), exist_ok=True)
    for v, what in known_hits:
        print("KNOWN-FINDING: property=%s %s [%s:%s]" % (prop, what, v["rule"], v["key"]))
    for n, v in enumerate(new_viol):
        rp = os.path.join(outdir, "replay", "%s-%d.json" % (prop, n))
        with open(rp, "w") as f:
            json.dump({"property": prop, "rule": v["rule"], "key": v["rule"] + ":" + v["key"], "message": v["msg"],
                       "where": v["where"], "witness": v["witness"], "config": v.get("config")}, f, indent=1)
        print("%s %s [%s] at %s: %s" % (prop, v["rule"], v["key"], v["where"], v["msg"]))
        if v["witness"]:
            print("    witness: %s" % json.dumps(v["witness"])[:1200])
        print("VIOLATION property=%s replay=%s" % (prop, rp))
    nontrivial = set((i["rule"], i["key"]) for i in all_inst if i["nontrivial"])
    samples = []
    per_rule = {}
    for i in all_inst:
        per_rule.setdefault(i["rule"], {"holds": 0, "refuted": 0, "undecided": 0})
        per_rule[i["rule"]][i["verdict"]] += 1
    shown = {}
    for i in all_inst:
        c = shown.get((i["rule"], i["verdict"]), 0)
        if c < 3:
            shown[(i["rule"], i["verdict"])] = c + 1
            samples.append({"rule": i["rule"], "instance": i["key"], "where": i["where"],
                            "verdict": i["verdict"], "detail": i["detail"][:300]})
    ev = {
        "property_id": prop,
        "tier": tier,
        "seed": seed,
        "level": "other",
        "coverage": {
            "explanation": getattr(mod, "EXPLANATION", mod.__doc__ or prop).strip(),
            "evaluations": len(all_inst),
            "distinct_nontrivial": len(nontrivial),
            "rule": "one evaluation = one rule instance (call site, match arm, loop, cycle, table cell, "
                    "format argument) found in the type-checked program; non-trivial = carried an "
                    "obligation that the rule had to discharge or refute",
            "samples": samples[:60],
            "per_rule": per_rule,
            "counts": counts,
            "undecided": undecided,
            "configs": scope_sizes,
            "features": features,
            "known_findings_hit": [w for _, w in known_hits],
            "notes": notes,
            "exhaustive": bool(getattr(mod, "EXHAUSTIVE", True)),
            "witnesses": witness_res,
            "checker_selftests": selftests,
            "checker_cmd": "./check %s --tier %s" % (prop, tier),
        },
        "assumptions": ASSUMPTIONS + list(getattr(mod, "ASSUMPTIONS", [])),
        "wall_s": round(time.time() - t0, 2),
        "violations": len(new_viol),
    }
    with open(os.path.join(outdir, "evidence", prop + ".json"), "w") as f:
        json.dump(ev, f, indent=1)
    print("%s: %d instance(s) examined, %d refuted (%d known), %d undecided, tier=%s, %.1fs" %
          (prop, len(all_inst), len(all_viol), len(known_hits), undecided, tier, time.time() - t0))
    for s_ in checker_broken:
        print("SELFTEST-FAIL property=%s %s expect=%s (the checker itself regressed: %s)" %
              (prop, s_["selftest"], s_["expect"], "missed the seeded violation" if s_["expect"] == "fire" else "alarmed on a benign refactor"))
    if new_viol:
        return 1
    return 3 if checker_broken else 0


def main(argv):
    import argparse
    ap = argparse.ArgumentParser()
    ap.add_argument("prop")
    ap.add_argument("--tier", default=os.environ.get("VERIF_TIER", "quick"))
    ap.add_argument("--replay")
    a = ap.parse_args(argv)
    if a.replay:
        print(open(a.replay).read())
        return 0
    seed = int(os.environ.get("VERIF_SEED", "0") or 0)
    tier = a.tier if a.tier in ("quick", "thorough") else "quick"
    return run_property(a.prop, tier, seed)


if __name__ == "__main__":
    sys.exit(main(sys.argv[1:]))
