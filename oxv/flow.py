"""Intraprocedural data-dependence over dumped MIR (primitive P4, flow-insensitive per body).

Conservative in the direction "more dependence": a local depends on every operand of every
definition of it, on every argument of a call that defines it or receives a mutable reference
to it, and references are followed to the locals they point at.
"""
import collections


def place_locals(pl):
    """locals read by evaluating a place: base + index locals"""
    out = [pl[0]]
    for pr in pl[1]:
        if isinstance(pr, list) and pr[0] == "i":
            out.append(pr[1])
    return out


def op_locals(op):
    if op is None:
        return []
    if op[0] in ("c", "m"):
        return place_locals(op[1])
    return []


def op_place(op):
    return op[1] if op and op[0] in ("c", "m") else None


def op_const(op):
    """the constant value of a constant operand (int/bool/dict) or None"""
    if op and op[0] == "k":
        return op[2]
    return None


def rvalue_operands(rv):
    k = rv[0]
    if k in ("use", "un"):
        return [rv[-1]] if k == "use" else [rv[2]]
    if k == "rep":
        return [rv[1]]
    if k == "cast":
        return [rv[2]]
    if k == "bin":
        return [rv[2], rv[3]]
    if k == "agg":
        return list(rv[2])
    return []


def rvalue_places(rv):
    k = rv[0]
    if k in ("ref", "raw"):
        return [rv[-1]]
    if k == "discr":
        return [rv[1]]
    return []


def rvalue_locals(rv):
    out = []
    for op in rvalue_operands(rv):
        out.extend(op_locals(op))
    for pl in rvalue_places(rv):
        out.extend(place_locals(pl))
    return out


class Flow:
    def __init__(self, fn):
        self.fn = fn
        # defs: local -> list of def records
        #   ("stmt", b, i)   assignment statement
        #   ("call", b)      call destination
        #   ("out", b)       passed by &mut to a call (possible out-parameter)
        #   ("arg",)         function argument
        self.defs = collections.defaultdict(list)
        self.uses = collections.defaultdict(list)   # local -> list of ("stmt", b, i) / ("term", b)
        self.pts = collections.defaultdict(set)     # ref local -> locals it may point to
        for a in range(1, fn.nargs + 1):
            self.defs[a].append(("arg",))
        mutref = {}
        for b, blk in enumerate(fn.blocks):
            for i, st in enumerate(blk[0]):
                pl, rv = st[1], st[2]
                self.defs[pl[0]].append(("stmt", b, i))
                for l in rvalue_locals(rv):
                    self.uses[l].append(("stmt", b, i))
                for l in place_locals(pl)[1:]:
                    self.uses[l].append(("stmt", b, i))
                if rv[0] in ("ref", "raw") and not pl[1]:
                    self.pts[pl[0]].add(rv[-1][0])
                    if rv[0] == "raw" or rv[1] == "mut":
                        mutref[pl[0]] = True
                # `vec![a, b, ..]` lowers to Box::new_uninit + a store through the box's raw pointer
                # (`_p = transmute(_box.0.pointer); (*_p).value.. = [a, b, ..]`): the pointer stands for the box's contents
                if rv[0] == "cast" and not pl[1]:
                    sp = op_place(rv[2])
                    if sp is not None and sp[1] and fn.locals[sp[0]].startswith("std::boxed::Box<") and \
                            fn.locals[pl[0]].startswith(("*const", "*mut", "std::ptr::NonNull<")):
                        self.pts[pl[0]].add(sp[0])
            t = blk[1]
            k = t[0]
            if k == "call":
                self.defs[t[3][0]].append(("call", b))
                for a in t[2]:
                    for l in op_locals(a):
                        self.uses[l].append(("term", b))
                c = t[1]
                if "ind" in c:
                    for l in op_locals(c["ind"]):
                        self.uses[l].append(("term", b))
            elif k == "sw":
                for l in op_locals(t[1]):
                    self.uses[l].append(("term", b))
            elif k == "assert":
                for l in op_locals(t[1]):
                    self.uses[l].append(("term", b))
                for a in t[4]:
                    for l in op_locals(a):
                        self.uses[l].append(("term", b))
            elif k == "drop":
                pass
        # propagate points-to through copies of references (to a fixpoint, small)
        changed = True
        n = 0
        while changed and n < 20:
            changed = False
            n += 1
            for b, blk in enumerate(fn.blocks):
                for st in blk[0]:
                    pl, rv = st[1], st[2]
                    if pl[1]:
                        continue
                    src = None
                    if rv[0] == "use":
                        p = op_place(rv[1])
                        if p is not None and not p[1]:
                            src = p[0]
                    elif rv[0] == "cast":
                        p = op_place(rv[2])
                        if p is not None and not p[1]:
                            src = p[0]
                    elif rv[0] in ("ref", "raw") and rv[-1][1] and rv[-1][1][0] == "*":
                        # reborrow &(*_x) / &mut (*_x).f : points where _x points
                        src = rv[-1][0]
                    if src is not None and self.pts.get(src):
                        before = len(self.pts[pl[0]])
                        self.pts[pl[0]] |= self.pts[src]
                        if len(self.pts[pl[0]]) != before:
                            changed = True
        # out-parameter defs: a call receiving a local that points to X defines X
        for b, blk in enumerate(fn.blocks):
            t = blk[1]
            if t[0] == "call":
                for a in t[2]:
                    p = op_place(a)
                    if p is None or p[1]:
                        continue
                    ty = fn.locals[p[0]]
                    if ty.startswith("&mut") or ty.startswith("*mut"):
                        for x in self.pts.get(p[0], ()):
                            self.defs[x].append(("out", b))
        # stores through a reference: (*_r).f = v defines what _r points to
        for b, blk in enumerate(fn.blocks):
            for i, st in enumerate(blk[0]):
                pl = st[1]
                if pl[1] and pl[1][0] == "*":
                    for x in self.pts.get(pl[0], ()):
                        self.defs[x].append(("stmt", b, i))

    # -------------------------------------------------------------------------------------
    def def_inputs(self, d):
        """locals read by a def record"""
        fn = self.fn
        if d[0] == "stmt":
            st = fn.blocks[d[1]][0][d[2]]
            return rvalue_locals(st[2]) + place_locals(st[1])[1:]
        if d[0] in ("call", "out"):
            t = fn.blocks[d[1]][1]
            out = []
            for a in t[2]:
                out.extend(op_locals(a))
            if "ind" in t[1]:
                out.extend(op_locals(t[1]["ind"]))
            return out
        return []

    def back_slice(self, roots, stop_at_calls=None):
        """all locals the given locals may depend on (including themselves), plus the set of
        def records encountered.  `stop_at_calls(callee_dict)` may return True to treat a call
        result as a leaf (its arguments are not followed)."""
        seen = set()
        drecs = set()
        work = list(roots)
        while work:
            l = work.pop()
            if l in seen:
                continue
            seen.add(l)
            for x in self.pts.get(l, ()):
                if x not in seen:
                    work.append(x)
            for d in self.defs.get(l, ()):
                drecs.add(d)
                if d[0] in ("call", "out") and stop_at_calls is not None:
                    if stop_at_calls(self.fn.blocks[d[1]][1][1]):
                        continue
                for i in self.def_inputs(d):
                    if i not in seen:
                        work.append(i)
        return seen, drecs

    def fwd_slice(self, roots):
        """locals that may depend on the given locals (including themselves)"""
        # invert: for every def of x with input i, edge i -> x
        if not hasattr(self, "_fwd"):
            fwd = collections.defaultdict(set)
            for x, ds in self.defs.items():
                for d in ds:
                    for i in self.def_inputs(d):
                        fwd[i].add(x)
            for r, xs in self.pts.items():
                for x in xs:
                    fwd[x].add(r)
            self._fwd = fwd
        seen = set()
        work = list(roots)
        while work:
            l = work.pop()
            if l in seen:
                continue
            seen.add(l)
            work.extend(self._fwd.get(l, ()))
        return seen

    def calls_in_slice(self, drecs):
        """(block, callee dict) for call defs in a def-record set"""
        out = []
        for d in drecs:
            if d[0] in ("call", "out"):
                out.append((d[1], self.fn.blocks[d[1]][1][1]))
        return out

    def consts_in_slice(self, drecs):
        """constant operand values appearing in the defining statements of a slice"""
        out = []
        for d in drecs:
            if d[0] == "stmt":
                st = self.fn.blocks[d[1]][0][d[2]]
                for op in rvalue_operands(st[2]):
                    if op[0] == "k":
                        out.append(op[2])
            elif d[0] in ("call", "out"):
                for a in self.fn.blocks[d[1]][1][2]:
                    if a[0] == "k":
                        out.append(a[2])
        return out


def flow(fn):
    if fn._cfg is None:
        fn._cfg = {}
    f = fn._cfg.get("flow")
    if f is None:
        f = Flow(fn)
        fn._cfg["flow"] = f
    return f


def fn_consts(fn):
    """every constant operand value mentioned in a body: list of (block, type, value)"""
    out = []
    for b, blk in enumerate(fn.blocks):
        for st in blk[0]:
            for op in rvalue_operands(st[2]):
                if op[0] == "k":
                    out.append((b, op[1], op[2]))
        t = blk[1]
        if t[0] == "call":
            for a in t[2]:
                if a[0] == "k":
                    out.append((b, a[1], a[2]))
        elif t[0] == "sw":
            for v, _ in t[2]:
                out.append((b, t[4] if len(t) > 4 else "int", v))
            if t[1][0] == "k":
                out.append((b, t[1][1], t[1][2]))
        elif t[0] == "assert":
            for a in t[4]:
                if a[0] == "k":
                    out.append((b, a[1], a[2]))
    return out


def str_consts(fn):
    """string / byte-string literals mentioned in a body (decoded to bytes)"""
    out = []
    for b, ty, v in fn_consts(fn):
        if isinstance(v, dict):
            if "s" in v:
                out.append((b, v["s"].encode("utf-8", "replace")))
            elif "b" in v:
                out.append((b, bytes(v["b"])))
    return out
