"""P10: finite maps denoted by `match` expressions (set semantics of HIR patterns), never by
running code."""


def lit_value(p):
    """value of a ["lit", v] or ["path", {..., "val": v}] pattern expression, else None"""
    if p is None:
        return None
    if p[0] == "lit":
        return p[1]
    if p[0] == "path":
        v = p[1].get("val")
        return v
    return None


def pat_matches(pat, v):
    """True / False / None(unknown) for scalar (int, char code, bool) or str/bytes value v"""
    k = pat[0]
    if k == "_":
        return True
    if k == "bind":
        return True if pat[2] is None else pat_matches(pat[2], v)
    if k in ("lit", "path"):
        lv = lit_value(pat)
        if lv is None:
            return None
        if isinstance(lv, dict):
            if "s" in lv:
                return lv["s"] == v if isinstance(v, str) else (lv["s"].encode() == v)
            if "b" in lv:
                return bytes(lv["b"]) == (v.encode() if isinstance(v, str) else v)
            return None
        if isinstance(v, (str, bytes)):
            return False
        return lv == v
    if k == "range":
        lo = lit_value(pat[1]) if pat[1] is not None else None
        hi = lit_value(pat[2]) if pat[2] is not None else None
        if (pat[1] is not None and not isinstance(lo, int)) or (pat[2] is not None and not isinstance(hi, int)):
            return None
        if isinstance(v, (str, bytes)):
            return False
        if lo is not None and v < lo:
            return False
        if hi is not None:
            if pat[3]:
                return v <= hi
            return v < hi
        return True
    if k == "or":
        res = False
        for s in pat[1]:
            r = pat_matches(s, v)
            if r is True:
                return True
            if r is None:
                res = None
        return res
    if k in ("ref", "guard"):
        return pat_matches(pat[1], v)
    return None


def is_catch_all(pat):
    k = pat[0]
    if k == "_":
        return True
    if k == "bind":
        return pat[2] is None or is_catch_all(pat[2])
    if k == "ref":
        return is_catch_all(pat[1])
    if k == "or":
        return any(is_catch_all(s) for s in pat[1])
    return False


def arm_for(match, v):
    """index of the arm selected for scalar/str value v (first arm whose pattern matches and
    which has no guard); returns (index, certain). Guarded or unknown arms make the result
    uncertain; in that case the first *possible* arm is returned with certain=False."""
    first_possible = None
    for i, arm in enumerate(match["arms"]):
        r = pat_matches(arm["pat"], v)
        if r is True and arm["guard"] is None:
            if first_possible is None:
                return i, True
            return first_possible, False
        if r is True or r is None:
            if first_possible is None:
                first_possible = i
    return first_possible, False


def wildcard_arm(match):
    for i, arm in enumerate(match["arms"]):
        if is_catch_all(arm["pat"]) and arm["guard"] is None:
            return i
    return None


def variant_of_pat(pat):
    """enum variant / const path named by a pattern (unwrapping refs), or list for or-patterns"""
    k = pat[0]
    if k in ("ts", "st", "path"):
        d = pat[1]
        return [d.get("def")] if isinstance(d, dict) and d.get("def") else []
    if k == "or":
        out = []
        for s in pat[1]:
            out.extend(variant_of_pat(s))
        return out
    if k in ("ref", "guard"):
        return variant_of_pat(pat[1])
    if k == "bind" and pat[2] is not None:
        return variant_of_pat(pat[2])
    return []


def arms_by_variant(match):
    """variant def path -> list of arm indexes naming it (first component for tuple patterns is
    not unpacked here)"""
    out = {}
    for i, arm in enumerate(match["arms"]):
        for v in variant_of_pat(arm["pat"]):
            out.setdefault(v, []).append(i)
    return out


def walk_expr(e, fn):
    """pre-order walk over a dumped HIR expression tree"""
    if not isinstance(e, list) or not e:
        return
    fn(e)
    for x in e[1:]:
        if isinstance(x, list):
            if x and isinstance(x[0], str):
                walk_expr(x, fn)
            else:
                for y in x:
                    if isinstance(y, list):
                        if y and isinstance(y[0], str):
                            walk_expr(y, fn)
                        else:
                            for z in y:
                                if isinstance(z, list):
                                    walk_expr(z, fn)


def expr_calls(e):
    """resolved def paths called anywhere inside a dumped HIR expression"""
    out = []

    def f(x):
        if x[0] == "call" and isinstance(x[1], list) and x[1] and x[1][0] == "path":
            d = x[1][1]
            if isinstance(d, dict) and d.get("def"):
                out.append(d["def"])
        elif x[0] == "mcall" and x[2]:
            out.append(x[2])
    walk_expr(e, f)
    return out


def expr_is_trivial_unit(e):
    """`{}` / `()` arm bodies"""
    if e is None:
        return True
    if e[0] == "tup" and not e[1]:
        return True
    if e[0] == "block" and not e[1] and e[2] is None:
        return True
    return False
