"""Fact base: loads the JSON-lines file written by the rustc driver and builds indexes.

Nothing here executes library code: every structure is a view of the type-checked program
(MIR bodies, HIR match tables, AST format sites, evaluated const items).
"""
import json
import os
import pickle
import collections


class Fn:
    __slots__ = ("id", "file", "lo", "hi", "kind", "vis", "name", "parent", "self_ty", "trait",
                 "trait_default", "nargs", "locals", "dbg", "blocks", "_cfg", "_names", "ret", "params", "prom")

    def __init__(self, d):
        self.id = d["id"]
        self.file = d["file"]
        self.lo = d["lo"]
        self.hi = d["hi"]
        self.kind = d["kind"]
        self.vis = d.get("vis")
        self.name = d.get("name")
        self.parent = d.get("parent")
        self.self_ty = d.get("self_ty")
        self.trait = d.get("trait")
        self.trait_default = d.get("trait_default")
        self.ret = d.get("ret")
        self.params = d.get("params")
        self.prom = d.get("prom") or []
        self.nargs = d["nargs"]
        self.locals = d["locals"]
        self.dbg = d["dbg"]
        self.blocks = d["blocks"]
        self._cfg = None
        self._names = None

    # block accessors -----------------------------------------------------------------
    def stmts(self, b):
        return self.blocks[b][0]

    def term(self, b):
        return self.blocks[b][1]

    def line(self, b):
        return self.blocks[b][2]

    def is_cleanup(self, b):
        return bool(self.blocks[b][3])

    def term_exp(self, b):
        return bool(self.blocks[b][4])

    def term_col(self, b):
        return self.blocks[b][5] if len(self.blocks[b]) > 5 else 0

    def local_names(self):
        """local index -> user variable name (only plain locals)"""
        if self._names is None:
            m = {}
            for name, pl in self.dbg:
                if not pl[1]:
                    m.setdefault(pl[0], name)
            self._names = m
        return self._names

    def name_of(self, local):
        return self.local_names().get(local, "_%d" % local)

    def calls(self):
        """yield (block index, callee dict, args, dest place, target, unwind)"""
        for i, b in enumerate(self.blocks):
            t = b[1]
            if t[0] == "call":
                yield i, t[1], t[2], t[3], t[4], t[5]

    def where(self, b=None):
        if b is None:
            return "%s:%d" % (self.file, self.lo)
        return "%s:%d" % (self.file, self.line(b))


def callee_path(c):
    """declared callee path (trait method path for trait calls) or None for indirect"""
    return c.get("p")


def callee_res(c):
    """resolved instance path if the call resolves to one body, else the declared path"""
    return c.get("r") or c.get("p")


class Facts:
    def __init__(self, path):
        self.path = path
        self.meta = {}
        self.fns = {}
        self.matches = collections.defaultdict(list)
        self.fmts = []
        self.adts = {}
        self.consts = {}
        self.statics = {}
        self.impls = []
        self.hirfns = {}
        with open(path) as f:
            for line in f:
                d = json.loads(line)
                k = d["k"]
                if k == "fn":
                    self.fns[d["id"]] = Fn(d)
                elif k == "match":
                    self.matches[d["fn"]].append(d)
                elif k == "fmt":
                    self.fmts.append(d)
                elif k == "adt":
                    self.adts[d["id"]] = d
                elif k == "const":
                    self.consts[d["id"]] = d
                elif k == "static":
                    self.statics[d["id"]] = d
                elif k == "impl":
                    self.impls.append(d)
                elif k == "hirfn":
                    self.hirfns[d["id"]] = d
                elif k == "meta":
                    self.meta = d
        self._build_indexes()

    # ---------------------------------------------------------------------------------
    def _build_indexes(self):
        # trait method path -> list of local impl method paths (for virtual / unresolved calls)
        self.trait_impls = collections.defaultdict(list)
        for im in self.impls:
            for name, path, trait_item in im["items"]:
                if trait_item:
                    self.trait_impls[trait_item].append(path)
        # call graph
        self.callees = collections.defaultdict(set)   # fn id -> set of fn ids (local bodies) or external paths
        self.callers = collections.defaultdict(set)
        self.closures_of = collections.defaultdict(set)
        self.ext_calls = collections.defaultdict(set)  # fn id -> external callee paths (declared)
        self.unresolved_calls = 0
        self.total_calls = 0
        fns = self.fns
        for fid, fn in fns.items():
            if fn.kind == "Closure" and fn.parent:
                self.closures_of[fn.parent].add(fid)
            for b in fn.blocks:
                for st in b[0]:
                    self._scan_rvalue_for_fnrefs(fid, st[2])
                t = b[1]
                if t[0] == "call":
                    self.total_calls += 1
                    c = t[1]
                    for a in t[2]:
                        self._scan_operand_for_fnrefs(fid, a)
                    p = c.get("p")
                    if p is None:
                        self.unresolved_calls += 1
                        self._scan_operand_for_fnrefs(fid, c.get("ind"))
                        continue
                    r = c.get("r")
                    if r is not None:
                        if r in fns:
                            self._edge(fid, r)
                        else:
                            self.ext_calls[fid].add(p)
                    else:
                        # virtual or generic-unresolved: conservative edges to every local impl
                        self.unresolved_calls += 1
                        impls = self.trait_impls.get(p, ())
                        for ip in impls:
                            if ip in fns:
                                self._edge(fid, ip)
                        if p in fns:  # trait default body
                            self._edge(fid, p)
                        if not impls:
                            self.ext_calls[fid].add(p)

    def _edge(self, a, b):
        self.callees[a].add(b)
        self.callers[b].add(a)

    def _scan_operand_for_fnrefs(self, fid, op):
        if op and op[0] == "k" and isinstance(op[2], dict) and "fn" in op[2]:
            p = op[2]["fn"]
            if p in self.fns:
                self._edge(fid, p)

    def _scan_rvalue_for_fnrefs(self, fid, rv):
        k = rv[0]
        if k == "agg":
            if rv[1][0] == "clo" and rv[1][1] in self.fns:
                self._edge(fid, rv[1][1])
            for op in rv[2]:
                self._scan_operand_for_fnrefs(fid, op)
        elif k in ("use", "cast", "un", "rep"):
            self._scan_operand_for_fnrefs(fid, rv[1] if k != "cast" else rv[2])
        elif k == "bin":
            self._scan_operand_for_fnrefs(fid, rv[2])
            self._scan_operand_for_fnrefs(fid, rv[3])

    # ---------------------------------------------------------------------------------
    def fn(self, fid):
        """exact lookup; raises KeyError (callers turn that into an anchor failure)"""
        return self.fns[fid]

    def find_fns(self, suffix=None, contains=None, include_closures=False):
        out = []
        for fid, fn in self.fns.items():
            if not include_closures and fn.kind == "Closure":
                continue
            if suffix is not None and not (fid == suffix or fid.endswith("::" + suffix)):
                continue
            if contains is not None and contains not in fid:
                continue
            out.append(fn)
        return out

    def with_closures(self, fid):
        """the function together with every closure defined (transitively) inside it"""
        out = [fid]
        out.extend(sorted(self.closures_of.get(fid, ())))
        return out

    def reach(self, roots, stop=None):
        """call-graph closure from roots (ids); returns dict id -> predecessor (for witness paths)"""
        stop = stop or set()
        pred = {}
        work = collections.deque()
        for r in roots:
            if r in self.fns and r not in pred:
                pred[r] = None
                work.append(r)
        while work:
            f = work.popleft()
            if f in stop:
                continue
            for g in self.callees.get(f, ()):
                if g not in pred:
                    pred[g] = f
                    work.append(g)
        return pred

    @staticmethod
    def path_to(pred, f):
        p = []
        while f is not None:
            p.append(f)
            f = pred.get(f)
        return list(reversed(p))

    def fns_by_file(self):
        if not hasattr(self, "_by_file"):
            d = collections.defaultdict(list)
            for f in self.fns.values():
                d[f.file].append(f)
            self._by_file = d
        return self._by_file

    def fmt_sites_in(self, fn):
        """format_args sites lexically inside fn (innermost owner decided by caller)"""
        return [s for s in self.fmts if s["file"] == fn.file and fn.lo <= s["line"] <= fn.hi]

    def const_int(self, cid):
        c = self.consts.get(cid)
        if c is None:
            return None
        v = c["val"]
        return v if isinstance(v, int) else None


def load(path):
    """load with a pickle cache next to the fact file"""
    pk = path + ".pickle"
    try:
        if os.path.getmtime(pk) >= os.path.getmtime(path):
            with open(pk, "rb") as f:
                return pickle.load(f)
    except (OSError, pickle.PickleError, EOFError, AttributeError, ImportError):
        pass
    facts = Facts(path)
    try:
        tmp = pk + ".tmp.%d" % os.getpid()
        with open(tmp, "wb") as f:
            pickle.dump(facts, f, protocol=pickle.HIGHEST_PROTOCOL)
        os.replace(tmp, pk)
    except OSError:
        pass
    return facts
