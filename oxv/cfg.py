"""Per-function control-flow utilities over the dumped MIR (primitives P2, P3, P9)."""
import collections


def succs(fn, b, unwind=False):
    """successor blocks of b; list of (target, label). label: 'n' normal, ('sw', value) switch
    edge, ('sw', None) otherwise-edge, 'u' unwind"""
    t = fn.term(b)
    k = t[0]
    out = []
    if k == "goto":
        out.append((t[1], "n"))
    elif k == "sw":
        d = t[1]
        if d[0] in ("c", "m") and not d[1][1]:
            # discriminant assigned a constant earlier in the same block (`_t = const false; switchInt(move _t)`)
            for st in reversed(fn.stmts(b)):
                if st[1] == [d[1][0], []]:
                    if st[2][0] == "use" and st[2][1][0] == "k" and isinstance(st[2][1][2], (bool, int)):
                        d = st[2][1]
                    break
        if d[0] == "k" and isinstance(d[2], (bool, int)):
            # constant discriminant (e.g. `if false && ..`): only the matching edge is feasible
            cv = int(d[2])
            tgt = None
            for v, tb in t[2]:
                if v == cv:
                    tgt = tb
            out.append((tgt if tgt is not None else t[3], ("sw", cv)))
        else:
            for v, tb in t[2]:
                out.append((tb, ("sw", v)))
            out.append((t[3], ("sw", None)))
    elif k == "drop":
        out.append((t[2], "n"))
        if unwind and t[3] is not None:
            out.append((t[3], "u"))
    elif k == "call":
        if t[4] is not None:
            out.append((t[4], "n"))
        if unwind and t[5] is not None:
            out.append((t[5], "u"))
    elif k == "assert":
        out.append((t[5], "n"))
        if unwind and t[6] is not None:
            out.append((t[6], "u"))
    elif k == "other":
        for s in t[1]:
            out.append((s, "n"))
    return out


def _thread_targets(fn, b):
    """jump threading for short-circuit booleans: if block b assigns a constant to a bool local
    and falls (through a chain of gotos over blocks that only assign constants / copies) into a
    switch on that local, the only feasible successor is the matching switch target.
    Returns the threaded successor list or None."""
    known = {}
    cur = b
    hops = 0
    first = True
    while hops < 6:
        blk = fn.blocks[cur]
        for st in blk[0]:
            pl, rv = st[1], st[2]
            if pl[1]:
                if not first:
                    return None
                continue
            if rv[0] == "use" and rv[1][0] == "k" and isinstance(rv[1][2], bool):
                known[pl[0]] = rv[1][2]
            elif rv[0] == "use" and rv[1][0] in ("c", "m") and not rv[1][1][1] and rv[1][1][0] in known:
                known[pl[0]] = known[rv[1][1][0]]
            elif rv[0] == "un" and rv[1] == "Not" and rv[2][0] in ("c", "m") and not rv[2][1][1] and rv[2][1][0] in known:
                known[pl[0]] = not known[rv[2][1][0]]
            else:
                if not first:
                    # a non-trivial statement in a pass-through block: stop threading
                    if pl[0] in known:
                        del known[pl[0]]
                    if rv[0] not in ("use", "ref", "cast", "discr", "agg", "bin", "un"):
                        return None
                else:
                    known.pop(pl[0], None)
        t = blk[1]
        if t[0] == "goto" and (first or True):
            cur = t[1]
            first = False
            hops += 1
            continue
        if t[0] == "sw" and not first:
            op = t[1]
            if op[0] in ("c", "m") and not op[1][1] and op[1][0] in known:
                k = 1 if known[op[1][0]] else 0
                for v, tgt in t[2]:
                    if v == k:
                        return [tgt]
                return [t[3]]
        return None
    return None


class Cfg:
    def __init__(self, fn, unwind=False, thread=False):
        self.fn = fn
        self.n = len(fn.blocks)
        self.succ = [[s for s, _ in succs(fn, b, unwind)] for b in range(self.n)]
        if thread:
            for b in range(self.n):
                if fn.term(b)[0] == "goto":
                    tt = _thread_targets(fn, b)
                    if tt is not None:
                        self.succ[b] = tt
        self.pred = [[] for _ in range(self.n)]
        for b, ss in enumerate(self.succ):
            for s in ss:
                self.pred[s].append(b)
        self._idom = None
        self._reach0 = None

    def reachable_from(self, start, avoid_blocks=(), avoid_edges=()):
        """set of blocks reachable from `start` (a block or iterable of blocks) without entering
        avoid_blocks and without taking avoid_edges ((src,dst) pairs)"""
        avoid_blocks = set(avoid_blocks)
        avoid_edges = set(avoid_edges)
        seen = set()
        if isinstance(start, int):
            start = [start]
        work = [s for s in start if s not in avoid_blocks]
        seen.update(work)
        while work:
            b = work.pop()
            for s in self.succ[b]:
                if s in seen or s in avoid_blocks or (b, s) in avoid_edges:
                    continue
                seen.add(s)
                work.append(s)
        return seen

    def path(self, start, goal_set, avoid_blocks=(), avoid_edges=()):
        """a shortest block path start -> any block of goal_set avoiding the given blocks/edges,
        or None"""
        avoid_blocks = set(avoid_blocks)
        avoid_edges = set(avoid_edges)
        goal_set = set(goal_set)
        if start in avoid_blocks:
            return None
        pred = {start: None}
        dq = collections.deque([start])
        while dq:
            b = dq.popleft()
            if b in goal_set:
                p = []
                while b is not None:
                    p.append(b)
                    b = pred[b]
                return list(reversed(p))
            for s in self.succ[b]:
                if s in pred or s in avoid_blocks or (b, s) in avoid_edges:
                    continue
                pred[s] = b
                dq.append(s)
        return None

    def live(self):
        if self._reach0 is None:
            self._reach0 = self.reachable_from(0)
        return self._reach0

    def idom(self):
        """immediate dominators (Cooper-Harvey-Kennedy) of blocks reachable from entry"""
        if self._idom is not None:
            return self._idom
        order = []
        seen = set([0])
        stack = [(0, iter(self.succ[0]))]
        while stack:
            b, it = stack[-1]
            adv = False
            for s in it:
                if s not in seen:
                    seen.add(s)
                    stack.append((s, iter(self.succ[s])))
                    adv = True
                    break
            if not adv:
                order.append(b)
                stack.pop()
        rpo = list(reversed(order))
        idx = {b: i for i, b in enumerate(rpo)}
        idom = {0: 0}
        changed = True
        while changed:
            changed = False
            for b in rpo[1:]:
                new = None
                for p in self.pred[b]:
                    if p in idom:
                        if new is None:
                            new = p
                        else:
                            a, c = p, new
                            while a != c:
                                while idx[a] > idx[c]:
                                    a = idom[a]
                                while idx[c] > idx[a]:
                                    c = idom[c]
                            new = a
                if new is not None and idom.get(b) != new:
                    idom[b] = new
                    changed = True
        self._idom = idom
        self._rpo = rpo
        return idom

    def dominates(self, a, b):
        idom = self.idom()
        if b not in idom:
            return False
        while True:
            if a == b:
                return True
            if b == 0:
                return False
            b = idom[b]

    def dominators(self, b):
        idom = self.idom()
        out = []
        if b not in idom:
            return out
        while True:
            out.append(b)
            if b == 0:
                return out
            b = idom[b]

    def back_edges(self):
        """(src, header) edges where header dominates src"""
        self.idom()
        out = []
        for b in self.live():
            for s in self.succ[b]:
                if self.dominates(s, b):
                    out.append((b, s))
        return out

    def loops(self):
        """natural loops: header -> set of blocks"""
        loops = {}
        for src, h in self.back_edges():
            body = loops.setdefault(h, set([h]))
            work = [src]
            while work:
                x = work.pop()
                if x in body:
                    continue
                body.add(x)
                work.extend(self.pred[x])
        return loops

    def return_blocks(self):
        return [b for b in self.live() if self.fn.term(b)[0] == "ret"]


def cfg(fn, unwind=False, thread=False):
    key = ("u" if unwind else "n") + ("t" if thread else "")
    if fn._cfg is None:
        fn._cfg = {}
    c = fn._cfg.get(key)
    if c is None:
        c = Cfg(fn, unwind, thread)
        fn._cfg[key] = c
    return c


def must_pass(fn, targets, guards, guard_edges=(), start=0, unwind=False):
    """P2. Every path start -> any block of `targets` passes a block of `guards` (or an edge of
    guard_edges).  Returns None when the obligation holds, else a witness block path."""
    g = cfg(fn, unwind, thread=True)
    tset = set(targets) - set(guards)
    if not tset:
        return None
    return g.path(start, tset, avoid_blocks=guards, avoid_edges=guard_edges)


def sccs(nodes, succ):
    """Tarjan SCCs over an arbitrary graph: nodes iterable, succ(n) -> iterable"""
    index = {}
    low = {}
    onstack = set()
    stack = []
    out = []
    counter = [0]
    for root in nodes:
        if root in index:
            continue
        work = [(root, iter(succ(root)))]
        index[root] = low[root] = counter[0]
        counter[0] += 1
        stack.append(root)
        onstack.add(root)
        while work:
            v, it = work[-1]
            adv = False
            for w in it:
                if w not in index:
                    index[w] = low[w] = counter[0]
                    counter[0] += 1
                    stack.append(w)
                    onstack.add(w)
                    work.append((w, iter(succ(w))))
                    adv = True
                    break
                elif w in onstack:
                    low[v] = min(low[v], index[w])
            if adv:
                continue
            work.pop()
            if work:
                u = work[-1][0]
                low[u] = min(low[u], low[v])
            if low[v] == index[v]:
                comp = []
                while True:
                    w = stack.pop()
                    onstack.discard(w)
                    comp.append(w)
                    if w == v:
                        break
                out.append(comp)
    return out


def reachable_assuming(fn, call_value=None, start=0, max_states=20000, place_value=None, avoid=(), fixed=None, avoid_edges=()):
    """Path-sensitive reachability with boolean constant propagation (P9b).

    `place_value(place)` gives the assumed value of a projected place read (e.g. a config field);
    blocks in `avoid` are not entered; `fixed` maps locals to a value they hold whenever read (never dropped).
    `call_value(block, term)` returns True/False/"nz" (a non-zero integer)/None for the result of
    the call terminating `block`.  Starting at `start`, every feasible path is explored while
    tracking the value of projection-free bool/int temporaries that are determined by the
    assumptions (constants, copies, `!x`, `x == 0`, `x != 0`, `x > 0`, and the assumed call
    results).  A switch on a known local follows only the matching edge.  Returns the set of
    blocks reachable under the assumptions (an over-approximation of the feasible ones).
    Locals are dropped from the environment when re-assigned an unknown value, so loops converge."""
    def val(env, op):
        if op[0] == "k":
            return op[2] if isinstance(op[2], (bool, int)) else None
        if op[0] in ("c", "m") and not op[1][1]:
            if fixed and op[1][0] in fixed:
                return fixed[op[1][0]]
            return env.get(op[1][0])
        if op[0] in ("c", "m") and place_value is not None:
            return place_value(op[1])
        return None
    avoid = set(avoid)
    avoid_edges = set(avoid_edges)
    seen = set()
    reach = set()
    work = [(start, ())]
    while work and len(seen) < max_states:
        b, envt = work.pop()
        if (b, envt) in seen or b in avoid:
            continue
        seen.add((b, envt))
        reach.add(b)
        env = dict(envt)
        for st in fn.blocks[b][0]:
            pl, rv = st[1], st[2]
            if pl[1]:
                continue
            v = None
            if rv[0] == "use":
                v = val(env, rv[1])
            elif rv[0] == "un" and rv[1] == "Not":
                x = val(env, rv[2])
                if isinstance(x, bool):
                    v = not x
            elif rv[0] == "bin" and rv[1] in ("Eq", "Ne", "Gt", "Lt", "Ge", "Le"):
                x, y = val(env, rv[2]), val(env, rv[3])
                if isinstance(x, int) and isinstance(y, int) and not isinstance(x, bool) and not isinstance(y, bool):
                    v = {"Eq": x == y, "Ne": x != y, "Gt": x > y, "Ge": x >= y, "Lt": x < y, "Le": x <= y}[rv[1]]
                elif x == "nz" and y == 0 and not isinstance(y, bool):
                    v = {"Eq": False, "Ne": True, "Gt": True, "Ge": True, "Lt": False, "Le": False}[rv[1]]
                elif y == "nz" and x == 0 and not isinstance(x, bool):
                    v = {"Eq": False, "Ne": True, "Lt": True, "Le": True, "Gt": False, "Ge": False}[rv[1]]
            if v is None:
                env.pop(pl[0], None)
            else:
                env[pl[0]] = v
        t = fn.blocks[b][1]
        if t[0] == "call":
            d = t[3]
            if d and not d[1]:
                v = call_value(b, t) if call_value is not None else None
                if v is None:
                    env.pop(d[0], None)
                else:
                    env[d[0]] = v
        nxt = succs(fn, b)
        if t[0] == "sw":
            v = val(env, t[1])
            if isinstance(v, bool) or (isinstance(v, int)):
                cv = int(v)
                tgt = None
                for sv, tb in t[2]:
                    if sv == cv:
                        tgt = tb
                nxt = [(tgt if tgt is not None else t[3], None)]
            elif v == "nz":
                nxt = [(tb, None) for sv, tb in t[2] if sv != 0] + [(t[3], None)]
        e2 = tuple(sorted(env.items(), key=lambda kv: kv[0]))
        for s, _ in nxt:
            if (b, s) in avoid_edges:
                continue
            work.append((s, e2))
    return reach
