"""Evaluation of boolean HIR expressions over one byte/char variable by set semantics (P10).

`true_set(expr, var)` returns the set of values in 0..255 for which the expression is true, or
None when the expression contains something this evaluator does not model. No code is run: the
expression tree dumped by the driver is interpreted over the finite domain.
"""
from . import tables as T

WS = {0x09, 0x0A, 0x0C, 0x0D, 0x20}
BUILTIN = {
    "is_ascii_whitespace": WS,
    "is_ascii_alphanumeric": set(range(0x30, 0x3A)) | set(range(0x41, 0x5B)) | set(range(0x61, 0x7B)),
    "is_ascii_alphabetic": set(range(0x41, 0x5B)) | set(range(0x61, 0x7B)),
    "is_ascii_digit": set(range(0x30, 0x3A)),
    "is_ascii_hexdigit": set(range(0x30, 0x3A)) | set(range(0x41, 0x47)) | set(range(0x61, 0x67)),
    "is_ascii_uppercase": set(range(0x41, 0x5B)),
    "is_ascii_lowercase": set(range(0x61, 0x7B)),
    "is_ascii_punctuation": set(range(0x21, 0x30)) | set(range(0x3A, 0x41)) | set(range(0x5B, 0x61)) | set(range(0x7B, 0x7F)),
    "is_ascii_graphic": set(range(0x21, 0x7F)),
    "is_ascii_control": set(range(0x00, 0x20)) | {0x7F},
    "is_ascii": set(range(0x00, 0x80)),
    "is_whitespace": WS | {0x0B, 0x85, 0xA0},
    "is_alphanumeric": set(range(0x30, 0x3A)) | set(range(0x41, 0x5B)) | set(range(0x61, 0x7B)),
    "is_control": set(range(0x00, 0x20)) | set(range(0x7F, 0xA0)),
}
ALL = set(range(256))
FACTS = None      # set by callers that want crate-local one-byte predicate helpers inlined


def is_var(e, var):
    """expression denotes the variable (possibly through deref / cast / addr / copy)"""
    if not isinstance(e, list) or not e:
        return False
    if e[0] == "path":
        return e[1].get("local") == var
    if e[0] in ("un",) and e[1] == "*":
        return is_var(e[2], var)
    if e[0] == "cast":
        return is_var(e[1], var)
    if e[0] == "addr":
        return is_var(e[1], var)
    if e[0] == "mcall" and e[1] in ("clone", "to_owned", "into", "as_ref") and not e[4]:
        return is_var(e[3], var)
    return False


def const_of(e):
    if not isinstance(e, list) or not e:
        return None
    if e[0] == "lit" and isinstance(e[1], int) and not isinstance(e[1], bool):
        return e[1]
    if e[0] == "path" and isinstance(e[1].get("val"), int):
        return e[1]["val"]
    if e[0] == "cast":
        return const_of(e[1])
    if e[0] == "addr":
        return const_of(e[1])
    return None


def const_set(e):
    """set of bytes denoted by a literal array / byte string / str expression"""
    if not isinstance(e, list) or not e:
        return None
    if e[0] in ("addr", "cast"):
        return const_set(e[1])
    if e[0] == "lit" and isinstance(e[1], dict):
        if "b" in e[1]:
            return set(e[1]["b"])
        if "s" in e[1]:
            return set(e[1]["s"].encode("latin-1", "replace"))
    if e[0] == "arr":
        out = set()
        for x in e[1]:
            c = const_of(x)
            if c is None:
                return None
            out.add(c)
        return out
    if e[0] == "path" and isinstance(e[1].get("val"), dict):
        v = e[1]["val"]
        if "b" in v:
            return set(v["b"])
        if "s" in v:
            return set(v["s"].encode("latin-1", "replace"))
    return None


def true_set(e, var):
    if not isinstance(e, list) or not e:
        return None
    k = e[0]
    if k == "lit" and isinstance(e[1], bool):
        return set(ALL) if e[1] else set()
    if k == "bin":
        op = e[1]
        if op == "||":
            a, b = true_set(e[2], var), true_set(e[3], var)
            return None if a is None or b is None else a | b
        if op == "&&":
            a, b = true_set(e[2], var), true_set(e[3], var)
            return None if a is None or b is None else a & b
        if op in ("==", "!=", "<", "<=", ">", ">="):
            l, r = e[2], e[3]
            flip = {"<": ">", "<=": ">=", ">": "<", ">=": "<=", "==": "==", "!=": "!="}
            if is_var(r, var) and const_of(l) is not None:
                l, r, op = r, l, flip[op]
            if is_var(l, var) and const_of(r) is not None:
                c = const_of(r)
                f = {"==": lambda v: v == c, "!=": lambda v: v != c, "<": lambda v: v < c, "<=": lambda v: v <= c,
                     ">": lambda v: v > c, ">=": lambda v: v >= c}[op]
                return set(v for v in ALL if f(v))
        return None
    if k == "un" and e[1] == "!":
        a = true_set(e[2], var)
        return None if a is None else ALL - a
    if k == "mcall":
        name, recv, args = e[1], e[3], e[4]
        if name in BUILTIN and is_var(recv, var) and not args:
            return set(BUILTIN[name])
        if name == "contains" and len(args) == 1 and is_var(args[0], var):
            cs = const_set(recv)
            if cs is not None:
                return cs
            # range: (a..=b).contains(&x)
            if recv[0] == "struct" or recv[0] == "call":
                rng = _range_of(recv)
                if rng is not None:
                    return rng
        return None
    if k == "match":
        # matches!(x, pats) expands to match x { pats => true, _ => false }
        scrut, arms = e[2], e[3]
        if not is_var(scrut, var):
            return None
        out = set()
        for v in ALL:
            sel = None
            for pat, guard, body in arms:
                r = T.pat_matches(pat, v)
                if r is None:
                    return None
                if r:
                    if guard is not None:
                        return None
                    sel = body
                    break
            if sel is None:
                continue
            if sel[0] == "lit" and sel[1] is True:
                out.add(v)
            elif sel[0] == "lit" and sel[1] is False:
                pass
            else:
                return None
        return out
    if k == "block" and not e[1] and e[2] is not None:
        return true_set(e[2], var)
    if k == "call" and e[1][0] == "path" and len(e[2]) == 1 and is_var(e[2][0], var) and FACTS is not None:
        # crate-local predicate helper over one byte: interpret its body over its own parameter
        h = FACTS.hirfns.get(e[1][1].get("def", ""))
        if h is not None and len(h["params"]) == 1 and h["params"][0][0] == "bind":
            return true_set(h["body"], h["params"][0][1])
    if k == "ret" and e[1] is not None:
        return true_set(e[1], var)
    return None


def _range_of(e):
    # RangeInclusive::new(a, b) or struct Range {start, end}
    if e[0] == "call" and e[1][0] == "path" and "RangeInclusive" in e[1][1].get("def", "") and len(e[2]) == 2:
        a, b = const_of(e[2][0]), const_of(e[2][1])
        if a is not None and b is not None:
            return set(range(a, b + 1)) & ALL
    if e[0] == "struct" and "Range" in e[1].get("def", ""):
        d = {n: const_of(x) for n, x in e[2]}
        if d.get("start") is not None and d.get("end") is not None:
            incl = "Inclusive" in e[1].get("def", "")
            return set(range(d["start"], d["end"] + (1 if incl else 0))) & ALL
    return None


def find_all(e, pred, out=None):
    """all sub-expressions satisfying pred (pre-order)"""
    if out is None:
        out = []
    if isinstance(e, list) and e:
        if isinstance(e[0], str):
            if pred(e):
                out.append(e)
            for x in e[1:]:
                find_all(x, pred, out)
        else:
            for x in e:
                find_all(x, pred, out)
    return out


def mentions_local(e, var):
    return bool(find_all(e, lambda x: x[0] == "path" and x[1].get("local") == var))
