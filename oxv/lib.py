"""Shared queries used by the per-property rule modules."""
import re
from . import flow as FL
from . import cfg as CF
from .facts import callee_res, callee_path


def group(facts, fid):
    """the Fn objects of a function and of the closures defined inside it"""
    return [facts.fns[x] for x in facts.with_closures(fid) if x in facts.fns]


def matches_in(facts, fid, sty=None, include_closures=True):
    ids = facts.with_closures(fid) if include_closures else [fid]
    out = []
    for i in ids:
        for m in facts.matches.get(i, ()):
            if sty is None or m["sty"] == sty or (callable(sty) and sty(m["sty"])):
                out.append(m)
    return out


def is_call_to(c, names):
    """callee dict matches one of the given paths (declared or resolved, exact or suffix ::name)"""
    p = c.get("p")
    r = c.get("r")
    for n in names:
        for x in (p, r):
            if x is None:
                continue
            if x == n or x.endswith("::" + n):
                return True
    return False


def calls_to(fn, names):
    """[(block, callee, args, dest)] of calls to any of `names`"""
    out = []
    for b, c, args, dest, tgt, uw in fn.calls():
        if is_call_to(c, names):
            out.append((b, c, args, dest))
    return out


def calls_matching(fn, pred):
    out = []
    for b, c, args, dest, tgt, uw in fn.calls():
        if pred(c):
            out.append((b, c, args, dest))
    return out


def const_str(op):
    v = FL.op_const(op)
    if isinstance(v, dict):
        if "s" in v:
            return v["s"]
        if "b" in v:
            try:
                return bytes(v["b"]).decode("latin-1")
            except Exception:
                return None
    return None


def promoted_strs(fn, op):
    """string literals of the promoted body an operand `const fn::promoted[i]` refers to"""
    v = FL.op_const(op)
    if isinstance(v, dict) and "o" in v:
        m = re.search(r"promoted\[(\d+)\]$", v["o"])
        if m and int(m.group(1)) < len(fn.prom):
            out = []
            for ty, val in fn.prom[int(m.group(1))]:
                if isinstance(val, dict) and "s" in val:
                    out.append(val["s"])
                elif isinstance(val, dict) and "b" in val:
                    out.append(bytes(val["b"]).decode("latin-1"))
            return out
    return []


def fn_strs(fn):
    """every string literal a body mentions, promoted temporaries included"""
    out = set(b.decode("utf-8", "replace") for _, b in FL.str_consts(fn))
    for pr in fn.prom:
        for ty, val in pr:
            if isinstance(val, dict) and "s" in val:
                out.add(val["s"])
    return out


def resolve_str_operand(fn, op, depth=6):
    """string literal carried by an operand: constant, or a local defined once from a constant
    (through use / unsize cast / `.into()`-style single-argument conversion calls)"""
    s = const_str(op)
    if s is not None:
        return s
    ps = promoted_strs(fn, op)
    if len(ps) == 1:
        return ps[0]
    if depth == 0:
        return None
    pl = FL.op_place(op)
    if pl is None or pl[1]:
        return None
    fl = FL.flow(fn)
    ds = [d for d in fl.defs.get(pl[0], ()) if d[0] != "out"]
    if len(ds) != 1:
        return None
    d = ds[0]
    if d[0] == "stmt":
        rv = fn.blocks[d[1]][0][d[2]][2]
        if rv[0] == "use":
            return resolve_str_operand(fn, rv[1], depth - 1)
        if rv[0] == "cast":
            return resolve_str_operand(fn, rv[2], depth - 1)
        if rv[0] == "ref" and all(x == "*" for x in rv[2][1]):
            return resolve_str_operand(fn, ["c", [rv[2][0], []]], depth - 1)
        return None
    if d[0] == "call":
        t = fn.blocks[d[1]][1]
        c = t[1]
        if len(t[2]) == 1 and is_call_to(c, ["into", "to_string", "to_owned", "from", "as_ref", "as_str", "borrow", "deref", "as_bytes", "to_vec", "clone"]):
            return resolve_str_operand(fn, t[2][0], depth - 1)
    return None


def str_args(fn, names, argidx=None):
    """string-literal arguments of calls to `names`: [(block, string, callee)]"""
    out = []
    for b, c, args, dest in calls_to(fn, names):
        idxs = range(len(args)) if argidx is None else [argidx]
        for i in idxs:
            if i < len(args):
                s = resolve_str_operand(fn, args[i])
                if s is not None:
                    out.append((b, s, c))
    return out


def keys_read(facts, fid, getters=("PdfDictionary::get", "PdfDictionary::get_type", "PdfDictionary::contains_key",
                                   "Dictionary::get", "get_dict_integer", "get_integer")):
    """constant dictionary keys passed to the given getter functions inside fid (+closures)"""
    out = set()
    for fn in group(facts, fid):
        for b, s, c in str_args(fn, getters):
            out.add(s)
    return out


def call_blocks(fn, names):
    return [b for b, c, a, d in calls_to(fn, names)]


def slice_has_call(fn, roots, names, stop=None):
    """does the backward slice of `roots` (locals) contain a call to one of `names`? returns the
    block of such a call or None"""
    fl = FL.flow(fn)
    seen, drecs = fl.back_slice(roots, stop)
    for b, c in fl.calls_in_slice(drecs):
        if is_call_to(c, names):
            return b
    return None


def slice_calls(fn, roots):
    fl = FL.flow(fn)
    seen, drecs = fl.back_slice(roots)
    return fl.calls_in_slice(drecs)


def branch_blocks_depending_on(fn, locals_):
    """switch terminators whose discriminant is data-dependent on any of the given locals"""
    fl = FL.flow(fn)
    fwd = fl.fwd_slice(locals_)
    out = []
    for b, blk in enumerate(fn.blocks):
        t = blk[1]
        if t[0] == "sw":
            for l in FL.op_locals(t[1]):
                if l in fwd:
                    out.append(b)
                    break
    return out


def short(fid):
    return fid.split("::")[-1] if "::" in fid else fid


def arm_src(arm):
    return " ".join(arm.get("src", "").split())[:100]


# ---- branch edges on call results --------------------------------------------------------
def _copies_of(fn, local):
    """locals that are plain copies/moves (or negations: flagged) of `local`: {local: negated}"""
    fl = FL.flow(fn)
    out = {local: False}
    changed = True
    while changed:
        changed = False
        for b, blk in enumerate(fn.blocks):
            for st in blk[0]:
                pl, rv = st[1], st[2]
                if pl[1] or pl[0] in out:
                    continue
                if rv[0] == "use":
                    p = FL.op_place(rv[1])
                    if p and not p[1] and p[0] in out:
                        out[pl[0]] = out[p[0]]
                        changed = True
                elif rv[0] == "un" and rv[1] == "Not":
                    p = FL.op_place(rv[2])
                    if p and not p[1] and p[0] in out:
                        out[pl[0]] = not out[p[0]]
                        changed = True
    return out


def bool_edges(fn, local):
    """(true_edges, false_edges) of switch terminators on a boolean local (or copies / negations)"""
    cp = _copies_of(fn, local)
    te, fe = [], []
    for b, blk in enumerate(fn.blocks):
        t = blk[1]
        if t[0] != "sw":
            continue
        p = FL.op_place(t[1])
        if not p or p[1] or p[0] not in cp:
            continue
        neg = cp[p[0]]
        for v, tgt in t[2]:
            # value 0 = false
            (fe if (v == 0) != neg else te).append((b, tgt))
        # otherwise edge: true when only 0 is listed, false when only 1 listed
        listed = [v for v, _ in t[2]]
        if listed == [0]:
            (te if not neg else fe).append((b, t[3]))
        elif listed == [1]:
            (fe if not neg else te).append((b, t[3]))
    return te, fe


def discr_edges(fn, local, variant_index):
    """edges taken when enum local (Option/Result) has the given discriminant value:
    returns (edges_for_value, edges_for_other_values)"""
    fl = FL.flow(fn)
    dl = set()
    for b, blk in enumerate(fn.blocks):
        for st in blk[0]:
            if st[2][0] == "discr" and st[2][1][0] == local and not st[1][1]:
                dl.add(st[1][0])
    yes, no = [], []
    for b, blk in enumerate(fn.blocks):
        t = blk[1]
        if t[0] != "sw":
            continue
        p = FL.op_place(t[1])
        if not p or p[1] or p[0] not in dl:
            continue
        listed = [v for v, _ in t[2]]
        for v, tgt in t[2]:
            (yes if v == variant_index else no).append((b, tgt))
        if variant_index not in listed:
            yes.append((b, t[3]))
        else:
            no.append((b, t[3]))
    return yes, no


def path_count_range(fn, pred_block, start=0, stop_blocks=None):
    """min and max number of blocks satisfying pred_block on any acyclic normal path start->return;
    back edges are ignored (loops counted once). Returns (min, max)."""
    g = CF.cfg(fn)
    back = set(g.back_edges())
    memo = {}
    import sys
    sys.setrecursionlimit(100000)

    def go(b):
        if b in memo:
            return memo[b]
        memo[b] = None  # cycle guard
        w = int(pred_block(b) or 0)      # a predicate, or an integer weight per block
        t = fn.term(b)
        if t[0] == "ret" or (stop_blocks and b in stop_blocks):
            memo[b] = (w, w)
            return memo[b]
        lo, hi = None, None
        for s in g.succ[b]:
            if (b, s) in back:
                continue
            r = go(s)
            if r is None:
                continue
            lo = r[0] if lo is None else min(lo, r[0])
            hi = r[1] if hi is None else max(hi, r[1])
        if lo is None:
            memo[b] = None   # no path to return (diverges: panic/unreachable)
            return None
        memo[b] = (lo + w, hi + w)
        return memo[b]
    return go(start)


# ---- receivers ---------------------------------------------------------------------------
def ref_target(fn, local, depth=4):
    """the place a reference local was created from: (base local, [field names]) following
    reborrows and copies; None when unknown"""
    fl = FL.flow(fn)
    for d in fl.defs.get(local, ()):
        if d[0] != "stmt":
            continue
        st = fn.blocks[d[1]][0][d[2]]
        if st[1][1]:
            continue
        rv = st[2]
        if rv[0] in ("ref", "raw"):
            pl = rv[-1]
            fields = [p[2] for p in pl[1] if isinstance(p, list) and p[0] == "f"]
            if pl[1] and pl[1][0] == "*" and depth > 0:
                inner = ref_target(fn, pl[0], depth - 1)
                if inner is not None:
                    return (inner[0], inner[1] + fields)
            return (pl[0], fields)
        if rv[0] in ("use", "cast") and depth > 0:
            op = rv[1] if rv[0] == "use" else rv[2]
            p = FL.op_place(op)
            if p is not None:
                if not p[1]:
                    return ref_target(fn, p[0], depth - 1)
                fields = [x[2] for x in p[1] if isinstance(x, list) and x[0] == "f"]
                return (p[0], fields)
    return None


def recv_of(fn, args):
    """(base local, fields) of the receiver (first argument) of a call"""
    if not args:
        return None
    p = FL.op_place(args[0])
    if p is None:
        return None
    if p[1]:
        return (p[0], [x[2] for x in p[1] if isinstance(x, list) and x[0] == "f"])
    return ref_target(fn, p[0])


def value_slice_calls(fn, roots, max_steps=400):
    """calls whose *result value* may flow into the given locals: backward over plain value
    definitions only (use, cast, discr, field projection, ref/deref of a value, aggregate, bin/un)
    and call destinations; does NOT follow out-parameters or points-to of mutable state.
    Returns list of (block, callee, args)."""
    fl = FL.flow(fn)
    seen = set()
    calls = []
    work = list(roots)
    steps = 0
    while work and steps < max_steps:
        l = work.pop()
        if l in seen:
            continue
        seen.add(l)
        steps += 1
        for d in fl.defs.get(l, ()):
            if d[0] == "stmt":
                st = fn.blocks[d[1]][0][d[2]]
                if st[1][0] != l:
                    continue
                for x in FL.rvalue_locals(st[2]):
                    if x not in seen:
                        work.append(x)
            elif d[0] == "call":
                t = fn.blocks[d[1]][1]
                calls.append((d[1], t[1], t[2]))
                # value-forwarding adaptors: follow their receiver / argument
                if is_call_to(t[1], ["Option::<T>::is_some", "Option::<T>::is_none", "Option::<T>::unwrap_or",
                                     "Option::<T>::map", "Option::<T>::and_then", "Result::<T, E>::is_ok",
                                     "Result::<T, E>::is_err", "Deref::deref", "Clone::clone", "Option::<T>::copied",
                                     "Option::<&T>::copied", "Option::<&T>::cloned", "Try::branch", "Not::not",
                                     "PartialEq::eq", "PartialEq::ne", "Into::into", "From::from"]):
                    for a in t[2]:
                        for x in FL.op_locals(a):
                            if x not in seen:
                                work.append(x)
    return calls


def cond_atoms(fn, op, depth=6):
    """the state a branch condition tests: field paths read (directly, through copies, negations,
    comparisons, discriminants and std helper calls such as is_some/is_empty/len) and crate-local
    calls. Precise (value definitions only), unlike back_slice."""
    fl = FL.flow(fn)
    atoms = set()
    seen = set()

    def fields_of(pl):
        return ".".join(p[2] for p in pl[1] if isinstance(p, list) and p[0] == "f" and p[2] and not p[2].isdigit())

    def visit_place(pl, d):
        f = fields_of(pl)
        if f:
            atoms.add(f)
        if not pl[1] or all(x == "*" for x in pl[1]) or not f:
            visit_local(pl[0], d)

    def visit_local(l, d):
        if d <= 0 or l in seen:
            return
        seen.add(l)
        if 1 <= l <= fn.nargs:
            atoms.add("param:%s" % fn.name_of(l))
        for rec in fl.defs.get(l, ()):
            if rec[0] == "stmt":
                st = fn.blocks[rec[1]][0][rec[2]]
                if st[1][0] != l or st[1][1]:
                    continue
                rv = st[2]
                for o in rvalue_operands(rv):
                    p = FL.op_place(o)
                    if p is not None:
                        visit_place(p, d - 1)
                for p in FL.rvalue_places(rv):
                    visit_place(p, d - 1)
            elif rec[0] == "call":
                t = fn.blocks[rec[1]][1]
                c = t[1]
                if c.get("l"):
                    atoms.add("call:" + short(c.get("r") or c.get("p") or "?"))
                else:
                    for a in t[2]:
                        p = FL.op_place(a)
                        if p is not None:
                            visit_place(p, d - 1)
    p = FL.op_place(op)
    if p is not None:
        visit_place(p, depth)
    return atoms


rvalue_operands = FL.rvalue_operands


# ---------------------------------------------------------------------------------------------
# dictionary keys read through helpers (P6b): follows crate-local callees and closures, carrying
# string-literal arguments into the callee's parameters, tuple-field sensitive on returned tuples

DICT_GETTERS = ("PdfDictionary::get", "PdfDictionary::get_type", "PdfDictionary::contains_key", "Dictionary::get",
                "get_dict_integer", "get_integer")


def _tuple_elems(fn, op):
    pl = FL.op_place(op)
    if pl is None or pl[1]:
        return None
    ds = [d for d in FL.flow(fn).defs.get(pl[0], ()) if d[0] == "stmt"]
    for d in ds:
        rv = fn.blocks[d[1]][0][d[2]][2]
        if rv[0] == "agg" and rv[1][0] == "tup":
            return rv[2]
    return None


def _strs_of(fn, op, penv):
    s = resolve_str_operand(fn, op)
    if s is not None:
        return {s}
    out = set()
    if penv:
        for l in FL.flow(fn).back_slice(FL.op_locals(op))[0]:
            out |= penv.get(l, set())
    return out


def _callsite_env(fn, term, f2, penv):
    env = {}
    args = term[2]
    if f2.kind == "Closure":
        elems = _tuple_elems(fn, args[1]) if len(args) > 1 else None
        for i, e in enumerate(elems or []):
            ss = _strs_of(fn, e, penv)
            if ss:
                env[2 + i] = ss
    else:
        for i, a in enumerate(args):
            ss = _strs_of(fn, a, penv)
            if ss:
                env[1 + i] = ss
    return env


def keys_read_deep(facts, fid, depth=3, penv=None, _stack=()):
    """constant dictionary keys that reach a getter's key argument inside fid, its closures and the
    crate-local functions it calls (string literals are carried into callee parameters)"""
    out = set()
    if fid in _stack:
        return out
    for fn in group(facts, fid):
        env = penv if fn.id == fid else None
        for b, c, args, dest, t, u in fn.calls():
            if not isinstance(c, dict):
                continue
            if is_call_to(c, DICT_GETTERS):
                for a in args[1:]:
                    out |= _strs_of(fn, a, env)
                continue
            r = c.get("r")
            f2 = facts.fns.get(r)
            if f2 is None or depth == 0 or (fn.parent or fn.id) == (f2.parent or f2.id) and f2.kind != "Closure":
                continue
            if f2.kind == "Closure" and not c.get("p", "").startswith("std::ops::Fn"):
                continue
            env2 = _callsite_env(fn, fn.blocks[b][1], f2, env)
            if f2.kind == "Closure":
                out |= _keys_in_fn(facts, f2, env2)
            else:
                out |= keys_read_deep(facts, r, depth - 1, env2, _stack + (fid,))
    return out


def _keys_in_fn(facts, fn, env):
    out = set()
    for b, c, args, dest, t, u in fn.calls():
        if isinstance(c, dict) and is_call_to(c, DICT_GETTERS):
            for a in args[1:]:
                out |= _strs_of(fn, a, env)
    return out


def dict_key_sources(facts, fn, roots, depth=3, penv=None):
    """dictionary keys K such that the value of `dict.get(K)` may flow into the locals `roots` of fn
    (flow-insensitive slice).  Calls to crate-local functions and closures are entered: literal
    arguments are bound to the callee's parameters, and when the callee returns a tuple only the
    elements the caller's slice projects are followed."""
    fl = FL.flow(fn)
    seen, drecs = fl.back_slice(roots)
    keys = set()
    for b, c in fl.calls_in_slice(drecs):
        if not isinstance(c, dict):
            continue
        t = fn.blocks[b][1]
        if is_call_to(c, DICT_GETTERS):
            for a in t[2][1:]:
                keys |= _strs_of(fn, a, penv)
            continue
        f2 = facts.fns.get(c.get("r"))
        if f2 is None or depth == 0 or f2.id == fn.id:
            continue
        env2 = _callsite_env(fn, t, f2, penv)
        used = None
        if f2.ret and "(" in f2.ret and t[3]:
            idx = set()
            whole = False
            for d in drecs:
                if d[0] != "stmt":
                    continue
                st = fn.blocks[d[1]][0][d[2]]
                for pl in FL.rvalue_places(st[2]) + [FL.op_place(o) for o in FL.rvalue_operands(st[2]) if FL.op_place(o)]:
                    ty = fn.locals[pl[0]] if pl[0] < len(fn.locals) else ""
                    if not ty.startswith("("):
                        continue
                    if t[3][0] not in fl.back_slice([pl[0]])[0]:
                        continue
                    fs = [p for p in pl[1] if isinstance(p, list) and p[0] == "f"]
                    if fs:
                        idx.add(fs[0][1])
                    elif st[1][0] in seen and not fn.locals[st[1][0]].startswith("("):
                        whole = True
            if idx and not whole:
                used = idx
        fl2 = FL.flow(f2)
        roots2 = [0]
        if used is not None:
            s0, d0 = fl2.back_slice([0])
            r2 = []
            for d in d0:
                if d[0] == "stmt":
                    rv = f2.blocks[d[1]][0][d[2]][2]
                    if rv[0] == "agg" and rv[1][0] == "tup" and len(rv[2]) > max(used):
                        for i in used:
                            r2 += FL.op_locals(rv[2][i])
            if r2:
                roots2 = r2
        keys |= dict_key_sources(facts, f2, roots2, depth - 1, env2)
    return keys
