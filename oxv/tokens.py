"""Token-level agreement between the writers and the readers (shared by C03, C09, C21, C30).

Reader tables are extracted from the HIR of the two tokenisers; writer tables from the escapers
and serialiser arms. Everything is set semantics over 256 byte values (P10) plus MIR slices for
"which function produced the bytes that are emitted here".
"""
from . import bytepred as BP
from . import tables as T
from . import lib as L
from . import flow as FL

ALL = set(range(256))
WS_ISO = {0x00, 0x09, 0x0A, 0x0C, 0x0D, 0x20}
DELIMS = set(b"()<>[]{}/%")
REGULAR = set(range(0x21, 0x7F)) - DELIMS - {0x23}
ISO_ESCAPES = {ord("n"): 0x0A, ord("r"): 0x0D, ord("t"): 0x09, ord("b"): 0x08, ord("f"): 0x0C, ord("("): 0x28, ord(")"): 0x29,
               ord("\\"): 0x5C}

OBJ_ENUMS = ("objects::primitive::Object", "parser::objects::PdfObject", "pdf_objects::Object")
EMITTERS = ["PdfWriter::<W>::write_bytes", "Vec::<T, A>::extend_from_slice", "Vec::<T, A>::push", "std::io::Write::write_all",
            "String::push_str", "String::push", "std::io::Write::write_fmt", "std::fmt::Write::write_fmt", "std::io::Write::write",
            "std::fmt::Write::write_str"]


# ---------------------------------------------------------------- readers
def name_break_set(facts, fid):
    """bytes on which a name reader stops, from `if cond { break }` or `match ch { pats => break }`"""
    h = facts.hirfns.get(fid)
    if h is None:
        return None
    body = h["body"]
    out = None
    # if-form
    for e in BP.find_all(body, lambda x: x[0] == "if"):
        then = e[2]
        if BP.find_all(then, lambda x: x[0] == "break") and not BP.find_all(then, lambda x: x[0] in ("loop",)):
            locs = set(x[1]["local"] for x in BP.find_all(e[1], lambda y: y[0] == "path" and "local" in y[1]))
            for v in locs:
                s = BP.true_set(e[1], v)
                if s is not None and s and len(s) < 200:
                    out = (out or set()) | s
    # match-form
    for e in BP.find_all(body, lambda x: x[0] == "match"):
        scrut, arms = e[2], e[3]
        for pat, guard, abody in arms:
            if abody and abody[0] == "break" or (abody and abody[0] == "block" and BP.find_all(abody, lambda x: x[0] == "break") and len(abody[1]) <= 1):
                if T.is_catch_all(pat):
                    continue
                s = set()
                for v in ALL:
                    idx = None
                    for i, (p2, g2, b2) in enumerate(arms):
                        if T.pat_matches(p2, v) is True:
                            idx = i
                            break
                    if idx is not None and arms[idx][2] is abody:
                        s.add(v)
                if s:
                    out = (out or set()) | s
    return out


def decodes_hash(facts, fid):
    """the name reader treats '#' specially (comparison or pattern on 0x23 somewhere in the function group)"""
    for f in L.group(facts, fid):
        for b, ty, v in FL.fn_consts(f):
            if v == 0x23 and ty in ("u8", "char"):
                return True
    h = facts.hirfns.get(fid)
    if h and BP.find_all(h["body"], lambda x: x[0] == "lit" and x[1] == 0x23):
        return True
    for m in facts.matches.get(fid, []):
        for a in m["arms"]:
            if T.pat_matches(a["pat"], 0x23) is True and not T.is_catch_all(a["pat"]):
                return True
    return False


def _arm_payload_byte(body, var_names):
    """constant byte produced by an escape-table arm: literal, or push(literal)"""
    if body is None:
        return None
    if body[0] == "lit" and isinstance(body[1], int):
        return ("const", body[1])
    if body[0] == "mcall" and body[1] == "push" and len(body[4]) == 1:
        a = body[4][0]
        if a[0] == "lit" and isinstance(a[1], int):
            return ("const", a[1])
        if a[0] == "path" and "local" in a[1]:
            return ("id",)
    if body[0] == "path" and "local" in body[1]:
        return ("id",)
    if body[0] == "block" and not body[1] and body[2] is not None:
        return _arm_payload_byte(body[2], var_names)
    return None


def string_escape_table(facts, fid):
    """escape letter -> decoded byte for the `\\x` table of a literal-string reader; plus the set of
    letters handled by an octal arm. Identified as the u8 match whose arms name b'n'."""
    best = None
    for m in facts.matches.get(fid, []):
        if m["sty"] != "u8":
            continue
        hit = [a for a in m["arms"] if T.pat_matches(a["pat"], ord("n")) is True and not T.is_catch_all(a["pat"])]
        if hit:
            best = m
            break
    if best is None:
        return None
    table = {}
    octal = set()
    for v in range(256):
        arm, certain = T.arm_for(best, v)
        if arm is None:
            continue
        a = best["arms"][arm]
        if T.is_catch_all(a["pat"]):
            continue
        p = _arm_payload_byte(a["body"], None)
        if p and p[0] == "const":
            table[v] = p[1]
        elif 0x30 <= v <= 0x37:
            octal.add(v)
    return {"table": table, "octal": octal, "match": best}


def string_raw_special(facts, fid):
    """bytes that the raw (non-escape) branch of a literal-string reader treats specially"""
    for m in facts.matches.get(fid, []):
        if m["sty"] != "u8":
            continue
        if any(T.pat_matches(a["pat"], ord("n")) is True and not T.is_catch_all(a["pat"]) for a in m["arms"]):
            continue
        sp = set()
        for v in range(256):
            arm, _ = T.arm_for(m, v)
            if arm is not None and not T.is_catch_all(m["arms"][arm]["pat"]):
                sp.add(v)
        if 0x5C in sp:
            return sp
    return None


# ---------------------------------------------------------------- writers
def escaper_table(facts, fid):
    """byte -> ('raw',) | ('esc', bytes) | ('other',) for a string escaper built as `match byte {..}`
    (arms push a literal escape sequence, push the byte itself, or do something else such as an
    octal write). Returns None when the function has no such match."""
    cands = [m for m in facts.matches.get(fid, []) if m["sty"] in ("u8", "char")]
    best = None
    for m in cands:
        if any(T.pat_matches(a["pat"], 0x5C) is True and not T.is_catch_all(a["pat"]) for a in m["arms"]):
            best = m
            break
    if best is None:
        return None
    out = {}
    for v in range(256):
        arm, certain = T.arm_for(best, v)
        if arm is None:
            out[v] = ("other",)
            continue
        body = best["arms"][arm]["body"]
        out[v] = _classify_escape_arm(body)
    return {"table": out, "match": best}


def _classify_escape_arm(body):
    if body is None:
        return ("other",)
    if body[0] == "block" and not body[1] and body[2] is not None:
        return _classify_escape_arm(body[2])
    if body[0] == "mcall" and body[1] in ("extend_from_slice", "push_str", "push", "write_all", "extend") and len(body[4]) == 1:
        a = body[4][0]
        while a[0] in ("addr", "cast"):
            a = a[1]
        if a[0] == "lit":
            v = a[1]
            if isinstance(v, dict) and "b" in v:
                return ("esc", bytes(v["b"]))
            if isinstance(v, dict) and "s" in v:
                return ("esc", v["s"].encode("latin-1", "replace"))
            if isinstance(v, int):
                return ("esc", bytes([v & 0xFF]))
        if a[0] == "path" and "local" in a[1]:
            return ("raw",)
        if a[0] == "cast" or (a[0] == "mcall" and a[1] in ("clone",)):
            return ("raw",)
    if body[0] == "cast" and body[1][0] == "path":
        return ("raw",)
    return ("other",)


def name_pass_set_hir(facts, fid):
    """pass-through set of a name escaper written as `if pred(b) { push(b) } else { "#XX" }` or as a
    match; None when not table-shaped"""
    h = facts.hirfns.get(fid)
    if h is None:
        return None
    BP.FACTS = facts
    body = h["body"]
    for e in BP.find_all(body, lambda x: x[0] == "if" and x[3] is not None):
        els = e[3]
        has_hash = BP.find_all(els, lambda x: x[0] == "lit" and isinstance(x[1], dict) and ("#" in x[1].get("s", "") or 0x23 in x[1].get("b", [])))
        # format!("#{:02X}") leaves no literal in HIR (lowered template): accept an else-branch containing a format call
        has_fmt = BP.find_all(els, lambda x: x[0] == "call" and x[1][0] == "path" and ("fmt::format" in x[1][1].get("def", "") or "must_use" in x[1][1].get("def", "")))
        if not (has_hash or has_fmt):
            continue
        locs = set(x[1]["local"] for x in BP.find_all(e[1], lambda y: y[0] == "path" and "local" in y[1]))
        for v in locs:
            s = BP.true_set(e[1], v)
            if s is not None:
                return s
    return None


def _pat_bytes(p):
    if p[0] == "lit":
        return {p[1]} if isinstance(p[1], int) else set()
    if p[0] == "or":
        out = set()
        for q in p[1]:
            out |= _pat_bytes(q)
        return out
    if p[0] == "range":
        lo = p[1][1] if p[1] and p[1][0] == "lit" else 0
        hi = p[2][1] if p[2] and p[2][0] == "lit" else 255
        return set(range(lo, (hi + 1) if p[3] else hi))
    if p[0] in ("_", "bind"):
        return set(range(256))
    return set(range(256))


def _walk(e, f):
    if isinstance(e, list):
        f(e)
        for x in e:
            _walk(x, f)
    elif isinstance(e, dict):
        for x in e.values():
            _walk(x, f)


def name_pass_set_match(facts, fid):
    """pass-through set of a name escaper written as `match byte { pats => "#XX", range => push(byte), _ => "#XX" }` (arms in
    order; a guarded arm may fall through, so its bytes stay available to later arms while still counting for its own body).
    A byte is passed through by an arm whose body pushes the scrutinee itself or a literal equal to the byte. None when the
    function has no byte match."""
    best = None
    for f in L.group(facts, fid):
        for m in facts.matches.get(f.id, []):
            if m["sty"] not in ("u8", "char", "&u8"):
                continue
            scrut = m["scrut"][1].get("local") if m["scrut"] and m["scrut"][0] == "path" and isinstance(m["scrut"][1], dict) else None
            remaining = set(range(256))
            passed = set()
            shaped = False
            for arm in m["arms"]:
                pats = _pat_bytes(arm["pat"]) & remaining
                raw_all = [False]
                raw_lits = set()
                escapes = [False]

                def visit(e):
                    if not e or not isinstance(e[0], str):
                        return
                    if e[0] == "mcall" and e[1] in ("push", "push_str", "extend_from_slice", "write_all", "extend"):
                        def arg(a):
                            if a and a[0] == "path" and isinstance(a[1], dict) and a[1].get("local") == scrut:
                                raw_all[0] = True
                            if a and a[0] == "lit" and isinstance(a[1], int):
                                raw_lits.add(a[1])
                        for a in e[4]:
                            _walk(a, arg)
                    if e[0] == "call" and e[1] and e[1][0] == "path" and isinstance(e[1][1], dict) and \
                            ("fmt::format" in e[1][1].get("def", "") or "Arguments" in e[1][1].get("def", "") or "write_fmt" in e[1][1].get("def", "")):
                        escapes[0] = True
                    if e[0] == "mcall" and e[1] == "write_fmt":
                        escapes[0] = True
                _walk(arm["body"], visit)
                if raw_all[0]:
                    passed |= pats
                    shaped = True
                passed |= (raw_lits & pats)
                if escapes[0]:
                    shaped = True
                if arm.get("guard") is None:
                    remaining -= pats
            if shaped and (best is None or len(passed) > len(best)):
                best = passed
    return best


def is_name_escaper_by_constants(facts, fid):
    """necessary constants of any name escaper: mentions '#' and formats hex"""
    has_hash = False
    has_hex = False
    for f in L.group(facts, fid):
        for b, ty, v in FL.fn_consts(f):
            if v == 0x23 and ty in ("u8", "char"):
                has_hash = True
            if isinstance(v, dict) and "#" in v.get("s", ""):
                has_hash = True
            if isinstance(v, dict) and 0x23 in v.get("b", []):
                has_hash = True
        for s in facts.fmt_sites_in(f):
            for p in s["tpl"]:
                if isinstance(p, str) and "#" in p:
                    has_hash = True
                if isinstance(p, dict) and p["tr"] in ("UpperHex", "LowerHex"):
                    has_hex = True
        for b, c, a, d, t, u in f.calls():
            if (c.get("p") or "").endswith("from_digit"):
                has_hex = True
    return has_hash and has_hex


def serializers(facts):
    """object serialisers: functions whose body matches on an object enum with Name/String/Dictionary
    arms and emits bytes. Returns list of (fn, match)."""
    out = []
    for fid, ms in facts.matches.items():
        fn = facts.fns.get(fid)
        if fn is None or fn.kind == "Closure":
            continue
        for m in ms:
            sty = m["sty"].lstrip("&")
            if sty not in OBJ_ENUMS:
                continue
            names = set(v.split("::")[-1] for a in m["arms"] for v in T.variant_of_pat(a["pat"]))
            if not {"Name", "String", "Dictionary", "Array"} <= names:
                continue
            # must emit: some emitter call inside the function
            if not L.calls_to(fn, EMITTERS) and not any(L.calls_to(facts.fns[c], EMITTERS) for c in facts.callees.get(fid, ()) if c in facts.fns and c.startswith(fid.rsplit("::", 1)[0])):
                continue
            if fn.trait in ("std::fmt::Debug", "std::clone::Clone", "std::fmt::Display"):
                continue
            out.append((fn, m))
    return out


def arm_range(fn, m, idx):
    arms = m["arms"]
    lo = arms[idx]["line"]
    hi = arms[idx + 1]["line"] if idx + 1 < len(arms) else fn.hi + 1
    return lo, hi


def arm_index(m, variant):
    for i, a in enumerate(m["arms"]):
        if any(v.endswith("::" + variant) for v in T.variant_of_pat(a["pat"])):
            return i
    return None


def calls_in_lines(facts, fn, lo, hi):
    out = []
    for f in L.group(facts, fn.id):
        for b, c, a, d, t, u in f.calls():
            if lo <= f.line(b) < hi:
                out.append((f, b, c, a, d))
    return out


def local_callees_in_lines(facts, fn, lo, hi):
    out = []
    for f, b, c, a, d in calls_in_lines(facts, fn, lo, hi):
        r = c.get("r")
        if r in facts.fns and r != fn.id:
            out.append(r)
    return out


# ---------------------------------------------------------------- "/{name}" format sites
def _owner_fn(facts, site):
    """innermost MIR body lexically containing a format site"""
    best = None
    for fn in facts.fns_by_file().get(site["file"], ()):
        if fn.lo <= site["line"] <= fn.hi:
            if best is None or (fn.hi - fn.lo) < (best.hi - best.lo):
                best = fn
    return best


def name_format_sites(facts):
    """format_args sites where a literal piece ends in '/' directly before a placeholder and that
    '/' can start a name token (literal start, or after whitespace / '[' / '(' / '<<')"""
    out = []
    for s in facts.fmts:
        tpl = s["tpl"]
        for i, p in enumerate(tpl):
            if not (isinstance(p, dict) and i > 0 and isinstance(tpl[i - 1], str) and tpl[i - 1].endswith("/")):
                continue
            lit = tpl[i - 1]
            if len(lit) > 1 and not (lit[-2] in " \n\t\r[(" or lit[-3:-1] == "<<"):
                continue
            if len(lit) == 1 and i - 1 != 0:
                # "{a}/{b}": the slash follows formatted text, it does not start a name token
                continue
            if p["tr"] not in ("Display",):
                continue
            out.append((s, i, p))
    return out


def classify_format_arg(facts, fn, site, ph):
    """type and provenance of the placeholder argument, from the MIR of the owning function.
    returns dict(type=..., kind='int'|'static'|'escaped'|'dynamic'|'unknown', via=...)"""
    # Argument::new_display::<T> calls at the site's (line, col), in order
    calls = []
    for b, c, a, d, t, u in fn.calls():
        p = c.get("p") or ""
        if "fmt::rt::Argument" in p and fn.line(b) == site["line"] and fn.term_col(b) == site["col"]:
            calls.append((b, c, a))
    # placeholders in order of first use of each (arg, trait)
    order = []
    for p in site["tpl"]:
        if isinstance(p, dict):
            k = (p["arg"], p["tr"])
            if k not in order:
                order.append(k)
    k = (ph["arg"], ph["tr"])
    nsites = len([s2 for s2 in facts.fmts if s2["file"] == site["file"] and s2["line"] == site["line"] and s2["col"] == site["col"]])
    if nsites > 1:
        return {"type": None, "kind": "unknown", "via": "several format sites on one line"}
    if k not in order or order.index(k) >= len(calls):
        return {"type": None, "kind": "unknown", "via": "argument call not located"}
    b, c, a = calls[order.index(k)]
    ty = (c.get("a") or "")
    ty = ty.split("::<", 2)[-1].rstrip(">") if "::<" in ty else ty
    if any(ty.lstrip("&").startswith(t) for t in ("u8", "u16", "u32", "u64", "usize", "i8", "i16", "i32", "i64", "isize", "f32", "f64")):
        return {"type": ty, "kind": "int", "via": ""}
    fl = FL.flow(fn)
    seen, drecs = fl.back_slice(FL.op_locals(a[0]))
    dyn = []
    static_calls = []
    esc = []
    for bb, cc in fl.calls_in_slice(drecs):
        r = cc.get("r") or cc.get("p") or ""
        f2 = facts.fns.get(r)
        if f2 is not None:
            if f2.ret and "'static str" in f2.ret:
                static_calls.append(r)
            elif is_name_escaper_by_constants(facts, r):
                esc.append(r)
            else:
                dyn.append(r)
        else:
            if any(r.endswith(x) for x in ("::deref", "::as_str", "::as_ref", "::borrow", "::clone", "::to_string", "::to_owned", "::into",
                                             "::from", "::as_bytes", "new_display", "::unwrap_or", "::unwrap_or_default")):
                continue
            dyn.append(r)
    # arguments / fields read
    reads_param = any(d[0] == "arg" for d in drecs)
    field_reads = []
    for d in drecs:
        if d[0] == "stmt":
            st = fn.blocks[d[1]][0][d[2]]
            for pl in FL.rvalue_places(st[2]) + [FL.op_place(o) for o in FL.rvalue_operands(st[2]) if FL.op_place(o)]:
                field_reads += [p[2] for p in pl[1] if isinstance(p, list) and p[0] == "f" and p[2]]
    if esc:
        return {"type": ty, "kind": "escaped", "via": esc[0]}
    if not dyn and not reads_param and not field_reads and (static_calls or fl.consts_in_slice(drecs)):
        return {"type": ty, "kind": "static", "via": (static_calls or ["literal"])[0]}
    if static_calls and not dyn and not field_reads:
        # e.g. self.font.pdf_name() -> &'static str : reads self (a parameter) only to select the static name
        return {"type": ty, "kind": "static", "via": static_calls[0]}
    return {"type": ty, "kind": "dynamic", "via": (dyn or field_reads or ["parameter"])[0] if (dyn or field_reads) else "parameter"}


def format_site_dest(facts, fn, site):
    """where the formatted text goes: 'buffer' (Vec<u8>/String via write!/format!), 'formatter'
    (fmt::Formatter: Display impl), 'error', 'trace'"""
    for b, c, a, d, t, u in fn.calls():
        if fn.line(b) != site["line"] or fn.term_col(b) != site["col"]:
            continue
        p = c.get("a") or c.get("p") or ""
        if "write_fmt" in p:
            if "Formatter" in p:
                return "formatter"
            return "buffer"
        if "tracing" in p or "log::" in p:
            return "trace"
        if p.endswith("fmt::format") or "alloc::fmt::format" in p or "std::fmt::format" in p:
            fl = FL.flow(fn)
            fw = fl.fwd_slice([d[0]])
            for bb, blk in enumerate(fn.blocks):
                for st in blk[0]:
                    rv = st[2]
                    if rv[0] == "agg" and rv[1][0] == "adt" and ("Error" in rv[1][1] or rv[1][2] == "Err"):
                        if any(l in fw for o in rv[2] for l in FL.op_locals(o)):
                            return "error"
            for bb, cc, aa, dd, tt, uu in fn.calls():
                r = cc.get("r")
                f2 = facts.fns.get(r)
                if f2 is not None and f2.ret and "Error" in f2.ret and not f2.ret.startswith("std::result::Result"):
                    if any(l in fw for o in aa for l in FL.op_locals(o)):
                        return "error"
            return "buffer"
        if "panic" in p or "assert" in p:
            return "error"
    if fn.trait in ("std::fmt::Display", "std::fmt::Debug"):
        return "formatter"
    return "unknown"
