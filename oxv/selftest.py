"""Checker self-test: apply a seeded edit to a scratch copy of /repo (outside /repo and /verif),
run one property's check against the copy and compare with the expectation.

  python3 -m oxv.selftest <ID> <patch-or-sed-file> [--expect fire|silent] [--rule R1a]

A `.patch`/`.diff` file is applied with `git apply`; a `.sed` file holds lines `path<TAB>sed-expr`.
The scratch copy and its outputs are removed afterwards.
"""
import os
import shutil
import subprocess
import sys
import tempfile

VERIF = os.path.dirname(os.path.dirname(os.path.abspath(__file__)))


def make_copy(repo="/repo"):
    d = tempfile.mkdtemp(prefix="oxv-self-", dir=os.environ.get("OXV_SCRATCH", "/tmp"))
    dst = os.path.join(d, "repo")
    subprocess.check_call(["rsync", "-a", "--exclude", "/target", "--exclude", "/.git", repo + "/", dst + "/"])
    return d, dst


def apply_edit(dst, edit):
    if edit.endswith(".sed"):
        for line in open(edit):
            line = line.rstrip("\n")
            if not line or line.startswith("#"):
                continue
            path, expr = line.split("\t", 1)
            before = open(os.path.join(dst, path)).read()
            subprocess.check_call(["sed", "-i", "-E", expr, os.path.join(dst, path)])
            if open(os.path.join(dst, path)).read() == before:
                raise SystemExit("selftest: sed edit did not change %s: %s" % (path, expr))
    else:
        subprocess.check_call(["git", "apply", "--unsafe-paths", "--directory", dst, os.path.abspath(edit)], cwd="/",
                              stdout=subprocess.DEVNULL, stderr=subprocess.DEVNULL)


def run_one(prop, edit, expect="fire", rule=None, tier="quick"):
    d, dst = make_copy()
    try:
        try:
            apply_edit(dst, edit)
        except (SystemExit, subprocess.CalledProcessError, OSError) as e:
            # the analysed tree no longer has the text this edit was written against: not a verdict on the checker
            return None, "selftest edit does not apply to the analysed tree: %s" % str(e)[:200]
        env = dict(os.environ)
        env["OXV_REPO"] = dst
        env["OXV_OUTDIR"] = os.path.join(d, "out")
        p = subprocess.run([sys.executable, "-m", "oxv.run", prop, "--tier", tier], cwd=VERIF, env=env,
                           stdout=subprocess.PIPE, stderr=subprocess.STDOUT, text=True)
        out = p.stdout
        fired = [l for l in out.splitlines() if l.startswith(prop + " ") and (rule is None or (" %s [" % rule) in l)]
        viol = "VIOLATION property=%s" % prop in out
        ok = (viol and bool(fired)) if expect == "fire" else (not viol and p.returncode == 0)
        if p.returncode not in (0, 1):
            ok = False
        return ok, out
    finally:
        shutil.rmtree(d, ignore_errors=True)


def main(argv):
    import argparse
    ap = argparse.ArgumentParser()
    ap.add_argument("prop")
    ap.add_argument("edit")
    ap.add_argument("--expect", default="fire")
    ap.add_argument("--rule")
    ap.add_argument("-v", action="store_true")
    a = ap.parse_args(argv)
    ok, out = run_one(a.prop, a.edit, a.expect, a.rule)
    if a.v or not ok:
        print(out[-5000:])
    print("SELFTEST %s %s expect=%s -> %s" % (a.prop, os.path.basename(a.edit), a.expect,
                                               "SKIP (edit does not apply)" if ok is None else "PASS" if ok else "FAIL"))
    return 0 if ok or ok is None else 1


if __name__ == "__main__":
    sys.exit(main(sys.argv[1:]))
