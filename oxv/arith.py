"""Untrusted-integer / arithmetic-panic analysis (DESIGN §4.1).

For every overflow / division assert of the debug build (MIR `Assert` terminators, exactly as
compiled) the operands are classified by walking their *value* definitions backwards:
  K constant, B(n) type-bounded (u8/u16 widening), M memory-bounded (len, counters, positions),
  S sanitised (checked_/saturating_/wrapping_/min/clamp/try_from), U untrusted (integers parsed
  from the file), ? unknown.
A site is refuted when an operand is U and no comparison involving that value dominates the
site, or when interval arithmetic over K/B operands exceeds the result type.  ?-operands are never
reported.
"""
from . import flow as FL
from . import cfg as CF
from . import lib as L

U_SOURCES = ["PdfObject::as_integer", "PdfObject::as_real", "PdfObject::as_i64", "PdfObject::as_f64", "from_str_radix",
             "from_be_bytes", "from_le_bytes", "XRefStream::read_field", "read_field", "str::parse", "core::str::<impl str>::parse",
             "read_u16", "read_u32", "read_i16", "read_u8",
             # entropy-decoded integers of the JBIG2 / CCITT decoders: any value the bit stream encodes
             "decode_integer_arith", "huffman::HuffmanTable::decode_int", "decode_int", "decode_iaid", "BitstreamReader::read_bits"]
M_SOURCES = ["len", "capacity", "count", "position", "stream_position", "size_hint", "chars", "bytes", "leading_zeros", "trailing_zeros",
             "count_ones", "as_usize_len"]
SANITISERS = ["checked_add", "checked_sub", "checked_mul", "checked_div", "checked_rem", "checked_shl", "checked_shr", "checked_neg", "checked_pow",
              "saturating_add", "saturating_sub", "saturating_mul", "saturating_pow", "wrapping_add", "wrapping_sub", "wrapping_mul",
              "wrapping_neg", "wrapping_shl", "wrapping_shr", "overflowing_add", "overflowing_sub", "overflowing_mul", "min", "clamp",
              "try_from", "try_into", "rem_euclid", "abs_diff", "unsigned_abs", "checked_next_power_of_two"]
FORWARD = ["map_err", "unwrap_or", "unwrap_or_default", "unwrap_or_else", "map", "and_then", "branch", "into", "from", "clone", "copied", "cloned",
           "unwrap", "expect", "ok", "ok_or", "ok_or_else", "deref", "as_ref", "borrow", "max", "abs", "or", "or_else", "filter", "map_or",
           "from_residual", "to_owned", "get", "first", "last", "next", "as_deref", "flatten", "transpose", "zip", "fold", "sum", "product"]
TYPE_MAX = {"u8": 2**8 - 1, "u16": 2**16 - 1, "u32": 2**32 - 1, "u64": 2**64 - 1, "usize": 2**64 - 1, "u128": 2**128 - 1,
            "i8": 2**7 - 1, "i16": 2**15 - 1, "i32": 2**31 - 1, "i64": 2**63 - 1, "isize": 2**63 - 1}


class Arith:
    def __init__(self, facts, scope):
        self.facts = facts
        self.scope = scope
        self.ufields = {}          # (type-head, field) -> source
        self.ret_u = {}            # fn id -> source description
        self.param_u = {}          # (fn id, param local) -> source description (an unguarded untrusted argument at some call site)
        self._collect_summaries()
        self._collect_params()
        self._collect_summaries()

    # -- value classification -----------------------------------------------------------------
    def classify(self, fn, op, depth=16, seen=None):
        """returns (cls, info). cls in K,B,M,S,U,?"""
        if op[0] == "k":
            v = op[2]
            return ("K", v if isinstance(v, int) else None)
        pl = FL.op_place(op)
        if pl is None:
            return ("?", None)
        return self._classify_place(fn, pl, depth, seen or set())

    _override = None      # {local: ("B", bound)} while re-evaluating an expression under a guard's constant

    def guard_constants(self, fn, b, op):
        """constants K2 of dominating ordered comparisons `x <op> K2` whose x is one of the values `op` is computed from:
        [(local x, K2)]"""
        g = CF.cfg(fn)
        roots = self._roots(fn, FL.op_locals(op))
        out = []
        for sb in g.dominators(b):
            for st in fn.blocks[sb][0]:
                rv = st[2]
                if rv[0] == "bin" and rv[1] in ("Lt", "Le", "Gt", "Ge"):
                    for x, y in ((rv[2], rv[3]), (rv[3], rv[2])):
                        k = FL.op_const(y)
                        pl = FL.op_place(x)
                        if isinstance(k, int) and not isinstance(k, bool) and pl is not None and not pl[1] and \
                                (self._roots(fn, [pl[0]]) & roots):
                            out.append((pl[0], k))
        return out

    def _classify_place(self, fn, pl, depth, seen):
        l = pl[0]
        if self._override and not pl[1] and l in self._override:
            return self._override[l]
        fields = [p for p in pl[1] if isinstance(p, list) and p[0] == "f"]
        if fields and fields[-1][2]:
            base_ty = fn.locals[l].lstrip("&").replace("mut ", "").strip().split("<")[0]
            k = (base_ty, fields[-1][2])
            if k in self.ufields:
                return ("U", "field %s.%s <- %s" % (L.short(base_ty), fields[-1][2], self.ufields[k]))
            # enum payload of a token: Token::Integer(n) / Token::Number(n)
        downs = [p for p in pl[1] if isinstance(p, list) and p[0] == "d"]
        if downs and downs[-1][1] in ("Integer", "Number", "Real") and any(t in fn.locals[l] for t in ("Token", "PdfObject")):
            return ("U", "%s payload of %s" % (downs[-1][1], L.short(fn.locals[l].lstrip("&").split("<")[0])))
        if downs and downs[-1][1] in ("Some", "Ok", "Continue"):
            # payload of Option / Result / ControlFlow: the class of the wrapped value
            if depth == 0 or (l, -1) in seen:
                return ("?", None)
            return self._classify_place(fn, [l, []], depth - 1, seen | {(l, -1)})
        if fields and not (len(fields) == 1 and fields[0][1] == 0 and fn.locals[l].startswith("(")):
            # some other field: unknown unless tuple .0 of checked arithmetic
            if not fn.locals[l].startswith("("):
                return ("?", None)
        if depth == 0 or (l, len(pl[1])) in seen:
            return ("?", None)
        seen = seen | {(l, len(pl[1]))}
        fl = FL.flow(fn)
        ty = fn.locals[l]
        if ty in ("u8", "&u8") and 1 <= l <= fn.nargs and fn.kind != "Closure":
            return ("B", 255)
        # 64-bit cursors / counters: a local whose every update is `self + K` (or + a type-bounded value) cannot overflow
        # within 2^64 steps of a loop; its class is that of its initial values, at least memory-bounded (M)
        if not pl[1] and ty in ("usize", "u64", "i64", "isize"):
            inits, selfinc, other = [], 0, 0
            for d in fl.defs.get(l, ()):
                if d[0] != "stmt":
                    other += 1
                    continue
                st = fn.blocks[d[1]][0][d[2]]
                if st[1] != [l, []]:
                    continue
                rv = st[2]
                src = FL.op_place(rv[1]) if rv[0] == "use" else None
                inc = None
                if src is not None and src[1] and isinstance(src[1][0], list) and src[1][0][0] == "f" and src[1][0][1] == 0:
                    # x = (tuple).0 where tuple = AddWithOverflow(x, k)
                    for d2 in fl.defs.get(src[0], ()):
                        if d2[0] == "stmt":
                            r2 = fn.blocks[d2[1]][0][d2[2]][2]
                            if r2[0] == "bin" and r2[1].startswith("Add"):
                                for x, y in ((r2[2], r2[3]), (r2[3], r2[2])):
                                    px = FL.op_place(x)
                                    if px is not None and not px[1] and px[0] == l:
                                        inc = y
                if inc is not None:
                    ci = self.classify(fn, inc, depth - 1, seen | {(l, 0)})
                    if ci[0] in ("K", "B") and isinstance(ci[1], int) and 0 <= ci[1] < (1 << 32):
                        selfinc += 1
                        continue
                    other += 1
                else:
                    inits.append(rv)
            if selfinc and not other and depth > 0:
                best0 = ("M", None)
                for rv in inits:
                    best0 = self._join(best0, self._classify_rvalue(fn, rv, depth - 1, seen | {(l, 0)}))
                if best0[0] in ("K", "B"):
                    best0 = ("M", None)
                return best0
        best = None
        ndefs = 0
        for d in fl.defs.get(l, ()):
            if d[0] == "arg":
                r = ("B", 255) if ty in ("u8", "&u8") else ("?", None)
                if (fn.id, l) in self.param_u:
                    r = ("U", self.param_u[(fn.id, l)])
            elif d[0] == "stmt":
                st = fn.blocks[d[1]][0][d[2]]
                if st[1][0] != l or (st[1][1] and not all(x == "*" for x in st[1][1])):
                    continue
                r = self._classify_rvalue(fn, st[2], depth - 1, seen)
            elif d[0] == "call":
                t = fn.blocks[d[1]][1]
                r = self._classify_call(fn, t, depth - 1, seen)
            else:
                continue
            ndefs += 1
            best = self._join(best, r)
        return best or ("?", None)

    @staticmethod
    def _join(a, b):
        if a is None:
            return b
        order = {"U": 5, "?": 4, "M": 3, "B": 2, "K": 1, "S": 0}
        if order[a[0]] >= order[b[0]]:
            if a[0] == b[0] and a[0] in ("B", "K") and isinstance(a[1], int) and isinstance(b[1], int):
                return (a[0], max(a[1], b[1]))
            return a
        return b

    def _classify_rvalue(self, fn, rv, depth, seen):
        k = rv[0]
        if k == "use":
            return self.classify(fn, rv[1], depth, seen)
        if k == "cast":
            src_ty, dst_ty = rv[4], rv[3]
            inner = self.classify(fn, rv[2], depth, seen)
            if src_ty in ("u8", "u16", "bool", "char") and inner[0] in ("?", "U"):
                return ("B", TYPE_MAX.get(src_ty, 0x10FFFF))
            WIDE = {"u32": ("u64", "usize", "i64", "u128", "i128", "isize"), "i32": ("i64", "i128", "isize"), "i16": ("i32", "i64", "isize"),
                    "u64": ("u128", "i128"), "i8": ("i16", "i32", "i64", "isize")}
            if src_ty in WIDE and dst_ty in WIDE[src_ty] and inner[0] in ("?", "U", "M"):
                return ("B", TYPE_MAX[src_ty])
            if inner[0] == "U":
                return inner
            if inner[0] in ("K", "B", "M", "S"):
                return inner
            return inner
        if k == "bin":
            op = rv[1]
            a = self.classify(fn, rv[2], depth, seen)
            b = self.classify(fn, rv[3], depth, seen)
            if op in ("BitAnd",):
                ks = [x[1] for x in (a, b) if x[0] == "K" and isinstance(x[1], int)]
                if ks:
                    return ("B", min(ks))
            if op in ("Rem", "RemWithOverflow") and b[0] == "K" and isinstance(b[1], int):
                return ("B", abs(b[1]))
            if op in ("Shr",) and b[0] == "K":
                return a if a[0] != "U" else a
            if op in ("Eq", "Ne", "Lt", "Le", "Gt", "Ge"):
                return ("B", 1)
            if "U" in (a[0], b[0]):
                return a if a[0] == "U" else b
            if "?" in (a[0], b[0]):
                return ("?", None)
            if a[0] in ("K", "B") and b[0] in ("K", "B") and isinstance(a[1], int) and isinstance(b[1], int):
                if op.startswith("Add"):
                    return ("B", a[1] + b[1])
                if op.startswith("Mul"):
                    return ("B", a[1] * b[1])
                if op.startswith("Sub"):
                    return ("B", a[1])
                if op.startswith("Shl"):
                    return ("B", a[1] << min(b[1], 64))
                if op.startswith("Div"):
                    return ("B", a[1])
            return ("M", None) if "M" in (a[0], b[0]) else ("S", None)
        if k == "un":
            return self.classify(fn, rv[2], depth, seen)
        if k in ("ref", "raw"):
            # `&(*obj as Integer).0` (pattern binding by reference): the class of the referenced place
            pl = rv[-1]
            if depth > 0 and pl[1]:
                return self._classify_place(fn, pl, depth - 1, seen)
            return ("?", None)
        if k == "discr":
            return ("B", 255)
        if k == "agg":
            if rv[1][0] == "adt" and rv[1][2] in ("Some", "Ok") and len(rv[2]) == 1:
                return self.classify(fn, rv[2][0], depth, seen)
            if rv[1][0] == "tup":
                best = None
                for o in rv[2]:
                    best = self._join(best, self.classify(fn, o, depth, seen))
                return best or ("?", None)
            return ("?", None)
        return ("?", None)

    def _classify_call(self, fn, t, depth, seen):
        c, args = t[1], t[2]
        p = c.get("p") or ""
        name = p.rsplit("::", 1)[-1]
        r = c.get("r") or p
        if L.is_call_to(c, U_SOURCES):
            return ("U", "%s at %s" % (L.short(p), fn.where(self._block_of(fn, t))))
        if name in SANITISERS:
            return ("S", name)
        if name == "pow" and len(args) == 2:
            a = self.classify(fn, args[0], depth, seen)
            b = self.classify(fn, args[1], depth, seen)
            if a[0] in ("K", "B") and isinstance(a[1], int):
                e = b[1] if (b[0] in ("K", "B") and isinstance(b[1], int)) else None
                if e is None:
                    # exponent = K - x (unsigned): bounded by K
                    e = self._sub_bound(fn, args[1])
                if e is not None and e < 256:
                    return ("B", a[1] ** e)
            return ("?", None)
        if name in M_SOURCES:
            return ("M", name)
        if r in self.ret_u:
            return ("U", "%s returns %s" % (L.short(r), self.ret_u[r]))
        if name in FORWARD and args:
            best = None
            for a in args:
                best = self._join(best, self.classify(fn, a, depth, seen))
            # closures passed to map/and_then/unwrap_or_else: their return class
            for a in args:
                pl = FL.op_place(a)
                if pl is not None:
                    for d in FL.flow(fn).defs.get(pl[0], ()):
                        if d[0] == "stmt":
                            rv = fn.blocks[d[1]][0][d[2]][2]
                            if rv[0] == "agg" and rv[1][0] == "clo" and rv[1][1] in self.ret_u:
                                best = self._join(best, ("U", self.ret_u[rv[1][1]]))
            for a in args:
                if a[0] == "k" and isinstance(a[2], dict) and "fn" in a[2]:
                    f2 = a[2]["fn"]
                    if f2 in self.ret_u:
                        best = self._join(best, ("U", self.ret_u[f2]))
                    elif any(f2.endswith(s.split("::")[-1]) and s.split("::")[-1] in f2 for s in ("PdfObject::as_integer", "PdfObject::as_real")):
                        best = self._join(best, ("U", L.short(f2)))
            return best or ("?", None)
        return ("?", None)

    def _sub_bound(self, fn, op):
        pl = FL.op_place(op)
        if pl is None:
            return None
        fl = FL.flow(fn)
        for d in fl.defs.get(pl[0], ()):
            if d[0] == "stmt":
                rv = fn.blocks[d[1]][0][d[2]][2]
                if rv[0] == "use":
                    q = FL.op_place(rv[1])
                    if q is not None and q[0] != pl[0]:
                        r = self._sub_bound(fn, ["c", [q[0], []]])
                        if r is not None:
                            return r
                if rv[0] == "bin" and rv[1].startswith("Sub") and rv[2][0] == "k" and isinstance(rv[2][2], int):
                    return rv[2][2]
                if rv[0] == "cast":
                    return self._sub_bound(fn, rv[2])
        return None

    @staticmethod
    def _block_of(fn, t):
        for b, blk in enumerate(fn.blocks):
            if blk[1] is t:
                return b
        return 0

    # -- summaries ------------------------------------------------------------------------------
    def _collect_summaries(self):
        facts = self.facts
        for rnd in range(3):
            changed = False
            for fid in self.scope:
                fn = facts.fns.get(fid)
                if fn is None:
                    continue
                # returns U ?
                rty = fn.ret if fn.ret else fn.locals[0]
                if fid not in self.ret_u and rty and any(t in rty for t in ("i64", "i32", "u32", "u64", "usize", "u16", "i16", "f64", "f32")) \
                        and "Vec<" not in rty and "String" not in rty and "HashMap" not in rty:
                    c = self._classify_place(fn, [0, []], 14, set())
                    if c[0] == "U":
                        self.ret_u[fid] = c[1]
                        changed = True
                # field stores of U
                for b, blk in enumerate(fn.blocks):
                    for st in blk[0]:
                        pl = st[1]
                        fs = [p for p in pl[1] if isinstance(p, list) and p[0] == "f" and p[2]]
                        if not fs:
                            continue
                        base_ty = fn.locals[pl[0]].lstrip("&").replace("mut ", "").strip().split("<")[0]
                        k = (base_ty, fs[-1][2])
                        if k in self.ufields or base_ty.startswith("("):
                            continue
                        c = self._classify_rvalue(fn, st[2], 14, set())
                        if c[0] == "U" and not any(self.guarded(fn, b, o) for o in FL.rvalue_operands(st[2]) if o[0] != "k"):
                            # (a value range-checked before it is stored is a validated field, not an untrusted one)
                            self.ufields[k] = c[1]
                            changed = True
                    # aggregates: struct literal with U operand
                    for st in blk[0]:
                        rv = st[2]
                        if rv[0] == "agg" and rv[1][0] == "adt":
                            adt = facts.adts.get(rv[1][1])
                            if not adt or adt["enum"]:
                                continue
                            names = [f[0] for f in adt["variants"][0]["fields"]]
                            for i, o in enumerate(rv[2]):
                                if i < len(names) and (rv[1][1], names[i]) not in self.ufields:
                                    c = self.classify(fn, o, 14)
                                    if c[0] == "U" and not self.guarded(fn, b, o):
                                        self.ufields[(rv[1][1], names[i])] = c[1]
                                        changed = True
            if not changed:
                break

    def _collect_params(self):
        """integer parameters that receive an untrusted, unguarded value at some call site in scope (two rounds, so a value
        handed on through one wrapper is still seen)"""
        facts = self.facts
        for rnd in range(2):
            changed = False
            for fid in self.scope:
                fn = facts.fns.get(fid)
                if fn is None:
                    continue
                for b, c, a, d, t, u in fn.calls():
                    if not isinstance(c, dict):
                        continue
                    f2 = facts.fns.get(c.get("r"))
                    if f2 is None or f2.id not in self.scope or f2.kind == "Closure":
                        continue
                    for i, op in enumerate(a):
                        pl = 1 + i
                        if pl > f2.nargs or (f2.id, pl) in self.param_u:
                            continue
                        if f2.locals[pl] not in ("usize", "u32", "u64", "i32", "i64", "u16", "i16", "isize"):
                            continue
                        cls = self.classify(fn, op)
                        if cls[0] == "U" and not self.upper_guarded(fn, b, op):
                            self.param_u[(f2.id, pl)] = "argument of %s at %s: %s" % (L.short(fn.parent or fn.id), fn.where(b), cls[1])
                            changed = True
            if not changed:
                break

    ALLOC_SIZE_ARG = {"with_capacity": 0, "from_elem": 1, "reserve": 1, "reserve_exact": 1, "resize": 1, "with_capacity_and_hasher": 0,
                      "resize_with": 1}

    def alloc_sites(self):
        """yield (fn, block, callee short name, class, guarded) for every allocation whose size is an argument"""
        facts = self.facts
        for fid in sorted(self.scope):
            fn = facts.fns.get(fid)
            if fn is None:
                continue
            for b, c, a, d, t, u in fn.calls():
                if not isinstance(c, dict):
                    continue
                p = c.get("p") or ""
                nm = L.short(p)
                if nm not in self.ALLOC_SIZE_ARG or not any(x in p for x in ("Vec", "String", "from_elem", "HashMap", "VecDeque", "HashSet")):
                    continue
                i = self.ALLOC_SIZE_ARG[nm]
                if i >= len(a):
                    continue
                cls = self.classify(fn, a[i])
                yield fn, b, nm, cls, (self.upper_guarded(fn, b, a[i]) if cls[0] == "U" else None)

    # -- sanitisation by a dominating comparison --------------------------------------------------
    def _roots(self, fn, locs):
        fl = FL.flow(fn)
        roots = set()
        work = list(locs)
        steps = 0
        while work and steps < 60:
            l = work.pop()
            if l in roots:
                continue
            roots.add(l)
            steps += 1
            for d in fl.defs.get(l, ()):
                if d[0] == "stmt":
                    st = fn.blocks[d[1]][0][d[2]]
                    if st[1][0] != l:
                        continue
                    rv = st[2]
                    if rv[0] in ("use", "cast", "un"):
                        work.extend(FL.op_locals(rv[1] if rv[0] == "use" else rv[2]))
                    elif rv[0] == "bin":
                        work.extend(FL.op_locals(rv[2]) + FL.op_locals(rv[3]))
                    elif rv[0] in ("ref",):
                        work.append(rv[2][0])
                elif d[0] == "call":
                    t = fn.blocks[d[1]][1]
                    if (t[1].get("p") or "").rsplit("::", 1)[-1] in FORWARD:
                        for a in t[2]:
                            work.extend(FL.op_locals(a))
        return roots

    def guarded(self, fn, b, op):
        """a comparison involving the operand's value (or a value it was copied / cast / computed
        from) dominates b"""
        g = CF.cfg(fn)
        roots = self._roots(fn, FL.op_locals(op))
        # field places count as roots by (base, field)
        for sb in g.dominators(b):
            for st in fn.blocks[sb][0]:
                rv = st[2]
                if rv[0] == "bin" and rv[1] in ("Lt", "Le", "Gt", "Ge", "Eq", "Ne"):
                    if rv[1] in ("Eq", "Ne") and (rv[2][0] == "k" or rv[3][0] == "k") and \
                            not (FL.op_const(rv[2]) == 0 or FL.op_const(rv[3]) == 0):
                        # `x == SENTINEL` (e.g. usize::MAX markers) bounds nothing on the other branch; `x == 0` / `x != 0`
                        # is the usual divisor / emptiness test and stays a guard
                        continue
                    if self._roots(fn, FL.op_locals(rv[2]) + FL.op_locals(rv[3])) & roots:
                        return True
            t = fn.term(sb)
            if t[0] == "sw" and sb != b and self._roots(fn, FL.op_locals(t[1])) & roots:
                return True
            if t[0] == "call" and L.is_call_to(t[1], ["PartialOrd::lt", "PartialOrd::le", "PartialOrd::gt", "PartialOrd::ge", "contains"]):
                if any(self._roots(fn, FL.op_locals(a)) & roots for a in t[2]):
                    return True
        return False

    def upper_guarded(self, fn, b, op):
        """an *upper* bound on the operand's value dominates b: an ordered comparison (<, <=, >, >=) between the value (or what it
        was computed from) and something other than the constants 0 / -1 / 1, or min/clamp/try_from in its derivation"""
        g = CF.cfg(fn)
        roots = self._roots(fn, FL.op_locals(op))
        for sb in g.dominators(b):
            for st in fn.blocks[sb][0]:
                rv = st[2]
                if rv[0] == "bin" and rv[1] in ("Lt", "Le", "Gt", "Ge"):
                    ka, kb = FL.op_const(rv[2]), FL.op_const(rv[3])
                    if (isinstance(ka, int) and ka in (0, 1, -1)) or (isinstance(kb, int) and kb in (0, 1, -1)):
                        continue
                    if self._roots(fn, FL.op_locals(rv[2]) + FL.op_locals(rv[3])) & roots:
                        return True
            t = fn.term(sb)
            if t[0] == "call" and L.is_call_to(t[1], ["PartialOrd::lt", "PartialOrd::le", "PartialOrd::gt", "PartialOrd::ge", "contains"]):
                if any(self._roots(fn, FL.op_locals(a)) & roots for a in t[2]):
                    return True
        return False

    # -- main ---------------------------------------------------------------------------------------
    def sites(self):
        """yield (fn, block, kind, operands-classes, verdict, detail)"""
        facts = self.facts
        for fid in sorted(self.scope):
            fn = facts.fns.get(fid)
            if fn is None:
                continue
            for b, blk in enumerate(fn.blocks):
                t = blk[1]
                if t[0] != "assert":
                    continue
                kind = t[3]
                if not (kind.startswith("Overflow") or kind in ("OverflowNeg", "DivisionByZero", "RemainderByZero")):
                    continue
                ops = t[4]
                if kind in ("Overflow:Shl", "Overflow:Shr") and len(ops) == 2:
                    ops = ops[1:]      # the assert is about the shift amount
                cls = [self.classify(fn, o) for o in ops]
                verdict = "discharged"
                detail = ""
                us = [(o, c) for o, c in zip(ops, cls) if c[0] == "U"]
                if kind in ("DivisionByZero", "RemainderByZero"):
                    # the operand is the divisor
                    if us and not self.guarded(fn, b, us[0][0]):
                        verdict, detail = "refuted", "divisor is untrusted (%s) and never compared" % us[0][1][1]
                    elif any(c[0] == "?" for c in cls):
                        verdict = "undecided"
                elif us:
                    if kind == "Overflow:Sub" and len(ops) == 2 and cls[1][0] != "U":
                        # `untrusted - bounded`: underflows only when the untrusted value is *small*, which its being
                        # file-controlled does not by itself make reachable (e.g. `n - bytes.len()` right after pushing at most
                        # one byte when n > 0): not decided here
                        yield fn, b, kind, cls, "undecided", ""
                        continue
                    ung = [(o, c) for o, c in us if not self.guarded(fn, b, o)]
                    if ung:
                        verdict, detail = "refuted", "operand is an untrusted integer (%s) with no dominating range check" % ung[0][1][1]
                    else:
                        verdict = "discharged"
                elif all(c[0] in ("K", "B") and isinstance(c[1], int) for c in cls) and len(cls) == 2 and kind.startswith("Overflow:"):
                    opk = kind.split(":")[1]
                    ty = None
                    # result type: type of the first operand
                    p0 = FL.op_place(ops[0])
                    ty = fn.locals[p0[0]] if p0 and not p0[1] else (ops[0][1] if ops[0][0] == "k" else None)
                    mx = TYPE_MAX.get(ty)
                    hi = None
                    if opk == "Mul":
                        hi = cls[0][1] * cls[1][1]
                    elif opk == "Add":
                        hi = cls[0][1] + cls[1][1]
                    if mx is not None and hi is not None and hi > mx and not (self.guarded(fn, b, ops[0]) or self.guarded(fn, b, ops[1])):
                        verdict, detail = "refuted", "bounded operands [0,%d] %s [0,%d] exceed %s::MAX" % (cls[0][1], opk, cls[1][1], ty)
                    if opk == "Sub" and cls[0][0] == "K" and cls[1][0] == "B" and ty and ty.startswith("u") and cls[1][1] > cls[0][1]:
                        if not self.guarded(fn, b, ops[1]):
                            verdict, detail = "refuted", "constant %d minus a value bounded only by [0,%d] underflows %s" % (cls[0][1], cls[1][1], ty)
                        else:
                            # guarded: re-evaluate the subtrahend with each guard constant as the bound of the compared value;
                            # if even the *largest* guard constant leaves it above the minuend, the guard is too weak
                            gks = self.guard_constants(fn, b, ops[1])
                            if gks:
                                best = None
                                for gl, k2 in gks:
                                    # every copy of the compared value gets the bound
                                    ov = {}
                                    rts = self._roots(fn, [gl])
                                    for l2 in range(len(fn.locals)):
                                        if fn.locals[l2] == fn.locals[gl] and (self._roots(fn, [l2]) & rts) and l2 != FL.op_place(ops[1])[0]:
                                            ov[l2] = ("B", k2)
                                    self._override = ov
                                    try:
                                        c2 = self.classify(fn, ops[1])
                                    finally:
                                        self._override = None
                                    if c2[0] in ("B", "K") and isinstance(c2[1], int):
                                        best = c2[1] if best is None else min(best, c2[1])
                                if best is not None and best > cls[0][1]:
                                    verdict, detail = "refuted", ("constant %d minus a value that the dominating comparison bounds only by %d "
                                                                  "underflows %s" % (cls[0][1], best, ty))
                elif any(c[0] == "?" for c in cls):
                    verdict = "undecided"
                yield fn, b, kind, cls, verdict, detail


def offset_index_sites(facts, scope):
    """index expressions `a[i + k]` (k > 0 a constant) whose `i` is the variable of an integer range loop
    (`for i in lo..hi`, `(lo..hi).step_by(n)`): yield (fn, block, k, guarded).  The range only keeps `i` itself below `hi`, so
    `i + k` needs its own guard: guarded = some dominating ordered comparison (other than the bounds check itself) has an
    operand computed by an addition on that `i`, or the bound of the range was computed by a subtraction (`0..len - k`)."""
    def copies_root(fn, fl, l, depth=5):
        while depth > 0:
            ds = [d for d in fl.defs.get(l, ()) if d[0] == "stmt"]
            if len(ds) == 1:
                rv = fn.blocks[ds[0][1]][0][ds[0][2]][2]
                if rv[0] == "use":
                    p = FL.op_place(rv[1])
                    if p is not None and not p[1]:
                        l = p[0]
                        depth -= 1
                        continue
            break
        return l

    def add_base(fn, fl, local):
        """local = (x + k).0  ->  (x, k)"""
        for d in fl.defs.get(local, ()):
            if d[0] != "stmt":
                continue
            rv = fn.blocks[d[1]][0][d[2]][2]
            src = FL.op_place(rv[1]) if rv[0] == "use" else None
            if src is not None and src[1] and fn.locals[src[0]].startswith("("):
                for d2 in fl.defs.get(src[0], ()):
                    if d2[0] == "stmt":
                        r2 = fn.blocks[d2[1]][0][d2[2]][2]
                        if r2[0] == "bin" and r2[1].startswith("Add"):
                            for x, y in ((r2[2], r2[3]), (r2[3], r2[2])):
                                k = FL.op_const(y)
                                px = FL.op_place(x)
                                if isinstance(k, int) and not isinstance(k, bool) and k > 0 and px is not None and not px[1]:
                                    return px[0], k
        return None

    def range_var(fn, fl, l):
        """is l the payload of `Iterator::next` on an integer Range / StepBy<Range>?  returns the next() block or None"""
        for d in fl.defs.get(l, ()):
            if d[0] != "stmt":
                continue
            rv = fn.blocks[d[1]][0][d[2]][2]
            if rv[0] != "use":
                continue
            p = FL.op_place(rv[1])
            if p is None or not p[1] or not any(isinstance(x, list) and x[0] == "d" and x[1] == "Some" for x in p[1]):
                continue
            for d2 in fl.defs.get(p[0], ()):
                if d2[0] == "call":
                    c = fn.term(d2[1])[1]
                    st = (c.get("self") or "") if isinstance(c, dict) else ""
                    if L.is_call_to(c, ["Iterator::next"]) and ("std::ops::Range<usize>" in st or "StepBy<std::ops::Range<usize>>" in st):
                        return d2[1]
        return None
    for fid in sorted(scope):
        fn = facts.fns.get(fid)
        if fn is None:
            continue
        fl = None
        g = None
        for b, blk in enumerate(fn.blocks):
            t = blk[1]
            idx = None
            if t[0] == "assert" and str(t[3]).startswith("BoundsCheck") and len(t[4]) > 1:
                idx = t[4][1]
            elif t[0] == "call" and isinstance(t[1], dict) and L.is_call_to(t[1], ["Index::index", "IndexMut::index_mut"]) and len(t[2]) > 1 \
                    and ("Vec<" in (t[1].get("self") or "") or "[" in (t[1].get("self") or "")):
                idx = t[2][1]
            if idx is None:
                continue
            pl = FL.op_place(idx)
            if pl is None or pl[1] or fn.locals[pl[0]] != "usize":
                continue
            fl = fl or FL.flow(fn)
            g = g or CF.cfg(fn)
            ba = add_base(fn, fl, pl[0]) or add_base(fn, fl, copies_root(fn, fl, pl[0]))
            if not ba:
                continue
            i0 = copies_root(fn, fl, ba[0])
            nb = range_var(fn, fl, i0)
            if nb is None:
                continue
            k = ba[1]
            ok = False
            for sb in g.dominators(b):
                tsb = fn.term(sb)
                assert_cond = FL.op_place(tsb[1])[0] if tsb[0] == "assert" and FL.op_place(tsb[1]) else None
                for st in fn.blocks[sb][0]:
                    rv = st[2]
                    if rv[0] != "bin" or rv[1] not in ("Lt", "Le", "Gt", "Ge"):
                        continue
                    if assert_cond is not None and st[1] == [assert_cond, []]:
                        continue
                    for o in (rv[2], rv[3]):
                        p = FL.op_place(o)
                        if p is None or p[1]:
                            continue
                        ba2 = add_base(fn, fl, p[0]) or add_base(fn, fl, copies_root(fn, fl, p[0]))
                        if ba2 and copies_root(fn, fl, ba2[0]) == i0:
                            ok = True
            # the range's upper bound was itself computed by a subtraction (`0..len - k`, `saturating_sub`)
            rt = fn.term(nb)
            r = L.recv_of(fn, rt[2])
            if r is not None:
                seen, drecs = fl.back_slice([r[0]])
                for dd in drecs:
                    if dd[0] == "stmt":
                        r3 = fn.blocks[dd[1]][0][dd[2]][2]
                        if r3[0] == "bin" and r3[1].startswith("Sub"):
                            ok = True
                    elif dd[0] == "call" and L.is_call_to(fn.term(dd[1])[1], ["saturating_sub", "checked_sub", "wrapping_sub", "chunks_exact", "windows"]):
                        ok = True
            yield fn, b, k, ok
