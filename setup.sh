#!/bin/sh
# Build the fact extractor and warm the dependency artefacts (offline).
set -e
cd "$(dirname "$0")"
export CARGO_NET_OFFLINE=true
(cd driver && cargo build --release --offline)
python3 - <<'PY'
import sys
sys.path.insert(0, '.')
from oxv import run
print(run.build_facts("default"))
PY
