//! Compile-fail / compile-pass witnesses (primitive P11) for the type-level remainder of C29.
//!
//! Each `compile_fail` block is paired with a compiling twin that differs only by the offending
//! line, so a witness whose path is merely wrong cannot pass by accident.

/// C29-R3: `LruCache::get` takes `&mut self` (a lookup refreshes recency), so it cannot be called
/// through a shared (read) guard — a `read()`-then-`get` implementation of the concurrent cache
/// does not type-check.
///
/// ```compile_fail,E0596
/// use oxidize_pdf::memory::LruCache;
/// use std::sync::RwLock;
/// let lock: RwLock<LruCache<u32, u32>> = RwLock::new(LruCache::new(2));
/// let guard = lock.read().unwrap();
/// let _ = guard.get(&1);
/// ```
///
/// Twin (differs only in taking the write guard):
///
/// ```
/// use oxidize_pdf::memory::LruCache;
/// use std::sync::RwLock;
/// let lock: RwLock<LruCache<u32, u32>> = RwLock::new(LruCache::new(2));
/// let mut guard = lock.write().unwrap();
/// let _ = guard.get(&1);
/// ```
pub struct LruGetNeedsExclusiveAccess;

/// C29-R3: the private fields of `LruCache` cannot be written from outside its module.
///
/// ```compile_fail,E0616
/// use oxidize_pdf::memory::LruCache;
/// let mut c: LruCache<u32, u32> = LruCache::new(2);
/// c.capacity = 100;
/// ```
///
/// Twin (uses the public API only):
///
/// ```
/// use oxidize_pdf::memory::LruCache;
/// let mut c: LruCache<u32, u32> = LruCache::new(2);
/// c.put(1, 1);
/// assert_eq!(c.len(), 1);
/// ```
pub struct LruFieldsArePrivate;

/// C29: `ObjectCache` is `Send + Sync` (compile-pass witness).
///
/// ```
/// fn assert_send_sync<T: Send + Sync>() {}
/// assert_send_sync::<oxidize_pdf::memory::ObjectCache>();
/// ```
pub struct ObjectCacheIsSendSync;
